// Package memfs is an instrumented in-memory backend (p9.Attacher / p9.File).
//
// Handles are path-bound exactly like fsimpl/localfs: a handle remembers a
// path that only Renamed updates, resolves it at every call, and pins its
// object at Open/Create. Anything that is not atomic or not coherent is
// therefore the server's doing, and shows through object identities (inode
// numbers in QID.Path).
//
// Every call logs enter/exit events on a logical clock, can be parked at a
// gate, faulted by a plan, and feeds the online monitors (lifecycle, overlap,
// names) under the backend's own event lock.
package memfs

import (
	"fmt"
	"io"
	"runtime"
	"sort"
	"strings"
	"sync"
	"sync/atomic"
	"time"

	"github.com/hugelgupf/p9/linux"
	"github.com/hugelgupf/p9/p9"

	"verif/internal/quiesce"
	"verif/internal/rawpeer"
)

// Node is one object of the tree.
type Node struct {
	ID       uint64
	Mode     p9.FileMode // type | permissions
	Children map[string]*Node
	Data     []byte
	Target   string
	Xattr    map[string][]byte
	UID      p9.UID
	GID      p9.GID
	Nlink    int
	Synth    bool   // content is a function of the offset, size SynthSize
	SynthSz  uint64 // size of a synthetic file
	RDev     uint64
	MTime    uint64
	Writes   int
}

// Class is the concurrency class of a backend call per the File contract.
type Class byte

const (
	ClassNone  Class = '-'
	ClassRead  Class = 'R'
	ClassWrite Class = 'W'
	ClassGlob  Class = 'G'
)

// Call is one backend call (an interval on the logical clock).
type Call struct {
	ID     int64
	H      int // handle id (0 for Attach)
	Method string
	Class  Class
	Path   string // receiver path at enter
	Name   string // first name argument, if any
	Name2  string
	Path2  string // path of a second handle argument (RenameAt newDir, Link target, Renamed newDir)
	Args   string
	Enter  int64
	Exit   int64 // 0 while running
	Err    string
	ErrVal error `json:"-"`
	Fault  string
	Conn   int
	Stale  bool // receiver's entry was unlinked/overwritten before this call (fenced fid)
}

func (c *Call) String() string {
	s := fmt.Sprintf("#%d h%d %s(%s) path=%s", c.ID, c.H, c.Method, c.Args, c.Path)
	if c.Exit != 0 {
		s += fmt.Sprintf(" [%d,%d]", c.Enter, c.Exit)
		if c.Err != "" {
			s += " err=" + c.Err
		}
	} else {
		s += fmt.Sprintf(" [%d,…", c.Enter)
	}
	return s
}

// Overlap is a pair of calls the contract forbids to overlap.
type Overlap struct {
	A, B string // "Method@relation"
	Desc string
}

// HState is the lifecycle record of one handle.
type HState struct {
	ID          int
	CreatedBy   string
	Path        string
	Closes      int
	Opens       int
	Inflight    int
	AfterClose  []string // methods begun after Close began
	CloseDuring []string // methods in flight when Close began
}

// Fault describes an injected failure.
type Fault struct {
	Nth    int64  // the Nth matching call from now (1-based)
	Method string // "" = any
	Err    error  // nil => panic
	Panic  bool
	hit    bool
}

// Match selects calls for a gate.
type Match struct {
	Method string // "" any
	Path   string // "" any; receiver path
	Name   string // "" any; first name argument
	H      int    // 0 any
	Fn     func(*Call) bool
}

func (m Match) ok(c *Call) bool {
	if m.Method != "" && m.Method != c.Method {
		return false
	}
	if m.Path != "" && m.Path != c.Path {
		return false
	}
	if m.Name != "" && m.Name != c.Name {
		return false
	}
	if m.H != 0 && m.H != c.H {
		return false
	}
	if m.Fn != nil && !m.Fn(c) {
		return false
	}
	return true
}

// Gate parks matching calls after they logged "enter".
type Gate struct {
	fs      *FS
	m       Match
	max     int // how many calls to catch (0 = unlimited)
	caught  int
	parked  []*Call
	release chan struct{}
	parkedC chan struct{}
	open    bool
}

// FS is the file system plus its instrumentation.
type FS struct {
	mu      sync.Mutex // tree
	Root    *Node
	nextIno uint64

	evmu     sync.Mutex // events, monitors, gates, faults
	calls    []*Call
	active   map[int64]*Call
	handles  map[int]*HState
	nextH    int
	nextCall int64
	overlaps []Overlap
	nameViol []string
	// NoModeOnce: that many GetAttr calls from now on succeed without
	// reporting Mode as valid (guarded by mu).
	NoModeOnce   int
	notes        []string
	gates        []*Gate
	faults       []*Fault
	maxConc      int
	sumConc      int64
	faultsPaused bool
	live         map[int]*H

	// Options
	NoWalkGetAttr  bool // WalkGetAttr returns ENOSYS (server falls back to Walk+GetAttr)
	AltWalkGetAttr bool // alternate ENOSYS / supported
	altFlip        uint32
	jitter         uint64 // non-zero: seed for scheduling perturbation
	NoLog          bool   // keep only counters (long stress runs)
	CloseErr       error  // returned by Close
	Recursive      bool   // UnlinkAt / RenameAt remove or replace non-empty directories (a backend may)
	// IOHook, if set, scripts ReadAt/WriteAt: it may shorten the count
	// (limit >= 0) or fail the call. It runs before any effect.
	IOHook func(method string, off int64, want int) (limit int, err error)
}

// New creates an empty file system with a root directory.
func New() *FS {
	fs := &FS{nextIno: 1, active: map[int64]*Call{}, handles: map[int]*HState{}}
	fs.Root = fs.newNode(p9.ModeDirectory | 0755)
	return fs
}

func (fs *FS) newNode(mode p9.FileMode) *Node {
	n := &Node{ID: fs.nextIno, Mode: mode, Nlink: 1}
	fs.nextIno++
	if mode.IsDir() {
		n.Children = map[string]*Node{}
	}
	return n
}

// SetJitter enables seeded scheduling perturbation at enter/exit.
func (fs *FS) SetJitter(seed uint64) { atomic.StoreUint64(&fs.jitter, seed|1) }

func (fs *FS) perturb(k int64) {
	s := atomic.LoadUint64(&fs.jitter)
	if s == 0 {
		return
	}
	z := (s + uint64(k)*0x9E3779B97F4A7C15)
	z = (z ^ (z >> 30)) * 0xBF58476D1CE4E5B9
	z ^= z >> 27
	switch z % 8 {
	case 0, 1, 2:
		runtime.Gosched()
	case 3:
		for i := 0; i < int(z>>8%5)+1; i++ {
			runtime.Gosched()
		}
	case 4:
		time.Sleep(time.Duration(z>>8%50) * time.Microsecond)
	}
}

// ---- fixture helpers (not instrumented) ----

// MkPath creates (or finds) a node at path; intermediate directories are
// created. kind is the mode (type|perm) of the final component.
func (fs *FS) MkPath(path string, mode p9.FileMode, data string) *Node {
	fs.mu.Lock()
	defer fs.mu.Unlock()
	cur := fs.Root
	parts := split(path)
	for i, p := range parts {
		last := i == len(parts)-1
		ch, ok := cur.Children[p]
		if !ok {
			m := p9.ModeDirectory | 0755
			if last {
				m = mode
			}
			ch = fs.newNode(m)
			if last {
				if mode.IsSymlink() {
					ch.Target = data
				} else {
					ch.Data = []byte(data)
				}
			}
			cur.Children[p] = ch
		}
		cur = ch
	}
	return cur
}

// Lookup resolves a path without instrumentation.
func (fs *FS) Lookup(path string) *Node {
	fs.mu.Lock()
	defer fs.mu.Unlock()
	n, _ := fs.resolve(split(path))
	return n
}

// Snapshot renders the tree canonically: "path:ino:type" lines.
func (fs *FS) Snapshot() string {
	fs.mu.Lock()
	defer fs.mu.Unlock()
	var out []string
	var rec func(p string, n *Node)
	rec = func(p string, n *Node) {
		out = append(out, fmt.Sprintf("%s:%d:%o", p, n.ID, uint32(n.Mode.FileType())>>12))
		var names []string
		for k := range n.Children {
			names = append(names, k)
		}
		sort.Strings(names)
		for _, k := range names {
			rec(p+"/"+k, n.Children[k])
		}
	}
	rec("", fs.Root)
	return strings.Join(out, "\n")
}

func split(p string) []string {
	var r []string
	for _, s := range strings.Split(p, "/") {
		if s != "" {
			r = append(r, s)
		}
	}
	return r
}

func (fs *FS) resolve(parts []string) (*Node, error) {
	cur := fs.Root
	for _, p := range parts {
		if !cur.Mode.IsDir() {
			return nil, linux.ENOTDIR
		}
		ch, ok := cur.Children[p]
		if !ok {
			return nil, linux.ENOENT
		}
		cur = ch
	}
	return cur, nil
}

// ---- instrumentation ----

func classOf(method string) Class {
	switch method {
	case "Walk", "WalkGetAttr", "Open", "ReadAt", "WriteAt", "GetAttr", "Readdir", "Readlink", "FSync":
		return ClassRead
	case "Create", "Mkdir", "Symlink", "Link", "Mknod", "UnlinkAt", "SetAttr":
		return ClassWrite
	case "RenameAt", "Renamed", "Rename":
		return ClassGlob
	}
	return ClassNone
}

func conflict(x, y *Call) bool {
	if x.Class == ClassNone || y.Class == ClassNone {
		return false
	}
	if x.Class == ClassGlob || y.Class == ClassGlob {
		return true
	}
	if x.Stale || y.Stale {
		// a fenced handle's remembered path no longer names its object:
		// only the server-wide (global class) exclusion above applies
		return false
	}
	if x.Path == y.Path && (x.Class == ClassWrite || y.Class == ClassWrite) {
		return true
	}
	if x.Method == "UnlinkAt" && y.Path == join(x.Path, x.Name) {
		return true
	}
	if y.Method == "UnlinkAt" && x.Path == join(y.Path, y.Name) {
		return true
	}
	return false
}

func join(p, n string) string {
	if p == "/" {
		return "/" + n
	}
	return p + "/" + n
}

func relation(x, y *Call) string {
	switch {
	case x.H == y.H && x.H != 0:
		return "same-handle"
	case x.Path == y.Path:
		return "same-path"
	case strings.HasPrefix(y.Path, strings.TrimSuffix(x.Path, "/")+"/"):
		return "descendant"
	case strings.HasPrefix(x.Path, strings.TrimSuffix(y.Path, "/")+"/"):
		return "ancestor"
	}
	return "unrelated"
}

func badName(n string) bool {
	return n == "" || n == "." || n == ".." || strings.Contains(n, "/")
}

type enterOpts struct {
	name, name2, path2 string
	names              []string
	hasNames           bool
	args               string
}

// enter logs the call, runs the monitors, parks at gates and applies faults.
// It returns the call and an injected error (or panics for a panic fault).
func (fs *FS) enter(h *H, method string, o enterOpts) (*Call, error) {
	id := atomic.AddInt64(&fs.nextCall, 1)
	fs.perturb(id * 2)
	c := &Call{ID: id, Method: method, Class: classOf(method), Name: o.name, Name2: o.name2, Path2: o.path2, Args: o.args}
	if h != nil {
		c.H = h.id
		c.Path = h.pathStr()
		c.Conn = h.conn
		h.pmu.Lock()
		c.Stale = h.stale
		h.pmu.Unlock()
	}
	fs.evmu.Lock()
	c.Enter = rawpeer.Tick()
	// name monitor
	checkName := func(n, pos string) {
		if badName(n) {
			fs.nameViol = append(fs.nameViol, fmt.Sprintf("%s:%s:%s", method, pos, nameClass(n)))
		}
	}
	switch method {
	case "Create", "Mkdir", "Mknod", "UnlinkAt", "Link":
		checkName(o.name, "name")
	case "Symlink":
		checkName(o.name, "newname")
	case "RenameAt":
		checkName(o.name, "oldname")
		checkName(o.name2, "newname")
	case "Renamed":
		checkName(o.name, "newname")
	case "Walk", "WalkGetAttr":
		if o.hasNames {
			for _, n := range o.names {
				checkName(n, "component")
			}
			if len(o.names) > 1 {
				fs.nameViol = append(fs.nameViol, fmt.Sprintf("%s:multi-component:%d", method, len(o.names)))
			}
		}
	}
	// lifecycle monitor
	if h != nil {
		st := fs.handles[h.id]
		if method == "Close" {
			st.Closes++
			if st.Inflight > 0 {
				for _, a := range fs.active {
					if a.H == h.id {
						st.CloseDuring = append(st.CloseDuring, a.Method)
					}
				}
			}
		} else {
			if st.Closes > 0 {
				st.AfterClose = append(st.AfterClose, method)
			}
		}
		st.Inflight++
	}
	// overlap monitor
	for _, a := range fs.active {
		if conflict(c, a) {
			fs.overlaps = append(fs.overlaps, Overlap{
				A:    a.Method,
				B:    c.Method,
				Desc: fmt.Sprintf("%s while %s still running (relation %s)", c, a, relation(a, c)),
			})
		}
	}
	fs.active[c.ID] = c
	if n := len(fs.active); n > fs.maxConc {
		fs.maxConc = n
	}
	fs.sumConc += int64(len(fs.active))
	if !fs.NoLog {
		fs.calls = append(fs.calls, c)
	}
	// faults
	var ferr error
	var fpanic bool
	for _, f := range fs.faults {
		if fs.faultsPaused {
			break
		}
		if f.hit || (f.Method != "" && f.Method != method) {
			continue
		}
		f.Nth--
		if f.Nth == 0 {
			f.hit = true
			if f.Panic {
				fpanic = true
				c.Fault = "panic"
			} else {
				ferr = f.Err
				c.Fault = "error"
			}
		}
	}
	// gates
	var g *Gate
	for _, x := range fs.gates {
		if !x.open && (x.max == 0 || x.caught < x.max) && x.m.ok(c) {
			x.caught++
			x.parked = append(x.parked, c)
			g = x
			break
		}
	}
	fs.evmu.Unlock()
	if g != nil {
		select {
		case g.parkedC <- struct{}{}:
		default:
		}
		<-g.release
	}
	if fpanic {
		fs.exit(h, c, fmt.Errorf("panic"))
		panic(fmt.Sprintf("memfs: injected panic in %s", method))
	}
	return c, ferr
}

func nameClass(n string) string {
	switch {
	case n == "":
		return "empty"
	case n == ".":
		return "dot"
	case n == "..":
		return "dotdot"
	case strings.Contains(n, "/"):
		return "slash"
	}
	return "ok"
}

func (fs *FS) exit(h *H, c *Call, err error) {
	fs.evmu.Lock()
	c.Exit = rawpeer.Tick()
	if err != nil {
		c.Err = err.Error()
		c.ErrVal = err
	}
	delete(fs.active, c.ID)
	if h != nil {
		fs.handles[h.id].Inflight--
	}
	fs.evmu.Unlock()
	fs.perturb(c.ID*2 + 1)
}

// FaultAt arms a fault: the nth call from now (of method, if given) fails
// with err, or panics if err is nil.
func (fs *FS) FaultAt(nth int, method string, err error) *Fault {
	f := &Fault{Nth: int64(nth), Method: method, Err: err, Panic: err == nil}
	fs.evmu.Lock()
	fs.faults = append(fs.faults, f)
	fs.evmu.Unlock()
	return f
}

// Hit reports whether the fault fired.
func (fs *FS) Hit(f *Fault) bool {
	fs.evmu.Lock()
	defer fs.evmu.Unlock()
	return f.hit
}

// PauseFaults stops (or resumes) fault counting, e.g. around probes.
func (fs *FS) PauseFaults(p bool) {
	fs.evmu.Lock()
	fs.faultsPaused = p
	fs.evmu.Unlock()
}

// ClearFaults disarms all faults.
func (fs *FS) ClearFaults() {
	fs.evmu.Lock()
	fs.faults = nil
	fs.evmu.Unlock()
}

// Hold arms a gate for up to max matching calls (0 = all).
func (fs *FS) Hold(m Match, max int) *Gate {
	g := &Gate{fs: fs, m: m, max: max, release: make(chan struct{}), parkedC: make(chan struct{}, 1)}
	fs.evmu.Lock()
	fs.gates = append(fs.gates, g)
	fs.evmu.Unlock()
	return g
}

// Parked returns the calls currently caught by the gate.
func (g *Gate) Parked() []*Call {
	g.fs.evmu.Lock()
	defer g.fs.evmu.Unlock()
	return append([]*Call(nil), g.parked...)
}

// WaitParked waits until n calls are parked at the gate, or the process went
// quiet without that happening.
func (g *Gate) WaitParked(n int) (quiesce.Outcome, []quiesce.G) {
	return quiesce.WaitUntil(func() bool {
		g.fs.evmu.Lock()
		defer g.fs.evmu.Unlock()
		return len(g.parked) >= n
	}, 60*time.Second)
}

// Release lets every parked call (and all later ones) through.
func (g *Gate) Release() {
	g.fs.evmu.Lock()
	if !g.open {
		g.open = true
		close(g.release)
	}
	g.fs.evmu.Unlock()
}

// markStale flags every handle whose remembered path is at or below path: the
// entry it named is gone (unlinked or overwritten), so calls through it no
// longer concern whatever is or will be at that path. fs.mu is held.
func (fs *FS) markStale(path []string) {
	fs.evmu.Lock()
	hs := make([]*H, 0, len(fs.live))
	for _, h := range fs.live {
		hs = append(hs, h)
	}
	fs.evmu.Unlock()
	for _, h := range hs {
		h.pmu.Lock()
		if len(h.path) >= len(path) {
			same := true
			for i := range path {
				if h.path[i] != path[i] {
					same = false
					break
				}
			}
			if same {
				h.stale = true
			}
		}
		h.pmu.Unlock()
	}
}

// ---- read-out ----

// Calls returns the call log from index from on.
func (fs *FS) Calls(from int) []*Call {
	fs.evmu.Lock()
	defer fs.evmu.Unlock()
	if from > len(fs.calls) {
		from = len(fs.calls)
	}
	r := make([]*Call, len(fs.calls)-from)
	for i, c := range fs.calls[from:] {
		cp := *c
		r[i] = &cp
	}
	return r
}

func (fs *FS) NCalls() int {
	fs.evmu.Lock()
	defer fs.evmu.Unlock()
	return len(fs.calls)
}

// TotalCalls counts calls even when NoLog is set.
func (fs *FS) TotalCalls() int64 { return atomic.LoadInt64(&fs.nextCall) }

// Active returns the calls in progress.
func (fs *FS) Active() []*Call {
	fs.evmu.Lock()
	defer fs.evmu.Unlock()
	var r []*Call
	for _, c := range fs.active {
		cp := *c
		r = append(r, &cp)
	}
	sort.Slice(r, func(i, j int) bool { return r[i].ID < r[j].ID })
	return r
}

// Overlaps returns (and clears) forbidden overlaps seen by the monitor.
func (fs *FS) Overlaps() []Overlap {
	fs.evmu.Lock()
	defer fs.evmu.Unlock()
	o := fs.overlaps
	fs.overlaps = nil
	return o
}

// SetNoMode makes the next n successful GetAttr calls leave Mode out of the
// mask they report.
func (fs *FS) SetNoMode(n int) {
	fs.mu.Lock()
	fs.NoModeOnce = n
	fs.mu.Unlock()
}

// NameViolations returns (and clears) what the name monitor flagged.
func (fs *FS) NameViolations() []string {
	fs.evmu.Lock()
	defer fs.evmu.Unlock()
	o := fs.nameViol
	fs.nameViol = nil
	return o
}

// Handles returns a copy of the lifecycle records.
func (fs *FS) Handles() []HState {
	fs.evmu.Lock()
	defer fs.evmu.Unlock()
	var r []HState
	for _, h := range fs.handles {
		r = append(r, *h)
	}
	sort.Slice(r, func(i, j int) bool { return r[i].ID < r[j].ID })
	return r
}

// Concurrency returns the maximal and mean number of simultaneous calls.
func (fs *FS) Concurrency() (max int, mean float64) {
	fs.evmu.Lock()
	defer fs.evmu.Unlock()
	n := atomic.LoadInt64(&fs.nextCall)
	if n == 0 {
		return fs.maxConc, 0
	}
	return fs.maxConc, float64(fs.sumConc) / float64(n)
}

// LifecycleViolations evaluates the lifecycle monitor. final is true when
// every connection has ended (then every handle must be closed exactly once).
func (fs *FS) LifecycleViolations(final bool) []string {
	var v []string
	for _, h := range fs.Handles() {
		if h.Closes > 1 {
			v = append(v, fmt.Sprintf("closed-%d-times:created-by-%s", min(h.Closes, 3), h.CreatedBy))
		}
		if final && h.Closes == 0 {
			v = append(v, fmt.Sprintf("never-closed:created-by-%s", h.CreatedBy))
		}
		for _, m := range h.AfterClose {
			v = append(v, fmt.Sprintf("%s-after-Close:created-by-%s", m, h.CreatedBy))
		}
		for _, m := range h.CloseDuring {
			v = append(v, fmt.Sprintf("Close-during-%s:created-by-%s", m, h.CreatedBy))
		}
		if h.Opens > 1 {
			v = append(v, fmt.Sprintf("opened-%d-times", min(h.Opens, 3)))
		}
	}
	return v
}

// ---- Attacher ----

// Conn tags handles created through this attacher view with a connection id
// (purely informational).
type Conn struct {
	fs *FS
	id int
}

func (fs *FS) Attacher(conn int) p9.Attacher { return &Conn{fs, conn} }

func (fs *FS) Attach() (p9.File, error) { return (&Conn{fs, 0}).Attach() }

func (a *Conn) Attach() (p9.File, error) {
	c, ferr := a.fs.enter(nil, "Attach", enterOpts{})
	var err error
	defer func() { a.fs.exit(nil, c, err) }()
	if ferr != nil {
		err = ferr
		return nil, err
	}
	h := a.fs.newHandle(nil, "Attach", a.id)
	return h, nil
}

// H is a handle (p9.File).
type H struct {
	fs     *FS
	id     int
	conn   int
	pmu    sync.Mutex
	path   []string
	stale  bool  // the entry this handle's path named was unlinked or overwritten (the fid is fenced)
	node   *Node // pinned at Open/Create
	opened bool
	flags  p9.OpenFlags
}

func (h *H) ID() int { return h.id }

func (h *H) pathStr() string {
	h.pmu.Lock()
	defer h.pmu.Unlock()
	return "/" + strings.Join(h.path, "/")
}

func (h *H) pathCopy() []string {
	h.pmu.Lock()
	defer h.pmu.Unlock()
	return append([]string(nil), h.path...)
}

func (fs *FS) newHandle(path []string, by string, conn int) *H {
	fs.evmu.Lock()
	fs.nextH++
	h := &H{fs: fs, id: fs.nextH, conn: conn, path: path}
	if fs.live == nil {
		fs.live = map[int]*H{}
	}
	fs.live[h.id] = h
	fs.handles[h.id] = &HState{ID: h.id, CreatedBy: by, Path: "/" + strings.Join(path, "/")}
	fs.evmu.Unlock()
	return h
}

func (n *Node) qid() p9.QID {
	return p9.QID{Type: n.Mode.QIDType(), Version: 0, Path: n.ID}
}

func (n *Node) size() uint64 {
	switch {
	case n.Synth:
		return n.SynthSz
	case n.Mode.IsSymlink():
		return uint64(len(n.Target))
	case n.Mode.IsDir():
		return uint64(len(n.Children))
	}
	return uint64(len(n.Data))
}

func (n *Node) attr() p9.Attr {
	return p9.Attr{Mode: n.Mode, UID: n.UID, GID: n.GID, NLink: p9.NLink(n.Nlink), RDev: p9.Dev(n.RDev), Size: n.size(),
		BlockSize: 4096, Blocks: (n.size() + 511) / 512, MTimeSeconds: n.MTime, Gen: n.ID, DataVersion: uint64(n.Writes)}
}

// cur returns the object the handle denotes now (fs.mu held).
func (h *H) cur() (*Node, error) {
	if h.node != nil {
		return h.node, nil
	}
	return h.fs.resolve(h.pathCopy())
}

// SynthByte is the content of synthetic files.
func SynthByte(ino uint64, off uint64) byte {
	return byte(off*131 + ino*17 + (off>>8)*29 + (off>>16)*7 + (off>>32)*3)
}

func (h *H) Walk(names []string) (qids []p9.QID, f p9.File, err error) {
	c, ferr := h.fs.enter(h, "Walk", enterOpts{names: names, hasNames: true, name: first(names), args: strings.Join(names, ",")})
	defer func() { h.fs.exit(h, c, err) }()
	if ferr != nil {
		return nil, nil, ferr
	}
	return h.walk(names, "Walk")
}

func first(n []string) string {
	if len(n) > 0 {
		return n[0]
	}
	return ""
}

func (h *H) walk(names []string, by string) ([]p9.QID, p9.File, error) {
	h.fs.mu.Lock()
	defer h.fs.mu.Unlock()
	path := h.pathCopy()
	if len(names) == 0 {
		nh := h.fs.newHandle(path, by+"(clone)", h.conn)
		return nil, nh, nil
	}
	cur, err := h.fs.resolve(path)
	if err != nil {
		return nil, nil, err
	}
	var qids []p9.QID
	if !cur.Mode.IsDir() {
		h.fs.evmu.Lock()
		h.fs.nameViol = append(h.fs.nameViol, fmt.Sprintf("%s:receiver-not-a-directory:type-%o", by, uint32(cur.Mode.FileType())>>12))
		h.fs.evmu.Unlock()
	}
	for _, n := range names {
		if !cur.Mode.IsDir() {
			return nil, nil, linux.ENOTDIR
		}
		ch, ok := cur.Children[n]
		if !ok {
			return nil, nil, linux.ENOENT
		}
		qids = append(qids, ch.qid())
		path = append(path, n)
		cur = ch
	}
	nh := h.fs.newHandle(path, by, h.conn)
	return qids, nh, nil
}

func (h *H) WalkGetAttr(names []string) (qids []p9.QID, f p9.File, m p9.AttrMask, a p9.Attr, err error) {
	if h.fs.NoWalkGetAttr || (h.fs.AltWalkGetAttr && atomic.AddUint32(&h.fs.altFlip, 1)%2 == 0) {
		return nil, nil, p9.AttrMask{}, p9.Attr{}, linux.ENOSYS
	}
	c, ferr := h.fs.enter(h, "WalkGetAttr", enterOpts{names: names, hasNames: true, name: first(names), args: strings.Join(names, ",")})
	defer func() { h.fs.exit(h, c, err) }()
	if ferr != nil {
		return nil, nil, p9.AttrMask{}, p9.Attr{}, ferr
	}
	qids, f, err = h.walk(names, "WalkGetAttr")
	if err != nil {
		return nil, nil, p9.AttrMask{}, p9.Attr{}, err
	}
	h.fs.mu.Lock()
	n, rerr := f.(*H).cur()
	var at p9.Attr
	if rerr == nil {
		at = n.attr()
	}
	h.fs.mu.Unlock()
	if rerr != nil {
		// cannot happen: walk just resolved it under the same lock... but the
		// lock was dropped; treat as a backend error and close the handle.
		f.Close()
		err = rerr
		return nil, nil, p9.AttrMask{}, p9.Attr{}, err
	}
	return qids, f, p9.AttrMaskAll, at, nil
}

func (h *H) StatFS() (st p9.FSStat, err error) {
	c, ferr := h.fs.enter(h, "StatFS", enterOpts{})
	defer func() { h.fs.exit(h, c, err) }()
	if ferr != nil {
		return p9.FSStat{}, ferr
	}
	return p9.FSStat{Type: 0x01021997, BlockSize: 4096, Blocks: 1000, BlocksFree: 500, BlocksAvailable: 400, Files: 100, FilesFree: 50, FSID: 0xABCD, NameLength: 255}, nil
}

func (h *H) GetAttr(req p9.AttrMask) (q p9.QID, m p9.AttrMask, a p9.Attr, err error) {
	c, ferr := h.fs.enter(h, "GetAttr", enterOpts{})
	defer func() { h.fs.exit(h, c, err) }()
	if ferr != nil {
		return p9.QID{}, p9.AttrMask{}, p9.Attr{}, ferr
	}
	h.fs.mu.Lock()
	defer h.fs.mu.Unlock()
	n, err := h.cur()
	if err != nil {
		return p9.QID{}, p9.AttrMask{}, p9.Attr{}, err
	}
	if h.fs.NoModeOnce > 0 {
		// a backend may report fewer fields than it was asked for: here,
		// once or a few times, everything but the mode
		h.fs.NoModeOnce--
		req.Mode = false
	}
	return n.qid(), req, n.attr(), nil
}

func (h *H) SetAttr(valid p9.SetAttrMask, attr p9.SetAttr) (err error) {
	c, ferr := h.fs.enter(h, "SetAttr", enterOpts{args: fmt.Sprintf("%+v", valid)})
	defer func() { h.fs.exit(h, c, err) }()
	if ferr != nil {
		return ferr
	}
	h.fs.mu.Lock()
	defer h.fs.mu.Unlock()
	n, err := h.cur()
	if err != nil {
		return err
	}
	if valid.Permissions {
		n.Mode = n.Mode.FileType() | (attr.Permissions & 07777)
	}
	if valid.UID {
		n.UID = attr.UID
	}
	if valid.GID {
		n.GID = attr.GID
	}
	if valid.Size && n.Mode.IsRegular() {
		if n.Synth {
			n.SynthSz = attr.Size
		} else if attr.Size < uint64(len(n.Data)) {
			n.Data = n.Data[:attr.Size]
		} else if attr.Size < 1<<24 {
			n.Data = append(n.Data, make([]byte, attr.Size-uint64(len(n.Data)))...)
		}
	}
	if valid.MTime {
		n.MTime = attr.MTimeSeconds
	}
	return nil
}

func (h *H) Close() (err error) {
	c, ferr := h.fs.enter(h, "Close", enterOpts{})
	defer func() { h.fs.exit(h, c, err) }()
	h.fs.evmu.Lock()
	delete(h.fs.live, h.id)
	h.fs.evmu.Unlock()
	if ferr != nil {
		return ferr
	}
	return h.fs.CloseErr
}

func (h *H) Open(flags p9.OpenFlags) (q p9.QID, iounit uint32, err error) {
	c, ferr := h.fs.enter(h, "Open", enterOpts{args: fmt.Sprint(uint32(flags))})
	defer func() { h.fs.exit(h, c, err) }()
	if ferr != nil {
		return p9.QID{}, 0, ferr
	}
	h.fs.mu.Lock()
	defer h.fs.mu.Unlock()
	n, err := h.cur()
	if err != nil {
		return p9.QID{}, 0, err
	}
	// as open(2) does (localfs hands the flags to it unchanged)
	if flags&0x10000 != 0 && !n.Mode.IsDir() { // O_DIRECTORY
		return p9.QID{}, 0, linux.ENOTDIR
	}
	if flags&0x20000 != 0 && n.Mode.IsSymlink() { // O_NOFOLLOW
		return p9.QID{}, 0, linux.ELOOP
	}
	h.node = n
	h.opened = true
	h.flags = flags
	h.fs.evmu.Lock()
	h.fs.handles[h.id].Opens++ // successful opens only: a failed Open may be retried
	h.fs.evmu.Unlock()
	return n.qid(), 0, nil
}

func (h *H) ReadAt(p []byte, offset int64) (cnt int, err error) {
	c, ferr := h.fs.enter(h, "ReadAt", enterOpts{args: fmt.Sprintf("%d@%d", len(p), offset)})
	defer func() { h.fs.exit(h, c, err) }()
	if ferr != nil {
		return 0, ferr
	}
	h.fs.mu.Lock()
	defer h.fs.mu.Unlock()
	n := h.node
	if n == nil {
		return 0, linux.EBADF
	}
	if n.Mode.IsDir() {
		return 0, linux.EISDIR
	}
	if offset < 0 {
		return 0, linux.EINVAL // as pread(2); the server passes uint64 offsets through as int64
	}
	size := n.size()
	if h.fs.IOHook != nil {
		lim, herr := h.fs.IOHook("ReadAt", offset, len(p))
		if herr != nil {
			return 0, herr
		}
		if lim >= 0 && lim < len(p) {
			p = p[:lim]
			if uint64(offset) < size && uint64(lim) <= size-uint64(offset) {
				// a short read that is not at end of file
				size = uint64(offset) + uint64(lim)
				defer func() {
					if err == io.EOF && cnt > 0 {
						err = nil
					}
				}()
			}
		}
	}
	if uint64(offset) >= size {
		return 0, io.EOF
	}
	cnt = len(p)
	if uint64(cnt) > size-uint64(offset) {
		cnt = int(size - uint64(offset))
	}
	if n.Synth {
		for i := 0; i < cnt; i++ {
			p[i] = SynthByte(n.ID, uint64(offset)+uint64(i))
		}
	} else {
		copy(p, n.Data[offset:])
	}
	if cnt < len(p) {
		return cnt, io.EOF
	}
	return cnt, nil
}

func (h *H) WriteAt(p []byte, offset int64) (cnt int, err error) {
	c, ferr := h.fs.enter(h, "WriteAt", enterOpts{args: fmt.Sprintf("%d@%d", len(p), offset)})
	defer func() { h.fs.exit(h, c, err) }()
	if ferr != nil {
		return 0, ferr
	}
	h.fs.mu.Lock()
	defer h.fs.mu.Unlock()
	n := h.node
	if n == nil {
		return 0, linux.EBADF
	}
	if n.Mode.IsDir() {
		return 0, linux.EISDIR
	}
	if offset < 0 || offset > 1<<62 {
		return 0, linux.EINVAL // as pwrite(2) beyond what a file can hold
	}
	if h.fs.IOHook != nil {
		lim, herr := h.fs.IOHook("WriteAt", offset, len(p))
		if herr != nil {
			return 0, herr
		}
		if lim >= 0 && lim < len(p) {
			p = p[:lim]
		}
	}
	n.Writes++
	if n.Synth {
		if end := uint64(offset) + uint64(len(p)); end > n.SynthSz {
			n.SynthSz = end
		}
		return len(p), nil
	}
	end := int(offset) + len(p)
	if end > 1<<24 {
		return 0, linux.EFBIG
	}
	if end > len(n.Data) {
		n.Data = append(n.Data, make([]byte, end-len(n.Data))...)
	}
	copy(n.Data[offset:], p)
	return len(p), nil
}

func (h *H) SetXattr(attr string, data []byte, flags p9.XattrFlags) (err error) {
	c, ferr := h.fs.enter(h, "SetXattr", enterOpts{args: fmt.Sprintf("%q %d flags=%d", attr, len(data), flags)})
	defer func() { h.fs.exit(h, c, err) }()
	if ferr != nil {
		return ferr
	}
	h.fs.mu.Lock()
	defer h.fs.mu.Unlock()
	n, err := h.cur()
	if err != nil {
		return err
	}
	_, exists := n.Xattr[attr]
	if flags == p9.XattrCreate && exists {
		return linux.EEXIST
	}
	if flags == p9.XattrReplace && !exists {
		return linux.ENODATA
	}
	if n.Xattr == nil {
		n.Xattr = map[string][]byte{}
	}
	n.Xattr[attr] = append([]byte(nil), data...)
	return nil
}

func (h *H) GetXattr(attr string) (b []byte, err error) {
	c, ferr := h.fs.enter(h, "GetXattr", enterOpts{args: fmt.Sprintf("%q", attr)})
	defer func() { h.fs.exit(h, c, err) }()
	if ferr != nil {
		return nil, ferr
	}
	h.fs.mu.Lock()
	defer h.fs.mu.Unlock()
	n, err := h.cur()
	if err != nil {
		return nil, err
	}
	v, ok := n.Xattr[attr]
	if !ok {
		return nil, linux.ENODATA
	}
	return append([]byte(nil), v...), nil
}

func (h *H) ListXattrs() (l []string, err error) {
	c, ferr := h.fs.enter(h, "ListXattrs", enterOpts{})
	defer func() { h.fs.exit(h, c, err) }()
	if ferr != nil {
		return nil, ferr
	}
	h.fs.mu.Lock()
	defer h.fs.mu.Unlock()
	n, err := h.cur()
	if err != nil {
		return nil, err
	}
	for k := range n.Xattr {
		l = append(l, k)
	}
	sort.Strings(l)
	return l, nil
}

func (h *H) RemoveXattr(attr string) (err error) {
	c, ferr := h.fs.enter(h, "RemoveXattr", enterOpts{args: fmt.Sprintf("%q", attr)})
	defer func() { h.fs.exit(h, c, err) }()
	if ferr != nil {
		return ferr
	}
	h.fs.mu.Lock()
	defer h.fs.mu.Unlock()
	n, err := h.cur()
	if err != nil {
		return err
	}
	if _, ok := n.Xattr[attr]; !ok {
		return linux.ENODATA
	}
	delete(n.Xattr, attr)
	return nil
}

func (h *H) FSync() (err error) {
	c, ferr := h.fs.enter(h, "FSync", enterOpts{})
	defer func() { h.fs.exit(h, c, err) }()
	return ferr
}

func (h *H) Lock(pid int, locktype p9.LockType, flags p9.LockFlags, start, length uint64, client string) (st p9.LockStatus, err error) {
	c, ferr := h.fs.enter(h, "Lock", enterOpts{args: fmt.Sprintf("%d %d %d %d %d %q", pid, locktype, flags, start, length, client)})
	defer func() { h.fs.exit(h, c, err) }()
	if ferr != nil {
		return p9.LockStatusError, ferr
	}
	return p9.LockStatusOK, nil
}

// dirFor resolves the handle as a directory (fs.mu held).
func (h *H) dirFor() (*Node, error) {
	n, err := h.cur()
	if err != nil {
		return nil, err
	}
	if !n.Mode.IsDir() {
		return nil, linux.ENOTDIR
	}
	return n, nil
}

func (h *H) Create(name string, flags p9.OpenFlags, perm p9.FileMode, uid p9.UID, gid p9.GID) (f p9.File, q p9.QID, iounit uint32, err error) {
	c, ferr := h.fs.enter(h, "Create", enterOpts{name: name, args: fmt.Sprintf("%q flags=%d perm=%o uid=%d gid=%d", name, flags, perm, uid, gid)})
	defer func() { h.fs.exit(h, c, err) }()
	if ferr != nil {
		return nil, p9.QID{}, 0, ferr
	}
	h.fs.mu.Lock()
	defer h.fs.mu.Unlock()
	d, err := h.dirFor()
	if err != nil {
		return nil, p9.QID{}, 0, err
	}
	if _, ok := d.Children[name]; ok {
		return nil, p9.QID{}, 0, linux.EEXIST
	}
	n := h.fs.newNode(p9.ModeRegular | (perm & 07777))
	n.UID, n.GID = uid, gid
	d.Children[name] = n
	nh := h.fs.newHandle(append(h.pathCopy(), name), "Create", h.conn)
	nh.node = n
	nh.opened = true
	nh.flags = flags
	h.fs.evmu.Lock()
	h.fs.handles[nh.id].Opens = 0 // created open; Open() must not be called on it
	h.fs.evmu.Unlock()
	return nh, n.qid(), 0, nil
}

func (h *H) mk(method, name string, mode p9.FileMode, uid p9.UID, gid p9.GID, target string, rdev uint64, args string) (q p9.QID, err error) {
	c, ferr := h.fs.enter(h, method, enterOpts{name: name, args: args})
	defer func() { h.fs.exit(h, c, err) }()
	if ferr != nil {
		return p9.QID{}, ferr
	}
	h.fs.mu.Lock()
	defer h.fs.mu.Unlock()
	d, err := h.dirFor()
	if err != nil {
		return p9.QID{}, err
	}
	if _, ok := d.Children[name]; ok {
		return p9.QID{}, linux.EEXIST
	}
	n := h.fs.newNode(mode)
	n.UID, n.GID, n.Target, n.RDev = uid, gid, target, rdev
	d.Children[name] = n
	return n.qid(), nil
}

func (h *H) Mkdir(name string, perm p9.FileMode, uid p9.UID, gid p9.GID) (p9.QID, error) {
	return h.mk("Mkdir", name, p9.ModeDirectory|(perm&07777), uid, gid, "", 0, fmt.Sprintf("%q perm=%o uid=%d gid=%d", name, perm, uid, gid))
}

func (h *H) Symlink(oldName string, newName string, uid p9.UID, gid p9.GID) (p9.QID, error) {
	return h.mk("Symlink", newName, p9.ModeSymlink|0777, uid, gid, oldName, 0, fmt.Sprintf("%q -> %q uid=%d gid=%d", newName, oldName, uid, gid))
}

func (h *H) Mknod(name string, mode p9.FileMode, major uint32, minor uint32, uid p9.UID, gid p9.GID) (p9.QID, error) {
	m := mode
	if m.FileType() == 0 {
		m |= p9.ModeRegular
	}
	return h.mk("Mknod", name, m, uid, gid, "", uint64(major)<<32|uint64(minor), fmt.Sprintf("%q mode=%o %d:%d uid=%d gid=%d", name, mode, major, minor, uid, gid))
}

func (h *H) Link(target p9.File, newName string) (err error) {
	t, _ := target.(*H)
	o := enterOpts{name: newName, args: fmt.Sprintf("%q", newName)}
	if t != nil {
		o.path2 = t.pathStr()
	}
	c, ferr := h.fs.enter(h, "Link", o)
	defer func() { h.fs.exit(h, c, err) }()
	if ferr != nil {
		return ferr
	}
	if t == nil {
		return linux.EINVAL
	}
	h.fs.mu.Lock()
	defer h.fs.mu.Unlock()
	d, err := h.dirFor()
	if err != nil {
		return err
	}
	tn, err := t.cur()
	if err != nil {
		return err
	}
	if tn.Mode.IsDir() {
		return linux.EPERM
	}
	if _, ok := d.Children[newName]; ok {
		return linux.EEXIST
	}
	d.Children[newName] = tn
	tn.Nlink++
	return nil
}

func (h *H) Rename(newDir p9.File, newName string) (err error) {
	c, ferr := h.fs.enter(h, "Rename", enterOpts{name: newName})
	defer func() { h.fs.exit(h, c, err) }()
	if ferr != nil {
		return ferr
	}
	return linux.ENOSYS
}

func isAncestor(a, n *Node) bool {
	if a == n {
		return true
	}
	for _, ch := range a.Children {
		if ch.Mode.IsDir() && isAncestor(ch, n) {
			return true
		}
	}
	return false
}

func (h *H) RenameAt(oldName string, newDir p9.File, newName string) (err error) {
	t, _ := newDir.(*H)
	o := enterOpts{name: oldName, name2: newName, args: fmt.Sprintf("%q -> %q", oldName, newName)}
	if t != nil {
		o.path2 = t.pathStr()
		o.args = fmt.Sprintf("%q -> %s %q", oldName, o.path2, newName)
	}
	c, ferr := h.fs.enter(h, "RenameAt", o)
	defer func() { h.fs.exit(h, c, err) }()
	if ferr != nil {
		return ferr
	}
	if t == nil {
		return linux.EINVAL
	}
	h.fs.mu.Lock()
	defer h.fs.mu.Unlock()
	sd, err := h.dirFor()
	if err != nil {
		return err
	}
	dd, err := t.dirFor()
	if err != nil {
		return err
	}
	n, ok := sd.Children[oldName]
	if !ok {
		return linux.ENOENT
	}
	if n.Mode.IsDir() && isAncestor(n, dd) {
		return linux.EINVAL
	}
	if ex, ok := dd.Children[newName]; ok {
		if ex == n {
			return nil
		}
		if ex.Mode.IsDir() {
			if !n.Mode.IsDir() {
				return linux.EISDIR
			}
			if len(ex.Children) > 0 && (!h.fs.Recursive || isAncestor(ex, sd)) {
				// even a backend that replaces non-empty directories cannot
				// replace a directory by something that lives inside it
				return linux.ENOTEMPTY
			}
		} else if n.Mode.IsDir() {
			return linux.ENOTDIR
		}
		ex.Nlink--
		h.fs.markStale(append(t.pathCopy(), newName))
	}
	delete(sd.Children, oldName)
	dd.Children[newName] = n
	return nil
}

func (h *H) UnlinkAt(name string, flags uint32) (err error) {
	c, ferr := h.fs.enter(h, "UnlinkAt", enterOpts{name: name, args: fmt.Sprintf("%q flags=%d", name, flags)})
	defer func() { h.fs.exit(h, c, err) }()
	if ferr != nil {
		return ferr
	}
	h.fs.mu.Lock()
	defer h.fs.mu.Unlock()
	d, err := h.dirFor()
	if err != nil {
		return err
	}
	n, ok := d.Children[name]
	if !ok {
		return linux.ENOENT
	}
	if n.Mode.IsDir() && len(n.Children) > 0 && !h.fs.Recursive {
		return linux.ENOTEMPTY
	}
	delete(d.Children, name)
	n.Nlink--
	h.fs.markStale(append(h.pathCopy(), name))
	return nil
}

func (h *H) Readdir(offset uint64, count uint32) (ents p9.Dirents, err error) {
	c, ferr := h.fs.enter(h, "Readdir", enterOpts{args: fmt.Sprintf("off=%d count=%d", offset, count)})
	defer func() { h.fs.exit(h, c, err) }()
	if ferr != nil {
		return nil, ferr
	}
	h.fs.mu.Lock()
	defer h.fs.mu.Unlock()
	n := h.node
	if n == nil {
		return nil, linux.EBADF
	}
	if !n.Mode.IsDir() {
		return nil, linux.ENOTDIR
	}
	var names []string
	for k := range n.Children {
		names = append(names, k)
	}
	sort.Strings(names)
	for i := offset; i < uint64(len(names)) && uint64(len(ents)) < uint64(count); i++ {
		ch := n.Children[names[i]]
		ents = append(ents, p9.Dirent{QID: ch.qid(), Offset: i + 1, Type: ch.qid().Type, Name: names[i]})
	}
	return ents, nil
}

func (h *H) Readlink() (s string, err error) {
	c, ferr := h.fs.enter(h, "Readlink", enterOpts{})
	defer func() { h.fs.exit(h, c, err) }()
	if ferr != nil {
		return "", ferr
	}
	h.fs.mu.Lock()
	defer h.fs.mu.Unlock()
	n, err := h.cur()
	if err != nil {
		return "", err
	}
	if !n.Mode.IsSymlink() {
		return "", linux.EINVAL
	}
	return n.Target, nil
}

func (h *H) Renamed(newDir p9.File, newName string) {
	t, _ := newDir.(*H)
	o := enterOpts{name: newName, args: fmt.Sprintf("%q", newName)}
	if t != nil {
		o.path2 = t.pathStr()
		o.args = fmt.Sprintf("%s %q", o.path2, newName)
	}
	c, _ := h.fs.enter(h, "Renamed", o)
	defer func() { h.fs.exit(h, c, nil) }()
	if t == nil {
		return
	}
	np := append(t.pathCopy(), newName)
	h.pmu.Lock()
	h.path = np
	h.pmu.Unlock()
}

var _ p9.File = (*H)(nil)
var _ p9.Attacher = (*FS)(nil)
