package fakesrv

import (
	"hash/fnv"
	"strings"

	"verif/internal/wire"
)

type rng struct{ s uint64 }

func (r *rng) U64() uint64 {
	r.s += 0x9E3779B97F4A7C15
	z := r.s
	z = (z ^ (z >> 30)) * 0xBF58476D1CE4E5B9
	z = (z ^ (z >> 27)) * 0x94D049BB133111EB
	return z ^ (z >> 31)
}
func (r *rng) Intn(n int) int {
	if n <= 0 {
		return 0
	}
	return int(r.U64() % uint64(n))
}

// Pattern is the content of the synthetic file behind fid at offset off.
func Pattern(fid, off uint64, n int) []byte {
	b := make([]byte, n)
	for i := range b {
		o := off + uint64(i)
		b[i] = byte(o*131 + fid*17 + (o>>8)*29 + (o>>16)*7)
	}
	return b
}

// Derived returns the success reply a conforming server would plausibly send,
// with contents that are a function of the request body alone (not its tag),
// so that a caller can tell its own reply from anybody else's.
func Derived(req wire.Msg, msize uint32) (uint8, []any) {
	body, _ := wire.EncodeBody(req.Type, req.F)
	h := fnv.New64a()
	h.Write([]byte{req.Type})
	h.Write(body)
	r := &rng{h.Sum64()}
	g := &wire.Gen{R: r, Budget: 200, Small: true}
	lim := uint64(msize)
	if lim == 0 {
		lim = 1 << 20
	}
	if lim > 11 {
		lim -= 11
	} else {
		lim = 0
	}
	switch req.Type {
	case wire.Tread:
		fid, off, cnt := req.F[0].(uint64), req.F[1].(uint64), req.F[2].(uint64)
		if cnt > lim {
			cnt = lim
		}
		return wire.Rread, []any{Pattern(fid, off, int(cnt))}
	case wire.Twrite:
		return wire.Rwrite, []any{uint64(len(req.F[2].([]byte)))}
	case wire.Treaddir:
		off, cnt := req.F[1].(uint64), req.F[2].(uint64)
		if cnt > lim {
			cnt = lim
		}
		var ents []wire.Dirent
		used := 0
		for k := off; k < 20 && len(ents) < 5; k++ {
			name := "e" + string(rune('a'+k%26)) + string(rune('a'+(k/26)%26))
			if used+wire.DirentSize(name) > int(cnt) {
				break
			}
			used += wire.DirentSize(name)
			ents = append(ents, wire.Dirent{QID: wire.QID{Type: uint8(k), Version: uint32(k * 3), Path: req.F[0].(uint64)<<20 | k}, Offset: k + 1, Type: uint8(k), Name: name})
		}
		return wire.Rreaddir, []any{wire.EncodeDirents(ents)}
	case wire.Twalk:
		n := len(req.F[2].([]string))
		qs := make([]wire.QID, n)
		for i := range qs {
			qs[i] = g.QID()
		}
		return wire.Rwalk, []any{qs}
	case wire.Twalkgetattr:
		n := len(req.F[2].([]string))
		vals := []any{uint64(0x3fff)}
		for i := 0; i < 18; i++ {
			bits := 64
			if i < 3 {
				bits = 32
			}
			vals = append(vals, g.Int(bits))
		}
		qs := make([]wire.QID, n)
		for i := range qs {
			qs[i] = g.QID()
		}
		return wire.Rwalkgetattr, append(vals, qs)
	case wire.Tgetattr:
		if req.F[1].(uint64) == ErrMask {
			// by convention: answer with an error that is a function of the fid
			return wire.Rlerror, []any{ErrnoFor(req.F[0].(uint64))}
		}
		vals := g.Vals(wire.Rgetattr)
		vals[0] = req.F[1].(uint64) & 0x3fff // valid = requested
		return wire.Rgetattr, vals
	case wire.Txattrwalk:
		if name, _ := req.F[2].(string); strings.HasPrefix(name, "user.big") || name == "" {
			// a value (or, for the empty name, a name list) far longer than one
			// reply can carry: the client has to fetch it in pieces
			sz := 3*uint64(msize) + 7
			if sz > 1<<21 {
				sz = 1 << 21
			}
			return wire.Rxattrwalk, []any{sz}
		}
		return wire.Rxattrwalk, []any{uint64(r.Intn(64))}
	}
	return req.Type + 1, g.Vals(req.Type + 1)
}

// ErrMask is the Tgetattr request mask (BTime|Gen) that Derived answers with
// Rlerror(ErrnoFor(fid)) instead of attributes.
const ErrMask = 0x1800

// ErrnoFor is the errno Derived sends for a Tgetattr with ErrMask on fid.
func ErrnoFor(fid uint64) uint64 { return 1 + fid%120 }

// Auto answers every decodable request with Derived (Tversion conformingly).
func Auto(capMsize, maxv uint32) func(s *Server, r *Req) {
	return VersionHandler(capMsize, maxv, func(s *Server, r *Req) {
		if r.Err != nil || wire.LayoutOf(r.Msg.Type+1) == nil {
			s.Reply(wire.Rlerror, r.Msg.Tag, uint64(5))
			return
		}
		s.mu.Lock()
		ms := s.Msize
		s.mu.Unlock()
		t, vals := Derived(r.Msg, ms)
		s.Reply(t, r.Msg.Tag, vals...)
	})
}
