// Package fakesrv is a 9P server made of bytes: it speaks the reference codec
// to a real p9.Client, records every frame the client sends, and sends
// whatever the scenario tells it to, in whatever order.
package fakesrv

import (
	"encoding/binary"
	"fmt"
	"io"
	"net"
	"sync"
	"sync/atomic"
	"syscall"
	"time"

	"verif/internal/quiesce"
	"verif/internal/wire"
)

// Req is one frame received from the client.
type Req struct {
	Raw      []byte
	Msg      wire.Msg
	Err      error
	Trailing int
	Idx      int
}

var Watchdog = 25 * time.Second

// Server is the scripted peer of one p9.Client.
type Server struct {
	S net.Conn // our end
	C net.Conn // the end handed to p9.NewClient

	mu      sync.Mutex
	reqs    []*Req
	notify  chan struct{}
	readErr error
	mon     []string

	// request-stream monitor state
	tagsOut    map[uint16]uint8  // outstanding tags -> T type
	fids       map[uint64]string // fids the server has bound -> how
	pendBind   map[uint16]uint64 // tag -> newfid of an outstanding binding request
	pendUnbind map[uint16]uint64 // tag -> fid of outstanding Tclunk/Tremove
	Msize      uint32            // announced msize (set by scenario when it sends Rversion)
	Version    uint32

	// Handler, if set, is called in the reader goroutine for each request.
	Handler func(s *Server, r *Req)

	wq         chan []byte
	wpending   int64
	written    int64
	werr       error
	wdone      chan struct{}
	ReaderDone chan struct{}
	FailWrites int32 // when set, the client's writes fail (half-broken connection)
	quit       chan struct{}
	quitOnce   sync.Once
	// Pace, if set, runs in the writer goroutine after each written buffer.
	Pace func()
}

// halfConn lets the scenario make the client's writes fail while reads go on.
type halfConn struct {
	net.Conn
	s *Server
}

func (h halfConn) Write(b []byte) (int, error) {
	if atomic.LoadInt32(&h.s.FailWrites) != 0 {
		return 0, io.ErrClosedPipe
	}
	return h.Conn.Write(b)
}

// New creates the pair of connections and starts reader and writer.
func New(handler func(s *Server, r *Req)) *Server {
	c, sv := net.Pipe()
	return NewOn(c, sv, handler)
}

// NewOn is New on a given pair of connected ends (c goes to the client).
func NewOn(c, sv net.Conn, handler func(s *Server, r *Req)) *Server {
	s := &Server{S: sv, notify: make(chan struct{}, 1), tagsOut: map[uint16]uint8{},
		fids: map[uint64]string{}, pendBind: map[uint16]uint64{}, pendUnbind: map[uint16]uint64{},
		Handler: handler, wq: make(chan []byte, 1<<16), wdone: make(chan struct{}), ReaderDone: make(chan struct{}), quit: make(chan struct{})}
	if _, ok := c.(syscall.Conn); ok {
		s.C = c // keep the vectorised socket path reachable
	} else {
		s.C = halfConn{c, s}
	}
	go s.reader()
	go s.writer()
	return s
}

func (s *Server) kick() {
	select {
	case s.notify <- struct{}{}:
	default:
	}
}

func (s *Server) writer() {
	defer close(s.wdone)
	for {
		var b []byte
		select {
		case b = <-s.wq:
		case <-s.quit:
			return
		}
		if b == nil {
			s.S.Close()
		} else if s.werr == nil {
			n, err := s.S.Write(b)
			atomic.AddInt64(&s.written, int64(n))
			if err != nil {
				s.mu.Lock()
				s.werr = err
				s.mu.Unlock()
			} else if s.Pace != nil {
				s.Pace()
			}
		}
		atomic.AddInt64(&s.wpending, -1)
		s.kick()
	}
}

func isBind(t uint8) bool {
	return t == wire.Tattach || t == wire.Twalk || t == wire.Twalkgetattr || t == wire.Txattrwalk
}

func newfidOf(m wire.Msg) (uint64, bool) {
	switch m.Type {
	case wire.Tattach:
		return m.F[0].(uint64), true
	case wire.Twalk, wire.Twalkgetattr, wire.Txattrwalk:
		return m.F[1].(uint64), true
	}
	return 0, false
}

func (s *Server) reader() {
	defer close(s.ReaderDone)
	defer s.kick()
	for {
		var h [4]byte
		if _, err := io.ReadFull(s.S, h[:]); err != nil {
			s.mu.Lock()
			s.readErr = err
			s.mu.Unlock()
			return
		}
		size := binary.LittleEndian.Uint32(h[:])
		if size < 7 || size > 64<<20 {
			s.mu.Lock()
			s.mon = append(s.mon, fmt.Sprintf("request-stream:bad-size-field size=%d", size))
			s.readErr = fmt.Errorf("bad size %d", size)
			s.mu.Unlock()
			return
		}
		raw := make([]byte, size)
		copy(raw, h[:])
		if _, err := io.ReadFull(s.S, raw[4:]); err != nil {
			s.mu.Lock()
			s.readErr = err
			s.mu.Unlock()
			return
		}
		m, trailing, err := wire.Decode(raw)
		s.mu.Lock()
		r := &Req{Raw: raw, Msg: m, Err: err, Trailing: trailing, Idx: len(s.reqs)}
		s.reqs = append(s.reqs, r)
		// request-stream monitor
		switch {
		case err != nil:
			s.mon = append(s.mon, fmt.Sprintf("request-stream:undecodable type=%s err=%v", wire.TypeName(m.Type), err))
		case trailing != 0:
			s.mon = append(s.mon, fmt.Sprintf("request-stream:trailing-bytes type=%s", wire.TypeName(m.Type)))
		case !wire.IsT(m.Type):
			s.mon = append(s.mon, fmt.Sprintf("request-stream:not-a-request type=%s", wire.TypeName(m.Type)))
		}
		if s.Msize != 0 && size > s.Msize {
			s.mon = append(s.mon, fmt.Sprintf("msize-exceeded:%s size=%d msize=%d", wire.TypeName(m.Type), size, s.Msize))
		}
		if m.Tag == wire.NOTAG {
			s.mon = append(s.mon, fmt.Sprintf("tag:NOTAG-used type=%s", wire.TypeName(m.Type)))
		}
		if prev, dup := s.tagsOut[m.Tag]; dup {
			s.mon = append(s.mon, fmt.Sprintf("tag:reused-while-outstanding type=%s prev=%s", wire.TypeName(m.Type), wire.TypeName(prev)))
		}
		s.tagsOut[m.Tag] = m.Type
		if err == nil {
			if wire.MinVersion(m.Type) > s.Version && m.Type != wire.Tversion && s.Msize != 0 {
				s.mon = append(s.mon, fmt.Sprintf("version:type-not-defined type=%s version=%d", wire.TypeName(m.Type), s.Version))
			}
			if nf, ok := newfidOf(m); ok {
				if nf == wire.NOFID {
					s.mon = append(s.mon, fmt.Sprintf("fid:NOFID-used-as-new-fid type=%s", wire.TypeName(m.Type)))
				}
				if how, bound := s.fids[nf]; bound {
					s.mon = append(s.mon, fmt.Sprintf("fid:rebound-while-server-has-it-bound type=%s bound-by=%s", wire.TypeName(m.Type), how))
				}
				for _, pf := range s.pendBind {
					if pf == nf {
						s.mon = append(s.mon, fmt.Sprintf("fid:two-outstanding-binds-of-one-fid type=%s", wire.TypeName(m.Type)))
					}
				}
				s.pendBind[m.Tag] = nf
			}
			if m.Type == wire.Tclunk || m.Type == wire.Tremove {
				s.pendUnbind[m.Tag] = m.F[0].(uint64)
			}
			// read-class requests whose maximal legal reply would not fit
			if s.Msize != 0 && (m.Type == wire.Tread || m.Type == wire.Treaddir) {
				cnt := m.F[2].(uint64)
				if cnt+11 > uint64(s.Msize) {
					s.mon = append(s.mon, fmt.Sprintf("msize-exceeded:requested-reply %s count=%d msize=%d", wire.TypeName(m.Type), cnt, s.Msize))
				}
			}
		}
		h2 := s.Handler
		s.mu.Unlock()
		s.kick()
		if h2 != nil {
			h2(s, r)
		}
	}
}

// Monitor returns (and clears) what the request-stream monitor flagged.
func (s *Server) Monitor() []string {
	s.mu.Lock()
	defer s.mu.Unlock()
	m := s.mon
	s.mon = nil
	return m
}

// SetNegotiated tells the monitor what Rversion announced.
func (s *Server) SetNegotiated(msize, version uint32) {
	s.mu.Lock()
	s.Msize, s.Version = msize, version
	s.mu.Unlock()
}

// Account updates tag/fid state for a reply frame about to be sent.
func (s *Server) Account(frame []byte) {
	if len(frame) < 7 {
		return
	}
	_, t, tag := wire.Header(frame)
	s.mu.Lock()
	defer s.mu.Unlock()
	reqT, ok := s.tagsOut[tag]
	if !ok {
		return
	}
	delete(s.tagsOut, tag)
	if nf, ok := s.pendBind[tag]; ok {
		delete(s.pendBind, tag)
		if t == reqT+1 {
			s.fids[nf] = wire.TypeName(reqT)
		}
	}
	if f, ok := s.pendUnbind[tag]; ok {
		delete(s.pendUnbind, tag)
		if t == reqT+1 {
			delete(s.fids, f)
		}
		// An Rlerror to Tclunk/Tremove is no confirmation: the monitor keeps
		// the fid as bound (a conforming server has dropped it all the same;
		// the client tosses the number away and never reuses it, which is
		// safe under either reading).
	}
}

// SendRaw queues arbitrary bytes to the client (no accounting).
func (s *Server) SendRaw(b []byte) {
	atomic.AddInt64(&s.wpending, 1)
	select {
	case s.wq <- b:
	case <-s.quit:
		atomic.AddInt64(&s.wpending, -1)
	}
}

// ReplyFrame accounts and queues a reply frame.
func (s *Server) ReplyFrame(frame []byte) {
	s.Account(frame)
	s.SendRaw(frame)
}

// Reply encodes and queues a reply.
func (s *Server) Reply(t uint8, tag uint16, vals ...any) {
	s.ReplyFrame(wire.Encode(t, tag, vals...))
}

// CloseAfterWrites closes our end once everything queued has been written.
func (s *Server) CloseAfterWrites() {
	atomic.AddInt64(&s.wpending, 1)
	select {
	case s.wq <- nil:
	case <-s.quit:
		atomic.AddInt64(&s.wpending, -1)
	}
}

// Close closes our end immediately.
func (s *Server) Close() { s.S.Close() }

func (s *Server) await(cond func() bool) (quiesce.Outcome, []quiesce.G) {
	deadline := time.Now().Add(Watchdog)
	wait := 500 * time.Microsecond
	span := quiesce.StartSpan()
	for {
		s.mu.Lock()
		ok := cond()
		s.mu.Unlock()
		if ok {
			return quiesce.CondMet, nil
		}
		t := time.NewTimer(wait)
		select {
		case <-s.notify:
			t.Stop()
			continue
		case <-t.C:
		}
		q, gs := quiesce.QuietUnless(func() bool {
			s.mu.Lock()
			defer s.mu.Unlock()
			return cond()
		})
		if q {
			s.mu.Lock()
			ok := cond()
			s.mu.Unlock()
			if ok {
				return quiesce.CondMet, nil
			}
			return quiesce.Stuck, gs
		}
		span.Observe(gs)
		if time.Now().After(deadline) {
			if o, over := span.AtDeadline(&deadline, Watchdog); over {
				return o, quiesce.Snapshot()
			}
		}
		if wait < 20*time.Millisecond {
			wait *= 2
		}
	}
}

// WaitReqs waits until n requests have been received in total.
func (s *Server) WaitReqs(n int) (quiesce.Outcome, []quiesce.G) {
	return s.await(func() bool { return len(s.reqs) >= n || s.readErr != nil })
}

// Flush waits until everything queued has been written.
func (s *Server) Flush() (quiesce.Outcome, []quiesce.G) {
	return s.await(func() bool { return atomic.LoadInt64(&s.wpending) == 0 })
}

// Reqs returns the requests received so far.
func (s *Server) Reqs() []*Req {
	s.mu.Lock()
	defer s.mu.Unlock()
	return append([]*Req(nil), s.reqs...)
}

func (s *Server) NReqs() int {
	s.mu.Lock()
	defer s.mu.Unlock()
	return len(s.reqs)
}

// BoundFids returns the fids the server currently has bound.
func (s *Server) BoundFids() int {
	s.mu.Lock()
	defer s.mu.Unlock()
	return len(s.fids)
}

// Shutdown releases goroutines.
// Written returns the number of bytes the client end has accepted so far
// (net.Pipe: a write completes only when the reader has taken all of it).
func (s *Server) Written() int64 { return atomic.LoadInt64(&s.written) }

func (s *Server) Shutdown() {
	s.S.Close()
	s.quitOnce.Do(func() { close(s.quit) })
}

// VersionHandler answers Tversion like a conforming server (echoing msize
// capped at cap, version capped at maxv) and forwards everything else to next.
func VersionHandler(capMsize uint32, maxv uint32, next func(s *Server, r *Req)) func(s *Server, r *Req) {
	return func(s *Server, r *Req) {
		if r.Err == nil && r.Msg.Type == wire.Tversion {
			ms := uint32(r.Msg.F[0].(uint64))
			if capMsize != 0 && ms > capMsize {
				ms = capMsize
			}
			v, ok := wire.ParseVersion(r.Msg.F[1].(string))
			if !ok {
				s.Reply(wire.Rversion, r.Msg.Tag, uint64(0), "unknown")
				return
			}
			if v > maxv {
				v = maxv
			}
			s.SetNegotiated(ms, v)
			s.Reply(wire.Rversion, r.Msg.Tag, uint64(ms), wire.VersionString(v))
			return
		}
		if next != nil {
			next(s, r)
		}
	}
}
