// Package xport holds harness-owned transports: a reader that imposes chosen
// segment boundaries on a byte stream, and AF_UNIX socket pairs whose receive
// queue can be polled so that segments are consumed one by one.
package xport

import (
	"io"
	"net"
	"os"
	"runtime"
	"sync"
	"sync/atomic"
	"syscall"
	"time"
	"unsafe"
)

// CutReader delivers src's bytes so that no Read crosses one of the absolute
// stream offsets in Cuts (sorted). Optionally it ends the stream at EOFAt,
// either with a separate (0, EOF) or together with the last bytes.
type CutReader struct {
	Src io.ReadCloser

	mu      sync.Mutex
	cuts    []int64
	pos     int64
	eofAt   int64 // -1: never
	withEOF bool
	one     bool // one byte at a time
	zero    bool // every other Read returns (0, nil): "nothing happened" (io.Reader)
	flip    bool
	Reads   int64
}

// SetZeroReads makes every other Read return (0, nil) before the next one
// delivers bytes. io.Reader allows that; it says nothing about the stream.
func (c *CutReader) SetZeroReads(z bool) {
	c.mu.Lock()
	c.zero, c.flip = z, false
	c.mu.Unlock()
}

func NewCutReader(src io.ReadCloser) *CutReader { return &CutReader{Src: src, eofAt: -1} }

// Pos is the number of bytes delivered so far.
func (c *CutReader) Pos() int64 {
	c.mu.Lock()
	defer c.mu.Unlock()
	return c.pos
}

// SetCuts installs absolute cut offsets (sorted ascending).
func (c *CutReader) SetCuts(cuts []int64) {
	c.mu.Lock()
	c.cuts = append([]int64(nil), cuts...)
	c.mu.Unlock()
}

// SetOneByte makes every Read return a single byte.
func (c *CutReader) SetOneByte(b bool) {
	c.mu.Lock()
	c.one = b
	c.mu.Unlock()
}

// SetEOF ends the stream at absolute offset at; with==true returns the EOF
// together with the last bytes (as io.Reader permits).
func (c *CutReader) SetEOF(at int64, with bool) {
	c.mu.Lock()
	c.eofAt, c.withEOF = at, with
	c.mu.Unlock()
}

func (c *CutReader) Read(p []byte) (int, error) {
	c.mu.Lock()
	if c.zero && len(p) > 0 {
		c.flip = !c.flip
		if c.flip {
			c.mu.Unlock()
			return 0, nil
		}
	}
	pos := c.pos
	limit := int64(len(p))
	if c.one && limit > 1 {
		limit = 1
	}
	for _, k := range c.cuts {
		if k > pos {
			if k-pos < limit {
				limit = k - pos
			}
			break
		}
	}
	eofAt, with := c.eofAt, c.withEOF
	c.mu.Unlock()
	if eofAt >= 0 {
		if pos >= eofAt {
			return 0, io.EOF
		}
		if eofAt-pos < limit {
			limit = eofAt - pos
		}
	}
	n, err := c.Src.Read(p[:limit])
	atomic.AddInt64(&c.Reads, 1)
	c.mu.Lock()
	c.pos += int64(n)
	at := c.pos
	c.mu.Unlock()
	if err == nil && eofAt >= 0 && at >= eofAt && with {
		return n, io.EOF
	}
	return n, err
}

func (c *CutReader) Close() error { return c.Src.Close() }

// YieldWriter forwards every Write separately and yields between them, so
// that unsynchronised writers interleave their vectors.
type YieldWriter struct {
	W      io.WriteCloser
	Writes int64
}

func (y *YieldWriter) Write(p []byte) (int, error) {
	atomic.AddInt64(&y.Writes, 1)
	runtime.Gosched()
	n, err := y.W.Write(p)
	runtime.Gosched()
	return n, err
}
func (y *YieldWriter) Close() error { return y.W.Close() }

// SockPair is an AF_UNIX stream socket pair; both ends are *net.UnixConn, so
// vecnet takes the recvmsg path on them. No other descriptor refers to the
// sockets: closing an end is seen by the peer at once.
type SockPair struct {
	A, B net.Conn
}

func NewSockPair() (*SockPair, error) {
	fds, err := syscall.Socketpair(syscall.AF_UNIX, syscall.SOCK_STREAM|syscall.SOCK_CLOEXEC, 0)
	if err != nil {
		return nil, err
	}
	fa := os.NewFile(uintptr(fds[0]), "sp-a")
	fb := os.NewFile(uintptr(fds[1]), "sp-b")
	a, err := net.FileConn(fa)
	fa.Close()
	if err != nil {
		fb.Close()
		return nil, err
	}
	b, err := net.FileConn(fb)
	fb.Close()
	if err != nil {
		a.Close()
		return nil, err
	}
	return &SockPair{A: a, B: b}, nil
}

const tiocinq = 0x541B

// inq returns the number of unread bytes in the receive queue of c.
func inq(c net.Conn) int {
	sc, ok := c.(syscall.Conn)
	if !ok {
		return 0
	}
	rc, err := sc.SyscallConn()
	if err != nil {
		return 0
	}
	var n int32
	rc.Control(func(fd uintptr) {
		syscall.Syscall(syscall.SYS_IOCTL, fd, tiocinq, uintptr(unsafe.Pointer(&n)))
	})
	return int(n)
}

// DrainedB waits until end B's receive queue is empty (its reader consumed
// everything written to A so far). It reports false on timeout.
func (s *SockPair) DrainedB(d time.Duration) bool { return drained(s.B, d) }

// DrainedA is the same for end A.
func (s *SockPair) DrainedA(d time.Duration) bool { return drained(s.A, d) }

func drained(c net.Conn, d time.Duration) bool {
	deadline := time.Now().Add(d)
	for i := 0; ; i++ {
		if inq(c) == 0 {
			return true
		}
		if i < 100 {
			runtime.Gosched()
		} else {
			time.Sleep(20 * time.Microsecond)
		}
		if i%64 == 0 && time.Now().After(deadline) {
			return false
		}
	}
}

// Close is kept for callers' symmetry; the Conns are closed by their users.
func (s *SockPair) Close() {}
