// Package quiesce decides hangs from goroutine dumps instead of the clock.
//
// The harness owns every source of progress (gates, undelivered bytes,
// unsent replies). When it has nothing left to do and two goroutine dumps
// taken a few scheduler yields apart show every other goroutine parked in the
// same blocked state, nothing can make progress any more: an unanswered
// request in that state is a deadlock or lost wake-up, not slowness.
package quiesce

import (
	"fmt"
	"os"
	"regexp"
	"runtime"
	"sort"
	"strconv"
	"strings"
	"sync/atomic"
	"syscall"
	"time"
	"unsafe"
)

// G is one goroutine of a dump.
type G struct {
	ID     int
	State  string
	Frames []string // function names, innermost first
	Raw    string
}

var hdr = regexp.MustCompile(`^goroutine (\d+) \[([^\]]*)\]:`)

// Snapshot parses runtime.Stack(all).
func Snapshot() []G {
	buf := make([]byte, 256<<10)
	for {
		n := runtime.Stack(buf, true)
		if n < len(buf) {
			buf = buf[:n]
			break
		}
		buf = make([]byte, 2*len(buf))
	}
	return Parse(string(buf))
}

// Parse parses a goroutine dump.
func Parse(s string) []G {
	var gs []G
	for _, blk := range strings.Split(s, "\n\n") {
		blk = strings.TrimSpace(blk)
		m := hdr.FindStringSubmatch(blk)
		if m == nil {
			continue
		}
		id, _ := strconv.Atoi(m[1])
		st := m[2]
		if i := strings.Index(st, ","); i >= 0 {
			st = st[:i]
		}
		g := G{ID: id, State: st, Raw: blk}
		lines := strings.Split(blk, "\n")
		for _, l := range lines[1:] {
			if strings.HasPrefix(l, "\t") || strings.HasPrefix(l, "created by") {
				continue
			}
			if i := strings.LastIndex(l, "("); i > 0 {
				l = l[:i]
			}
			g.Frames = append(g.Frames, l)
		}
		gs = append(gs, g)
	}
	return gs
}

// Has reports whether any frame contains sub.
func (g G) Has(sub string) bool {
	for _, f := range g.Frames {
		if strings.Contains(f, sub) {
			return true
		}
	}
	return false
}

// InP9 reports whether the goroutine has a frame of the library under test.
func (g G) InP9() bool { return g.Has("github.com/hugelgupf/p9/") }

// Blocked reports whether the state is a parked state that only another
// goroutine or an external event can end.
func (g G) Blocked() bool {
	switch g.State {
	case "chan receive", "chan send", "select", "select (no cases)", "semacquire",
		"sync.Mutex.Lock", "sync.RWMutex.RLock", "sync.RWMutex.Lock", "sync.Cond.Wait",
		"sync.WaitGroup.Wait", "IO wait", "chan receive (nil chan)", "chan send (nil chan)":
		return true
	}
	return false
}

func sig(gs []G, self int) (string, bool) {
	var parts []string
	for _, g := range gs {
		if g.ID == self {
			continue
		}
		if !g.Blocked() {
			return "", false
		}
		top := ""
		if len(g.Frames) > 0 {
			top = g.Frames[0]
		}
		parts = append(parts, strconv.Itoa(g.ID)+":"+g.State+":"+top)
	}
	sort.Strings(parts)
	return strings.Join(parts, ";"), true
}

func selfID() int {
	var b [64]byte
	n := runtime.Stack(b[:], false)
	m := hdr.FindStringSubmatch(string(b[:n]))
	if m == nil {
		return -1
	}
	id, _ := strconv.Atoi(m[1])
	return id
}

// Rounds is the number of identical successive dumps Quiet demands.
var Rounds = 3

// PersistRounds is the number of further 10 ms rounds a picture with goroutines
// parked on the kernel ("IO wait") has to persist (see Quiet).
var PersistRounds = 12

// PersistEntered counts how often Quiet went into those rounds (measurement).
var PersistEntered int64

func init() {
	if v := os.Getenv("VERIF_PERSIST_ROUNDS"); v != "" {
		if n, err := strconv.Atoi(v); err == nil && n > 0 {
			PersistRounds = n
		}
	}
}

// Quiet reports whether every goroutine other than the caller is parked, in
// Rounds successive dumps with identical (id, state, top frame) sets. It
// returns the last dump.
func Quiet() (bool, []G) { return QuietUnless(nil) }

// QuietUnless is Quiet for a caller that waits for something: stop reports
// whether that something has happened. It is consulted during the long part of
// the decision only (the persistence rounds below); when it says yes the answer
// is "not quiet" at once - the caller re-examines its condition - instead of
// after a tenth of a second. It can only end the deliberation early with "not
// quiet", never make a process look quiet.
func QuietUnless(stop func() bool) (bool, []G) {
	self := selfID()
	a := Snapshot()
	sa, ok := sig(a, self)
	if !ok {
		return false, a
	}
	for r := 1; r < Rounds; r++ {
		for i := 0; i < 20; i++ {
			runtime.Gosched()
		}
		time.Sleep(400 * time.Microsecond)
		b := Snapshot()
		sb, ok := sig(b, self)
		if !ok || sa != sb {
			return false, b
		}
		a = b
	}
	// Goroutines parked in "IO wait" are parked on the kernel, not on another
	// goroutine: with real sockets (AF_UNIX pairs; net.Pipe has no such state)
	// bytes may sit in a receive queue whose reader the netpoller has not woken
	// yet - on a loaded machine for longer than the dumps are apart. While any
	// socket of this process has unread bytes the process is not quiet. (A
	// reader that will never come leaves such bytes for good: then the wait ends
	// by its watchdog as inconclusive, never as a verdict.)
	for _, g := range a {
		if g.State == "IO wait" {
			// Readiness the netpoller has not delivered yet (a writer whose
			// peer has just drained the queue, a reader whose data has just
			// arrived) leaves no trace in a dump. An idle Go process polls the
			// network at least every 10 ms (sysmon): the picture has to stay
			// the same, with no unread bytes anywhere, for a dozen such periods.
			atomic.AddInt64(&PersistEntered, 1)
			if f := os.Getenv("VERIF_PERSIST_PROFILE"); f != "" {
				// measurement aid: who pays for the persistence rounds
				pc := make([]uintptr, 12)
				n := runtime.Callers(2, pc)
				fr := runtime.CallersFrames(pc[:n])
				var names []string
				for {
					x, more := fr.Next()
					names = append(names, x.Function[strings.LastIndex(x.Function, "/")+1:])
					if !more || len(names) >= 7 {
						break
					}
				}
				if fh, err := os.OpenFile(f, os.O_APPEND|os.O_CREATE|os.O_WRONLY, 0644); err == nil {
					fmt.Fprintln(fh, strings.Join(names, " < "))
					fh.Close()
				}
			}
			for r := 0; r < PersistRounds; r++ {
				if socketsPending() {
					return false, a
				}
				for k := 0; k < 10; k++ {
					if stop != nil && stop() {
						return false, a
					}
					time.Sleep(time.Millisecond)
				}
				b := Snapshot()
				sb, ok := sig(b, self)
				if !ok || sb != sa {
					return false, b
				}
				a = b
			}
			if socketsPending() {
				return false, a
			}
			break
		}
	}
	return true, a
}

// socketsPending reports whether any socket descriptor of this process has
// unread bytes in its receive queue.
func socketsPending() bool {
	ents, err := os.ReadDir("/proc/self/fd")
	if err != nil {
		return true // cannot tell: never claim quiet
	}
	for _, e := range ents {
		fd, err := strconv.Atoi(e.Name())
		if err != nil {
			continue
		}
		l, err := os.Readlink("/proc/self/fd/" + e.Name())
		if err != nil || !strings.HasPrefix(l, "socket:") {
			continue
		}
		var n int32
		if _, _, errno := syscall.Syscall(syscall.SYS_IOCTL, uintptr(fd), 0x541B /* FIONREAD */, uintptr(unsafe.Pointer(&n))); errno == 0 && n > 0 {
			return true
		}
	}
	return false
}

// Await waits for ch to be signalled (closed or sent to). If the process goes
// quiet first, nothing can signal it any more: Stuck.
func Await(ch <-chan struct{}, watchdog time.Duration) (Outcome, []G) {
	deadline := time.Now().Add(watchdog)
	span := StartSpan()
	wait := 500 * time.Microsecond
	for {
		t := time.NewTimer(wait)
		select {
		case <-ch:
			t.Stop()
			return CondMet, nil
		case <-t.C:
		}
		got := false
		q, gs := QuietUnless(func() bool {
			select {
			case <-ch:
				got = true
			default:
			}
			return got
		})
		if got {
			return CondMet, nil
		}
		if q {
			select {
			case <-ch:
				return CondMet, nil
			default:
			}
			return Stuck, gs
		}
		span.Observe(gs)
		if time.Now().After(deadline) {
			if o, over := span.AtDeadline(&deadline, watchdog); over {
				return o, Snapshot()
			}
		}
		if wait < 20*time.Millisecond {
			wait *= 2
		}
	}
}

// Outcome of WaitUntil.
type Outcome int

const (
	CondMet  Outcome = iota // cond() became true
	Stuck                   // the process went quiet while cond() was false
	Timeout                 // watchdog: goroutines still runnable; inconclusive
	Spinning                // watchdog, and the process burnt CPU all along with library goroutines runnable: livelock
)

// cpuTime is the CPU time consumed by this process so far.
func cpuTime() time.Duration {
	var ru syscall.Rusage
	if syscall.Getrusage(syscall.RUSAGE_SELF, &ru) != nil {
		return 0
	}
	return time.Duration(ru.Utime.Nano() + ru.Stime.Nano())
}

// Span measures a waiting period so that a watchdog expiry can be classified.
type Span struct {
	t0   time.Time
	cpu0 time.Duration
	busy int // snapshots in which a library goroutine was running/runnable
	seen int
	// extended: the deadline has been moved out once (AtDeadline)
	extended bool
}

func StartSpan() *Span { return &Span{t0: time.Now(), cpu0: cpuTime()} }

// Observe records one dump taken during the wait.
func (s *Span) Observe(gs []G) {
	s.seen++
	for _, g := range gs {
		if g.InP9() && (g.State == "running" || g.State == "runnable") {
			s.busy++
			return
		}
	}
}

// AtDeadline is called when a wait's watchdog period is over. A wait that looks
// like a livelock at that moment (Classify: Spinning) is not called one yet: a
// long but legitimate request - a 4000-component walk under the race detector
// on a machine that runs three other sweeps - looks exactly the same for 25
// seconds. The deadline is moved out once, by ten more periods; only a wait
// that is still spinning, its condition still false, at the end of those is
// reported as Spinning. It returns (outcome, true) when the wait is over.
func (s *Span) AtDeadline(deadline *time.Time, watchdog time.Duration) (Outcome, bool) {
	o := s.Classify()
	if o == Spinning && !s.extended {
		s.extended = true
		*deadline = time.Now().Add(10 * watchdog)
		return CondMet, false
	}
	return o, true
}

// Classify decides what a watchdog expiry means. A starved process shows
// little CPU use; a livelock shows library goroutines runnable in (nearly)
// every dump while the process burns CPU and the awaited event never comes.
func (s *Span) Classify() Outcome {
	wall := time.Since(s.t0)
	cpu := cpuTime() - s.cpu0
	if s.seen >= 5 && s.busy*10 >= s.seen*8 && cpu*2 >= wall {
		return Spinning
	}
	return Timeout
}

// WaitUntil polls cond; if the process becomes quiet while cond is still
// false, the state can no longer change by itself: Stuck. The watchdog only
// produces Timeout (inconclusive), never a verdict.
func WaitUntil(cond func() bool, watchdog time.Duration) (Outcome, []G) {
	deadline := time.Now().Add(watchdog)
	span := StartSpan()
	spins := 0
	for {
		if cond() {
			return CondMet, nil
		}
		spins++
		if spins < 50 {
			runtime.Gosched()
			continue
		}
		if spins%8 == 0 {
			q, gs := QuietUnless(cond)
			if q {
				if cond() {
					return CondMet, nil
				}
				return Stuck, gs
			}
			span.Observe(gs)
		}
		if time.Now().After(deadline) {
			if o, over := span.AtDeadline(&deadline, watchdog); over {
				return o, Snapshot()
			}
		}
		time.Sleep(200 * time.Microsecond)
	}
}

// P9Stacks renders the goroutines that are inside the library (witness).
func P9Stacks(gs []G) string {
	var b strings.Builder
	for _, g := range gs {
		if g.InP9() {
			r := g.Raw
			if len(r) > 2500 {
				r = r[:2500] + "\n\t..."
			}
			b.WriteString(r)
			b.WriteString("\n\n")
		}
	}
	s := b.String()
	if len(s) > 20000 {
		s = s[:20000] + "\n...(truncated)"
	}
	return s
}

// Leaked returns goroutines with a p9 frame, after a bounded settle loop.
func Leaked(settle time.Duration, filter func(G) bool) []G {
	deadline := time.Now().Add(settle)
	for {
		var l []G
		for _, g := range Snapshot() {
			if g.InP9() && (filter == nil || filter(g)) {
				l = append(l, g)
			}
		}
		if len(l) == 0 || time.Now().After(deadline) {
			return l
		}
		runtime.Gosched()
		time.Sleep(500 * time.Microsecond)
	}
}
