// Package model is an executable reference model of a 9P2000.L session as the
// property statements describe it (fid binding, open state and mode checks,
// xattr sub-protocols, fencing of unlinked / overwritten paths). It is
// independent of github.com/hugelgupf/p9 and encodes nothing the statements do
// not say: where they leave the outcome open the verdict is "don't care".
//
// It is a model of the *server layer*: what the backend does with a forwarded
// call is observed (from the instrumented backend's log), not predicted.
package model

import (
	"fmt"
	"sort"
	"strings"

	"verif/internal/wire"
)

// errno numbers (Linux).
const (
	EPERM   = 1
	ENOENT  = 2
	EBADF   = 9
	EBUSY   = 16
	ENOTDIR = 20
	EISDIR  = 21
	EINVAL  = 22
	ENOSYS  = 38
	ENOBUFS = 105
)

// Fid is the model's view of one bound fid.
type Fid struct {
	Path   []string
	Typ    byte // 'd' dir, 'f' regular, 'l' symlink, 'o' other openable (fifo, device), 's' socket
	Opened bool
	Flags  uint64
	Fenced bool
	Obj    uint64 // object identity learned when the fid was bound
	X      int    // 0 none, 1 xattr-walk fid, 2 xattr-create fid
	XSize  uint64
	XBuf   uint64
	XFlags uint64
}

func (f *Fid) clone() *Fid {
	g := *f
	g.Path = append([]string(nil), f.Path...)
	return &g
}

func (f *Fid) isRoot() bool { return len(f.Path) == 0 }

// World is the model state of one server.
type World struct {
	Conns []map[uint64]*Fid
	// TypeAt reports the type and identity of the object at a path of the
	// backend tree (used when a fid is bound).
	TypeAt func(path []string) (typ byte, obj uint64, ok bool)
}

func New(nconn int, typeAt func([]string) (byte, uint64, bool)) *World {
	w := &World{TypeAt: typeAt}
	for i := 0; i < nconn; i++ {
		w.Conns = append(w.Conns, map[uint64]*Fid{})
	}
	return w
}

// Key is the canonical serialisation of the state.
func (w *World) Key() string {
	var b strings.Builder
	for ci, c := range w.Conns {
		var ids []uint64
		for id := range c {
			ids = append(ids, id)
		}
		sort.Slice(ids, func(i, j int) bool { return ids[i] < ids[j] })
		fmt.Fprintf(&b, "c%d{", ci)
		for _, id := range ids {
			f := c[id]
			fmt.Fprintf(&b, "%d:/%s:%c:o%v:%d:f%v:x%d:%d:%d;", id, strings.Join(f.Path, "/"), f.Typ, f.Opened, f.Flags&3, f.Fenced, f.X, f.XSize, f.XBuf)
		}
		b.WriteString("}")
	}
	return b.String()
}

// Verdict says what the session model allows for a request.
type Verdict struct {
	// Reject: the request must be refused with one of these errnos and must
	// not reach the backend.
	Reject []int64
	// AnyErrno: one of the applicable refusal reasons is one for which the
	// statements name no errno: any Rlerror is accepted (still no backend call).
	AnyErrno bool
	// Forward: the request reaches the backend; its reply is the success
	// type if every backend call succeeded, else Rlerror with the errno of
	// the failing call.
	Forward bool
	// Local: answered with Success without any backend call.
	Local bool
	// LocalOrForward: success, the backend may or may not be involved.
	LocalOrForward bool
	// ForwardFail: the request reaches the backend but must fail with one
	// of these errnos although no backend call fails (e.g. a walk whose
	// intermediate component turns out not to be a directory).
	ForwardFail []int64
	// DontCare: the statements leave the outcome open.
	DontCare bool
	Success  uint8
	Why      string
}

func badName(n string) bool {
	return n == "" || n == "." || n == ".." || strings.Contains(n, "/")
}

func rej(why string, e ...int64) Verdict { return Verdict{Reject: e, Why: why} }

// rejAny is a refusal for which the statements name no errno; e is what the
// code uses today (kept so that Reject is never empty).
func rejAny(why string, e ...int64) Verdict { return Verdict{Reject: e, Why: why, AnyErrno: true} }

func merge(vs []Verdict) (Verdict, bool) {
	if len(vs) == 0 {
		return Verdict{}, false
	}
	out := Verdict{}
	seen := map[int64]bool{}
	var why []string
	for _, v := range vs {
		for _, e := range v.Reject {
			if !seen[e] {
				seen[e] = true
				out.Reject = append(out.Reject, e)
			}
		}
		if v.AnyErrno {
			out.AnyErrno = true
		}
		why = append(why, v.Why)
	}
	out.Why = strings.Join(why, "+")
	return out, true
}

func u64(v any) uint64 { return v.(uint64) }

// Judge returns the verdict for request m on connection conn (state unchanged).
func (w *World) Judge(conn int, m wire.Msg) Verdict {
	fids := w.Conns[conn]
	get := func(i int) *Fid { return fids[u64(m.F[i])] }
	var rs []Verdict
	need := func(i int) *Fid {
		f := get(i)
		if f == nil {
			rs = append(rs, rej("unbound-fid", EBADF))
		}
		return f
	}
	fwd := func(succ uint8) Verdict {
		if v, ok := merge(rs); ok {
			return v
		}
		return Verdict{Forward: true, Success: succ}
	}
	dirOp := func(f *Fid) {
		if f == nil {
			return
		}
		if f.X != 0 {
			rs = append(rs, Verdict{DontCare: true})
			return
		}
		if f.Fenced {
			rs = append(rs, rej("fenced-directory", EINVAL))
		}
		if f.Typ != 'd' {
			rs = append(rs, rejAny("not-a-directory", EINVAL))
		}
		if f.Opened {
			rs = append(rs, rej("directory-fid-is-open", EINVAL))
		}
	}
	dontCare := func() bool {
		for _, v := range rs {
			if v.DontCare {
				return true
			}
		}
		return false
	}
	switch m.Type {
	case wire.Tauth:
		return rej("no-authentication", ENOSYS)
	case wire.Tflush:
		return Verdict{Local: true, Success: wire.Rflush}
	case wire.Tattach:
		if u64(m.F[1]) != wire.NOFID {
			return rej("auth-fid-attach", EINVAL)
		}
		an := strings.TrimPrefix(m.F[3].(string), "/")
		if an != "" {
			for _, c := range strings.Split(an, "/") {
				if badName(c) {
					return Verdict{DontCare: true} // judged by C09
				}
			}
			if v, stop := w.throughNonDir(nil, strings.Split(an, "/")); stop {
				return v
			}
		}
		return Verdict{Forward: true, Success: wire.Rattach}
	case wire.Twalk, wire.Twalkgetattr:
		f := need(0)
		names := m.F[2].([]string)
		for _, n := range names {
			if badName(n) {
				rs = append(rs, rej("bad-name", EINVAL))
				break
			}
		}
		if f != nil {
			if f.X != 0 {
				return Verdict{DontCare: true}
			}
			if f.Opened && u64(m.F[0]) == u64(m.F[1]) {
				rs = append(rs, rej("walk-in-place-from-open-fid", EBUSY))
			}
			if len(names) > 0 {
				if f.Typ != 'd' {
					rs = append(rs, rejAny("walk-from-non-directory", EINVAL, ENOTDIR))
				}
				if f.Fenced {
					rs = append(rs, rej("walk-from-fenced-fid", ENOENT))
				}
			}
		}
		if v, ok := merge(rs); ok {
			return v
		}
		if v, stop := w.throughNonDir(f.Path, names); stop {
			return v
		}
		return fwd(m.Type + 1)
	case wire.Tlopen:
		f := need(0)
		if f != nil {
			if f.X == 1 {
				// the fid Txattrwalk bound follows the xattr read sub-protocol:
				// it has no type that can be opened
				return rejAny("xattr-fid-cannot-be-opened", EINVAL)
			}
			if f.X != 0 {
				// a fid turned into an xattr-create fid keeps its file: whether
				// it may still be opened is not addressed
				return Verdict{DontCare: true}
			}
			if f.Fenced {
				rs = append(rs, rej("fenced", EINVAL))
			}
			if f.Opened {
				rs = append(rs, rejAny("already-open", EINVAL))
			}
			if f.Typ == 'l' || f.Typ == 's' || f.Typ == 'x' {
				rs = append(rs, rejAny("type-cannot-be-opened", EINVAL))
			}
			if f.Typ == 'd' && u64(m.F[1])&3 != 0 {
				rs = append(rs, rej("directory-opened-for-writing", EISDIR))
			}
		}
		return fwd(wire.Rlopen)
	case wire.Tlcreate, wire.Tucreate, wire.Tmkdir, wire.Tumkdir, wire.Tsymlink, wire.Tusymlink, wire.Tmknod, wire.Tumknod:
		f := need(0)
		if badName(m.F[1].(string)) {
			rs = append(rs, rej("bad-name", EINVAL))
		}
		dirOp(f)
		if dontCare() {
			return Verdict{DontCare: true}
		}
		return fwd(m.Type + 1)
	case wire.Tlink:
		f := need(0)
		t := need(1)
		if badName(m.F[2].(string)) {
			rs = append(rs, rej("bad-name", EINVAL))
		}
		dirOp(f)
		if dontCare() || (t != nil && t.X != 0) {
			return Verdict{DontCare: true}
		}
		if t != nil && t.Fenced {
			// linking is path-dependent in its target as well
			rs = append(rs, rej("fenced-link-target", EINVAL))
		}
		return fwd(wire.Rlink)
	case wire.Tunlinkat:
		f := need(0)
		if badName(m.F[1].(string)) {
			rs = append(rs, rej("bad-name", EINVAL))
		}
		dirOp(f)
		if dontCare() {
			return Verdict{DontCare: true}
		}
		return fwd(wire.Runlinkat)
	case wire.Trenameat:
		f := need(0)
		t := need(2)
		if badName(m.F[1].(string)) || badName(m.F[3].(string)) {
			rs = append(rs, rej("bad-name", EINVAL))
		}
		dirOp(f)
		if t != nil {
			if t.X != 0 {
				return Verdict{DontCare: true}
			}
			if t.Fenced {
				rs = append(rs, rej("fenced-target-directory", EINVAL))
			}
			if t.Typ != 'd' {
				rs = append(rs, rejAny("target-not-a-directory", EINVAL))
			}
		}
		if dontCare() {
			return Verdict{DontCare: true}
		}
		if v, ok := merge(rs); ok {
			return v
		}
		if t.Opened {
			return Verdict{DontCare: true} // statement: open target directory is not addressed
		}
		if samePath(f.Path, t.Path) && m.F[1].(string) == m.F[3].(string) {
			return Verdict{LocalOrForward: true, Success: wire.Rrenameat}
		}
		return Verdict{Forward: true, Success: wire.Rrenameat}
	case wire.Trename:
		f := need(0)
		t := need(1)
		if badName(m.F[2].(string)) {
			rs = append(rs, rej("bad-name", EINVAL))
		}
		if f != nil {
			if f.X != 0 {
				return Verdict{DontCare: true}
			}
			if f.isRoot() {
				rs = append(rs, rejAny("rename-of-root", EINVAL))
			}
			if f.Fenced {
				rs = append(rs, rej("fenced", EINVAL))
			}
		}
		if t != nil {
			if t.X != 0 {
				return Verdict{DontCare: true}
			}
			if t.Fenced {
				rs = append(rs, rej("fenced-target-directory", EINVAL))
			}
			if t.Typ != 'd' {
				rs = append(rs, rejAny("target-not-a-directory", EINVAL))
			}
		}
		if v, ok := merge(rs); ok {
			return v
		}
		if t.Opened {
			return Verdict{DontCare: true}
		}
		if len(f.Path) > 0 && samePath(f.Path[:len(f.Path)-1], t.Path) && f.Path[len(f.Path)-1] == m.F[2].(string) {
			return Verdict{LocalOrForward: true, Success: wire.Rrename}
		}
		return Verdict{Forward: true, Success: wire.Rrename}
	case wire.Tremove:
		f := need(0)
		if f != nil {
			if f.X != 0 {
				return Verdict{DontCare: true}
			}
			if f.isRoot() {
				rs = append(rs, rejAny("remove-of-root", EINVAL))
			}
			if f.Fenced {
				rs = append(rs, rej("fenced", EINVAL))
			}
		}
		return fwd(wire.Rremove)
	case wire.Tclunk:
		f := need(0)
		if f == nil {
			return rej("unbound-fid", EBADF)
		}
		if f.X == 2 {
			if f.XBuf != f.XSize {
				return rejAny("xattr-create-size-mismatch", EINVAL)
			}
			if f.Fenced {
				// the entry was unlinked or overwritten after Txattrcreate:
				// committing the attribute is a path-dependent operation
				// through a fenced fid (the fid is clunked all the same)
				return rejAny("xattr-create-commit-through-fenced-fid", EINVAL)
			}
			return Verdict{Forward: true, Success: wire.Rclunk}
		}
		// Close's own error may or may not be reported: accept both.
		return Verdict{LocalOrForward: true, Success: wire.Rclunk}
	case wire.Tgetattr:
		need(0)
		return fwd(wire.Rgetattr)
	case wire.Tstatfs:
		need(0)
		return fwd(wire.Rstatfs)
	case wire.Tlock:
		need(0)
		return fwd(wire.Rlock)
	case wire.Tsetattr:
		f := need(0)
		if f != nil && f.X != 0 {
			return Verdict{DontCare: true}
		}
		if f != nil && f.Fenced {
			rs = append(rs, rej("fenced", EINVAL))
		}
		return fwd(wire.Rsetattr)
	case wire.Treadlink:
		f := need(0)
		if f != nil {
			if f.X != 0 {
				return Verdict{DontCare: true}
			}
			if f.Fenced {
				rs = append(rs, rej("fenced", EINVAL))
			}
			if f.Typ != 'l' {
				rs = append(rs, rejAny("not-a-symlink", EINVAL))
			}
		}
		return fwd(wire.Rreadlink)
	case wire.Tfsync:
		f := need(0)
		if f != nil {
			if f.X != 0 {
				return Verdict{DontCare: true}
			}
			if !f.Opened {
				rs = append(rs, rej("not-open", EINVAL))
			}
		}
		return fwd(wire.Rfsync)
	case wire.Treaddir:
		f := need(0)
		if f != nil {
			if f.X != 0 {
				return Verdict{DontCare: true}
			}
			if f.Fenced && f.Opened {
				return Verdict{DontCare: true} // "I/O on already-open fids continues" vs path-dependence: open
			}
			if f.Fenced {
				rs = append(rs, rej("fenced", EINVAL))
			}
			if f.Typ != 'd' {
				rs = append(rs, rejAny("not-a-directory", EINVAL))
			}
			if !f.Opened {
				rs = append(rs, rej("not-open", EINVAL))
			}
		}
		return fwd(wire.Rreaddir)
	case wire.Tread:
		f := need(0)
		cnt := u64(m.F[2])
		if cnt > 4<<20 && f != nil {
			// refuse or shorten: the statements do not say. (An unbound fid
			// is EBADF whatever the count: that they do say.)
			return Verdict{DontCare: true}
		}
		if f != nil {
			switch f.X {
			case 1:
				if v, ok := merge(rs); ok {
					return v
				}
				off := u64(m.F[1])
				switch {
				case cnt == 0 && f.XSize == 0:
					return Verdict{Local: true, Success: wire.Rread}
				case cnt == 0:
					return rejAny("xattr-read-empty-buffer", EINVAL)
				case off > f.XSize || cnt > f.XSize-off: // (no addition: offsets go up to 2^64-1)
					// reading past the value: the code refuses; a server that
					// shortens the read instead is equally within the statement
					return Verdict{DontCare: true}
				}
				return Verdict{Local: true, Success: wire.Rread}
			case 2:
				rs = append(rs, rejAny("read-on-xattr-create-fid", EINVAL))
			default:
				if !f.Opened {
					rs = append(rs, rej("not-open", EINVAL))
				} else if f.Flags&3 == 1 {
					rs = append(rs, rej("opened-write-only", EPERM))
				}
			}
		}
		return fwd(wire.Rread)
	case wire.Twrite:
		f := need(0)
		if f != nil {
			switch f.X {
			case 2:
				off := u64(m.F[1])
				n := uint64(len(m.F[2].([]byte)))
				if off != f.XBuf {
					return rejAny("xattr-write-not-contiguous", EINVAL)
				}
				if off+n > f.XSize {
					return rejAny("xattr-write-beyond-size", EINVAL)
				}
				return Verdict{Local: true, Success: wire.Rwrite}
			case 1:
				rs = append(rs, rejAny("write-on-xattr-walk-fid", EINVAL))
			default:
				if !f.Opened {
					rs = append(rs, rej("not-open", EINVAL))
				} else if f.Flags&3 == 0 {
					rs = append(rs, rej("opened-read-only", EPERM))
				}
			}
		}
		return fwd(wire.Rwrite)
	case wire.Txattrwalk:
		f := need(0)
		if f != nil {
			if f.X != 0 {
				return Verdict{DontCare: true}
			}
			if f.Fenced {
				rs = append(rs, rej("fenced", EINVAL))
			}
		}
		return fwd(wire.Rxattrwalk)
	case wire.Txattrcreate:
		f := need(0)
		if f != nil {
			if f.X != 0 {
				return Verdict{DontCare: true}
			}
			if f.Fenced {
				rs = append(rs, rej("fenced", EINVAL))
			}
		}
		if v, ok := merge(rs); ok {
			return v
		}
		return Verdict{Local: true, Success: wire.Rxattrcreate}
	}
	return Verdict{DontCare: true}
}

// throughNonDir: a multi-component walk whose intermediate component exists
// but is not a directory must fail (the statement: "only through nodes the
// backend reported as directories").
func (w *World) throughNonDir(base, names []string) (Verdict, bool) {
	if w.TypeAt == nil {
		return Verdict{}, false
	}
	p := append([]string(nil), base...)
	for i := 0; i+1 < len(names); i++ {
		p = append(p, names[i])
		t, _, ok := w.TypeAt(p)
		if !ok {
			return Verdict{}, false // the backend reports ENOENT itself
		}
		if t != 'd' {
			return Verdict{ForwardFail: []int64{EINVAL, ENOTDIR}, AnyErrno: true, Why: "walk-through-non-directory"}, true
		}
	}
	return Verdict{}, false
}

func samePath(a, b []string) bool {
	if len(a) != len(b) {
		return false
	}
	for i := range a {
		if a[i] != b[i] {
			return false
		}
	}
	return true
}

func hasPrefix(p, pre []string) bool {
	return len(p) >= len(pre) && samePath(p[:len(pre)], pre)
}

func (w *World) fence(prefix []string) {
	for _, c := range w.Conns {
		for _, f := range c {
			if f.X == 0 || true {
				if hasPrefix(f.Path, prefix) {
					f.Fenced = true
				}
			}
		}
	}
}

func (w *World) move(from, to []string) {
	for _, c := range w.Conns {
		for _, f := range c {
			if !f.Fenced && hasPrefix(f.Path, from) {
				np := append(append([]string(nil), to...), f.Path[len(from):]...)
				f.Path = np
			}
		}
	}
}

func (w *World) bind(conn int, fid uint64, f *Fid) {
	w.Conns[conn][fid] = f
}

// Apply updates the state for request m given the actual reply r. It must be
// called after the verdict was checked. qidObj extracts object identities from
// success replies.
func (w *World) Apply(conn int, m wire.Msg, r wire.Msg) {
	fids := w.Conns[conn]
	ok := r.Type != wire.Rlerror
	get := func(i int) *Fid { return fids[u64(m.F[i])] }
	switch m.Type {
	case wire.Tattach:
		if ok {
			an := strings.TrimPrefix(m.F[3].(string), "/")
			var path []string
			if an != "" {
				path = strings.Split(an, "/")
			}
			nf := &Fid{Path: path, Typ: 'd'}
			if w.TypeAt != nil {
				if t, o, found := w.TypeAt(path); found {
					nf.Typ, nf.Obj = t, o
				}
			}
			w.bind(conn, u64(m.F[0]), nf)
		}
	case wire.Twalk, wire.Twalkgetattr:
		if ok {
			f := get(0)
			if f == nil {
				return
			}
			names := m.F[2].([]string)
			nf := &Fid{Path: append(append([]string(nil), f.Path...), names...)}
			if len(names) == 0 {
				nf.Typ, nf.Fenced, nf.Obj = f.Typ, f.Fenced, f.Obj
				if f.X == 1 {
					// the clone of an xattrwalk fid is an ordinary fid on the
					// same file, but like its source it has no openable type
					nf.Typ = 'x'
				}
			} else if w.TypeAt != nil {
				if t, o, found := w.TypeAt(nf.Path); found {
					nf.Typ, nf.Obj = t, o
				}
			}
			w.bind(conn, u64(m.F[1]), nf)
		}
	case wire.Tlopen:
		if ok {
			if f := get(0); f != nil {
				f.Opened, f.Flags = true, u64(m.F[1])
			}
		}
	case wire.Tlcreate, wire.Tucreate:
		if ok {
			if f := get(0); f != nil {
				nf := &Fid{Path: append(append([]string(nil), f.Path...), m.F[1].(string)), Typ: 'f', Opened: true, Flags: u64(m.F[2])}
				if q, isq := r.F[0].(wire.QID); isq {
					nf.Obj = q.Path
				}
				w.bind(conn, u64(m.F[0]), nf)
			}
		}
	case wire.Tunlinkat:
		if ok {
			if f := get(0); f != nil {
				w.fence(append(append([]string(nil), f.Path...), m.F[1].(string)))
			}
		}
	case wire.Tremove:
		f := get(0)
		if f == nil {
			return
		}
		delete(fids, u64(m.F[0]))
		if ok {
			w.fence(f.Path)
		}
	case wire.Tclunk:
		delete(fids, u64(m.F[0]))
	case wire.Trenameat:
		if ok {
			f, t := get(0), get(2)
			if f == nil || t == nil {
				return
			}
			from := append(append([]string(nil), f.Path...), m.F[1].(string))
			to := append(append([]string(nil), t.Path...), m.F[3].(string))
			if samePath(from, to) {
				return
			}
			w.fence(to)
			w.move(from, to)
		}
	case wire.Trename:
		if ok {
			f, t := get(0), get(1)
			if f == nil || t == nil || len(f.Path) == 0 {
				return
			}
			from := append([]string(nil), f.Path...)
			to := append(append([]string(nil), t.Path...), m.F[2].(string))
			if samePath(from, to) {
				return
			}
			w.fence(to)
			w.move(from, to)
		}
	case wire.Txattrwalk:
		if ok {
			f := get(0)
			if f == nil {
				return
			}
			nf := &Fid{Path: append([]string(nil), f.Path...), Typ: f.Typ, X: 1, XSize: u64(r.F[0]), Obj: f.Obj}
			w.bind(conn, u64(m.F[1]), nf)
		}
	case wire.Txattrcreate:
		if ok {
			if f := get(0); f != nil {
				f.X, f.XSize, f.XBuf, f.XFlags = 2, u64(m.F[2]), 0, u64(m.F[3])
			}
		}
	case wire.Twrite:
		if ok {
			if f := get(0); f != nil && f.X == 2 {
				f.XBuf += uint64(len(m.F[2].([]byte)))
			}
		}
	}
}

// Snapshot deep-copies the world (for exploring alternatives).
func (w *World) Snapshot() *World {
	n := &World{TypeAt: w.TypeAt}
	for _, c := range w.Conns {
		m := map[uint64]*Fid{}
		for k, f := range c {
			m[k] = f.clone()
		}
		n.Conns = append(n.Conns, m)
	}
	return n
}
