// Package rawpeer is a 9P client made of bytes: it speaks the reference codec
// (internal/wire) to a real p9.Server and monitors the reply stream.
package rawpeer

import (
	"encoding/binary"
	"fmt"
	"io"
	"net"
	"sync"
	"sync/atomic"
	"time"

	"github.com/hugelgupf/p9/p9"

	"verif/internal/quiesce"
	"verif/internal/wire"
)

// Reply is one frame received from the server.
type Reply struct {
	Raw      []byte
	Msg      wire.Msg
	Err      error // reference decode error, if any
	Trailing int
	Seq      int64 // global arrival order (shared clock, see Clock)
}

// Clock is a process-wide logical clock shared with instrumented backends so
// that reply arrivals and backend events are totally ordered.
var Clock int64

func Tick() int64 { return atomic.AddInt64(&Clock, 1) }

// Watchdog is the generous wall-clock bound whose firing is inconclusive.
var Watchdog = 25 * time.Second

// Peer is one raw connection to a server.
type Peer struct {
	C          net.Conn
	HandleDone chan struct{}
	ReaderDone chan struct{}

	mu          sync.Mutex
	replies     []*Reply
	consumed    int
	notify      chan struct{}
	outstanding map[uint16][]uint8
	msize       uint32 // announced by the last Rversion (0 = none yet)
	mon         []string
	readErr     error
	garbage     bool

	wq       chan []byte
	wpending int64
	written  int64
	werr     error
	wdone    chan struct{}

	// QuietAfter delays the first quiescence probe of every wait (probes
	// allocate; allocation-measuring scenarios set this).
	QuietAfter time.Duration

	// Pace, if set, is called by the writer goroutine after each queued
	// buffer has been written (used to wait until the peer consumed it).
	Pace func()

	handleSeq int64
	nextTag   uint32
	frames    int64
	quit      chan struct{}
	quitOnce  sync.Once
}

// Options tune how the server side sees the connection.
type Options struct {
	// WrapReader/WrapWriter wrap what Server.Handle is given.
	WrapReader func(io.ReadCloser) io.ReadCloser
	WrapWriter func(io.WriteCloser) io.WriteCloser
	// Conns, if set, supplies the two ends instead of net.Pipe.
	Conns func() (client net.Conn, server net.Conn)
}

// New connects a raw peer to srv and starts Server.Handle.
func New(srv *p9.Server, o *Options) *Peer {
	var c, s net.Conn
	if o != nil && o.Conns != nil {
		c, s = o.Conns()
	} else {
		c, s = net.Pipe()
	}
	p := &Peer{C: c, HandleDone: make(chan struct{}), ReaderDone: make(chan struct{}),
		notify: make(chan struct{}, 1), outstanding: map[uint16][]uint8{},
		wq: make(chan []byte, 4096), wdone: make(chan struct{}), quit: make(chan struct{})}
	var r io.ReadCloser = s
	var w io.WriteCloser = s
	if o != nil && o.WrapReader != nil {
		r = o.WrapReader(r)
	}
	if o != nil && o.WrapWriter != nil {
		w = o.WrapWriter(w)
	}
	go func() {
		srv.Handle(r, w)
		atomic.StoreInt64(&p.handleSeq, Tick())
		close(p.HandleDone)
	}()
	go p.reader()
	go p.writer()
	return p
}

func (p *Peer) writer() {
	defer close(p.wdone)
	for {
		var b []byte
		select {
		case b = <-p.wq:
		case <-p.quit:
			return
		}
		if p.werr == nil {
			n, err := p.C.Write(b)
			atomic.AddInt64(&p.written, int64(n))
			if err != nil {
				p.mu.Lock()
				p.werr = err
				p.mu.Unlock()
			} else if p.Pace != nil {
				p.Pace()
			}
		}
		atomic.AddInt64(&p.wpending, -1)
		p.kick()
	}
}

func (p *Peer) kick() {
	select {
	case p.notify <- struct{}{}:
	default:
	}
}

func (p *Peer) reader() {
	defer close(p.ReaderDone)
	defer p.kick()
	for {
		var h [4]byte
		if _, err := io.ReadFull(p.C, h[:]); err != nil {
			p.mu.Lock()
			p.readErr = err
			p.mu.Unlock()
			return
		}
		size := binary.LittleEndian.Uint32(h[:])
		if size < 7 || size > 64<<20 {
			p.mu.Lock()
			p.garbage = true
			p.mon = append(p.mon, fmt.Sprintf("reply-stream:bad-size-field size=%d", size))
			p.readErr = fmt.Errorf("bad size field %d", size)
			p.mu.Unlock()
			return
		}
		raw := make([]byte, size)
		copy(raw, h[:])
		if _, err := io.ReadFull(p.C, raw[4:]); err != nil {
			p.mu.Lock()
			p.mon = append(p.mon, fmt.Sprintf("reply-stream:truncated-frame size=%d", size))
			p.readErr = err
			p.mu.Unlock()
			return
		}
		m, trailing, err := wire.Decode(raw)
		r := &Reply{Raw: raw, Msg: m, Err: err, Trailing: trailing, Seq: Tick()}
		p.mu.Lock()
		atomic.AddInt64(&p.frames, 1)
		// reply-stream monitor
		if err != nil {
			p.mon = append(p.mon, fmt.Sprintf("reply-stream:undecodable-frame type=%s err=%v", wire.TypeName(m.Type), err))
		} else if trailing != 0 {
			p.mon = append(p.mon, fmt.Sprintf("reply-stream:trailing-bytes type=%s n=%d", wire.TypeName(m.Type), trailing))
		}
		if p.msize != 0 && size > p.msize {
			p.mon = append(p.mon, fmt.Sprintf("msize-exceeded:%s size=%d msize=%d", wire.TypeName(m.Type), size, p.msize))
		}
		ts := p.outstanding[m.Tag]
		if len(ts) == 0 {
			p.mon = append(p.mon, fmt.Sprintf("reply-stream:unsolicited-reply type=%s tag=%d", wire.TypeName(m.Type), m.Tag))
		} else {
			// match against the request type if one fits
			idx := -1
			for i, t := range ts {
				if m.Type == t+1 {
					idx = i
					break
				}
			}
			if idx < 0 {
				if m.Type == wire.Rlerror {
					// Several requests under one tag only occur when a check
					// sends a frame the receiver rejects on arrival under a tag
					// that is in flight: the rejection comes first, the frame
					// was sent last.
					idx = len(ts) - 1
				} else {
					idx = 0
					p.mon = append(p.mon, fmt.Sprintf("reply-stream:wrong-reply-type got=%s for=%s", wire.TypeName(m.Type), wire.TypeName(ts[0])))
				}
			}
			ts = append(ts[:idx], ts[idx+1:]...)
			if len(ts) == 0 {
				delete(p.outstanding, m.Tag)
			} else {
				p.outstanding[m.Tag] = ts
			}
		}
		if m.Type == wire.Rversion && err == nil {
			p.msize = uint32(m.F[0].(uint64))
		}
		p.replies = append(p.replies, r)
		p.mu.Unlock()
		p.kick()
	}
}

// HandleSeq is the logical time at which Server.Handle returned (0 if not yet).
func (p *Peer) HandleSeq() int64 { return atomic.LoadInt64(&p.handleSeq) }

// Monitor returns (and clears) what the reply-stream monitor flagged.
func (p *Peer) Monitor() []string {
	p.mu.Lock()
	defer p.mu.Unlock()
	m := p.mon
	p.mon = nil
	return m
}

// Outstanding returns the requests still unanswered (tag -> T types).
func (p *Peer) Outstanding() map[uint16][]uint8 {
	p.mu.Lock()
	defer p.mu.Unlock()
	o := map[uint16][]uint8{}
	for k, v := range p.outstanding {
		o[k] = append([]uint8(nil), v...)
	}
	return o
}

// Forget drops a tag from the outstanding set (for requests that by contract
// get no reply, e.g. a duplicate in-flight tag).
func (p *Peer) Forget(tag uint16, t uint8) {
	p.mu.Lock()
	defer p.mu.Unlock()
	ts := p.outstanding[tag]
	for i, x := range ts {
		if x == t {
			ts = append(ts[:i], ts[i+1:]...)
			break
		}
	}
	if len(ts) == 0 {
		delete(p.outstanding, tag)
	} else {
		p.outstanding[tag] = ts
	}
}

func (p *Peer) Msize() uint32 {
	p.mu.Lock()
	defer p.mu.Unlock()
	return p.msize
}

func (p *Peer) Frames() int64 { return atomic.LoadInt64(&p.frames) }

// SendRaw queues bytes that are not accounted as a request.
func (p *Peer) SendRaw(b []byte) {
	atomic.AddInt64(&p.wpending, 1)
	select {
	case p.wq <- b:
	case <-p.quit:
		atomic.AddInt64(&p.wpending, -1)
	}
}

// SendFrame queues one request frame and accounts it as outstanding.
func (p *Peer) SendFrame(frame []byte) {
	if len(frame) >= 7 {
		_, t, tag := wire.Header(frame)
		p.mu.Lock()
		p.outstanding[tag] = append(p.outstanding[tag], t)
		p.mu.Unlock()
	}
	p.SendRaw(frame)
}

// Expect accounts a request frame as outstanding without sending it (the
// caller delivers the bytes itself, e.g. as part of a larger write).
func (p *Peer) Expect(frame []byte) {
	if len(frame) >= 7 {
		_, t, tag := wire.Header(frame)
		p.mu.Lock()
		p.outstanding[tag] = append(p.outstanding[tag], t)
		p.mu.Unlock()
	}
}

// Send encodes and queues a request with the given tag.
func (p *Peer) Send(t uint8, tag uint16, vals ...any) {
	p.SendFrame(wire.Encode(t, tag, vals...))
}

// Tag returns a fresh tag (never NOTAG).
func (p *Peer) Tag() uint16 {
	for {
		t := uint16(atomic.AddUint32(&p.nextTag, 1))
		if t == wire.NOTAG {
			continue
		}
		p.mu.Lock()
		_, busy := p.outstanding[t]
		p.mu.Unlock()
		if !busy {
			return t
		}
	}
}

// Written is the number of bytes the server side has consumed so far
// (net.Pipe is synchronous, so this is exact).
func (p *Peer) Written() int64 { return atomic.LoadInt64(&p.written) }

// WriteErr returns the first write error.
func (p *Peer) WriteErr() error {
	p.mu.Lock()
	defer p.mu.Unlock()
	return p.werr
}

// await waits until cond (evaluated under p.mu) holds.
func (p *Peer) await(cond func() bool) (quiesce.Outcome, []quiesce.G) {
	start := time.Now()
	deadline := start.Add(Watchdog)
	wait := 500 * time.Microsecond
	span := quiesce.StartSpan()
	for {
		p.mu.Lock()
		ok := cond()
		p.mu.Unlock()
		if ok {
			return quiesce.CondMet, nil
		}
		t := time.NewTimer(wait)
		select {
		case <-p.notify:
			t.Stop()
			continue
		case <-t.C:
		}
		if p.QuietAfter > 0 && time.Since(start) < p.QuietAfter {
			continue
		}
		q, gs := quiesce.QuietUnless(func() bool {
			p.mu.Lock()
			defer p.mu.Unlock()
			return cond()
		})
		if q {
			p.mu.Lock()
			ok := cond()
			p.mu.Unlock()
			if ok {
				return quiesce.CondMet, nil
			}
			return quiesce.Stuck, gs
		}
		span.Observe(gs)
		if time.Now().After(deadline) {
			if o, over := span.AtDeadline(&deadline, Watchdog); over {
				return o, quiesce.Snapshot()
			}
		}
		if wait < 20*time.Millisecond {
			wait *= 2
		}
	}
}

// Flush waits until every queued byte was consumed by the server (or the
// write failed).
func (p *Peer) Flush() (quiesce.Outcome, []quiesce.G) {
	return p.await(func() bool { return atomic.LoadInt64(&p.wpending) == 0 })
}

// Next returns the next reply in arrival order. ok is false when the stream
// ended (EOF/garbage) before another reply arrived.
func (p *Peer) Next() (r *Reply, ok bool, out quiesce.Outcome, dump []quiesce.G) {
	out, dump = p.await(func() bool { return p.consumed < len(p.replies) || p.readErr != nil })
	if out != quiesce.CondMet {
		return nil, false, out, dump
	}
	p.mu.Lock()
	defer p.mu.Unlock()
	if p.consumed < len(p.replies) {
		r = p.replies[p.consumed]
		p.consumed++
		return r, true, out, nil
	}
	return nil, false, out, nil
}

// At waits for the reply at position idx of the arrival list (idx =
// NReplies() taken before sending is "the first reply after now").
func (p *Peer) At(idx int) (r *Reply, ok bool, out quiesce.Outcome, dump []quiesce.G) {
	out, dump = p.await(func() bool { return idx < len(p.replies) || p.readErr != nil })
	if out != quiesce.CondMet {
		return nil, false, out, dump
	}
	p.mu.Lock()
	defer p.mu.Unlock()
	if idx < len(p.replies) {
		return p.replies[idx], true, out, nil
	}
	return nil, false, out, nil
}

// Poll returns the next reply if one has already arrived.
func (p *Peer) Poll() *Reply {
	p.mu.Lock()
	defer p.mu.Unlock()
	if p.consumed < len(p.replies) {
		r := p.replies[p.consumed]
		p.consumed++
		return r
	}
	return nil
}

// PollFrom returns the reply at position *pos if it has arrived and advances
// *pos (a private cursor, independent of Next/Poll).
func (p *Peer) PollFrom(pos *int) *Reply {
	p.mu.Lock()
	defer p.mu.Unlock()
	if *pos < len(p.replies) {
		r := p.replies[*pos]
		*pos++
		return r
	}
	return nil
}

// All returns every reply received so far (consumed or not).
func (p *Peer) All() []*Reply {
	p.mu.Lock()
	defer p.mu.Unlock()
	return append([]*Reply(nil), p.replies...)
}

// HasReply reports whether a reply with the tag has arrived (not consuming).
func (p *Peer) HasReply(tag uint16) *Reply {
	p.mu.Lock()
	defer p.mu.Unlock()
	for _, r := range p.replies {
		if r.Msg.Tag == tag {
			return r
		}
	}
	return nil
}

// HasReplyFrom is HasReply restricted to replies at list position >= from.
func (p *Peer) HasReplyFrom(tag uint16, from int) *Reply {
	p.mu.Lock()
	defer p.mu.Unlock()
	if from > len(p.replies) {
		return nil
	}
	for _, r := range p.replies[from:] {
		if r.Msg.Tag == tag {
			return r
		}
	}
	return nil
}

// WaitTag waits for a reply carrying tag that arrived at or after position
// from in the reply list.
func (p *Peer) WaitTag(tag uint16, from int) (r *Reply, ok bool, out quiesce.Outcome, dump []quiesce.G) {
	find := func() *Reply {
		for _, x := range p.replies[from:] {
			if x.Msg.Tag == tag {
				return x
			}
		}
		return nil
	}
	out, dump = p.await(func() bool { return find() != nil || p.readErr != nil })
	if out != quiesce.CondMet {
		return nil, false, out, dump
	}
	p.mu.Lock()
	defer p.mu.Unlock()
	if x := find(); x != nil {
		return x, true, out, nil
	}
	return nil, false, out, nil
}

// NReplies is the number of replies received so far.
func (p *Peer) NReplies() int {
	p.mu.Lock()
	defer p.mu.Unlock()
	return len(p.replies)
}

// ReadErr returns the error that ended the reply stream, if it ended.
func (p *Peer) ReadErr() error {
	p.mu.Lock()
	defer p.mu.Unlock()
	return p.readErr
}

// Result of a lock-step RPC.
type Result struct {
	Msg  wire.Msg
	Raw  []byte
	OK   bool            // a reply arrived
	Out  quiesce.Outcome // CondMet / Stuck / Timeout
	Dump []quiesce.G
	EOF  bool // stream ended instead
}

// Errno returns the Rlerror code, or 0 / -1.
func (r Result) Errno() int64 {
	if !r.OK {
		return -1
	}
	if r.Msg.Type == wire.Rlerror && len(r.Msg.F) == 1 {
		return int64(r.Msg.F[0].(uint64))
	}
	return 0
}

// RPC sends one request with a fresh tag and waits for its reply.
func (p *Peer) RPC(t uint8, vals ...any) Result {
	tag := p.Tag()
	return p.RPCTag(t, tag, vals...)
}

// RPCTag is RPC with a chosen tag.
func (p *Peer) RPCTag(t uint8, tag uint16, vals ...any) Result {
	from := p.NReplies()
	p.Send(t, tag, vals...)
	r, ok, out, dump := p.WaitTag(tag, from)
	if !ok {
		return Result{Out: out, Dump: dump, EOF: out == quiesce.CondMet}
	}
	return Result{Msg: r.Msg, Raw: r.Raw, OK: true, Out: out}
}

// RPCFrame sends raw frame bytes and waits for a reply with the given tag.
func (p *Peer) RPCFrame(frame []byte, tag uint16) Result {
	from := p.NReplies()
	p.SendFrame(frame)
	r, ok, out, dump := p.WaitTag(tag, from)
	if !ok {
		return Result{Out: out, Dump: dump, EOF: out == quiesce.CondMet}
	}
	return Result{Msg: r.Msg, Raw: r.Raw, OK: true, Out: out}
}

// Version negotiates.
func (p *Peer) Version(msize uint32, v string) Result {
	return p.RPCTag(wire.Tversion, wire.NOTAG, uint64(msize), v)
}

// CloseWrite is not available on net.Pipe; Close ends both directions.
// Close closes our end and waits for Server.Handle to return.
func (p *Peer) Close() (quiesce.Outcome, []quiesce.G) {
	p.C.Close()
	out, dump := quiesce.Await(p.HandleDone, Watchdog)
	p.quitOnce.Do(func() { close(p.quit) })
	return out, dump
}
