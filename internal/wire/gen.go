package wire

// Rng is the random source generators draw from.
type Rng interface {
	U64() uint64
	Intn(n int) int
}

// Gen generates field values for a layout.
type Gen struct {
	R Rng
	// Budget is the maximal body size to aim for (strings/lists/payloads are
	// sized so the body stays below it).
	Budget int
	// SafeNames makes every Str/Names value a legal path component (non-empty,
	// no '/', not "." or "..") — needed when the message must pass the
	// server's name checks.
	SafeNames bool
	// Small biases lengths to small values (throughput).
	Small bool
}

func (g *Gen) Int(bits int) uint64 {
	var max uint64 = 1<<uint(bits) - 1
	if bits == 64 {
		max = ^uint64(0)
	}
	switch g.R.Intn(10) {
	case 0:
		return 0
	case 1:
		return 1
	case 2:
		return max
	case 3:
		return max - 1
	case 4:
		k := uint(g.R.Intn(bits))
		return (uint64(1) << k) & max
	case 5:
		k := uint(g.R.Intn(bits))
		return ((uint64(1) << k) - 1) & max
	case 6:
		return (max >> 1) + 1 // top bit only
	default:
		return g.R.U64() & max
	}
}

var strLens = []int{0, 1, 2, 3, 7, 8, 15, 16, 31, 63, 64, 127, 255, 256, 257, 1000, 4095, 4096, 32767, 32768, 65534, 65535}

func (g *Gen) strLen(room int) int {
	var n int
	if g.Small {
		n = g.R.Intn(12)
		if g.R.Intn(8) == 0 {
			n = strLens[g.R.Intn(len(strLens))]
		}
	} else {
		switch g.R.Intn(3) {
		case 0:
			n = strLens[g.R.Intn(len(strLens))]
		case 1:
			n = g.R.Intn(20)
		default:
			n = g.R.Intn(300)
		}
	}
	if n > room {
		n = room
	}
	if n > 65535 {
		n = 65535
	}
	if n < 0 {
		n = 0
	}
	return n
}

// Bytes returns n arbitrary bytes (NUL, '/', high bytes included).
func (g *Gen) Bytes(n int) []byte {
	b := make([]byte, n)
	mode := g.R.Intn(4)
	for i := 0; i < n; i += 8 {
		v := g.R.U64()
		for j := 0; j < 8 && i+j < n; j++ {
			c := byte(v >> (8 * uint(j)))
			switch mode {
			case 0: // printable
				c = 'a' + c%26
			case 1: // hostile mix
				switch c % 16 {
				case 0:
					c = 0
				case 1:
					c = '/'
				case 2:
					c = '.'
				case 3:
					c = 0xFF
				}
			}
			b[i+j] = c
		}
	}
	return b
}

func (g *Gen) Str(room int) string {
	n := g.strLen(room)
	b := g.Bytes(n)
	if g.SafeNames {
		if n == 0 {
			return "x"
		}
		for i := range b {
			if b[i] == '/' {
				b[i] = '_'
			}
		}
		s := string(b)
		if s == "." || s == ".." {
			return "d" + s
		}
		return s
	}
	return string(b)
}

func (g *Gen) QID() QID {
	return QID{uint8(g.Int(8)), uint32(g.Int(32)), g.Int(64)}
}

// Vals generates values for message type t.
func (g *Gen) Vals(t uint8) []any {
	l := byType[t]
	room := g.Budget
	if room <= 0 {
		room = 8000
	}
	// reserve fixed parts
	for _, fd := range l.Fields {
		switch fd.Kind {
		case U8:
			room--
		case U16, Str, Names, QIDs:
			room -= 2
		case U32, Perm, Data:
			room -= 4
		case U64:
			room -= 8
		case QIDKind:
			room -= 13
		}
	}
	if room < 0 {
		room = 0
	}
	var vals []any
	nvar := 0
	for _, fd := range l.Fields {
		switch fd.Kind {
		case Str, Names, QIDs, Data:
			nvar++
		}
	}
	for _, fd := range l.Fields {
		switch fd.Kind {
		case U8:
			vals = append(vals, g.Int(8))
		case U16:
			vals = append(vals, g.Int(16))
		case U32, Perm:
			vals = append(vals, g.Int(32))
		case U64:
			vals = append(vals, g.Int(64))
		case QIDKind:
			vals = append(vals, g.QID())
		case Str:
			s := g.Str(room / nvar)
			room -= len(s)
			nvar--
			vals = append(vals, s)
		case Names:
			share := room / nvar
			nvar--
			var n int
			switch g.R.Intn(6) {
			case 0:
				n = 0
			case 1:
				n = 1
			case 2:
				n = 2
			case 3:
				n = 16
			case 4:
				n = share / 3 // as many as fit (short names)
				if n > 65535 {
					n = 65535
				}
				if g.Small && n > 40 {
					n = 40
				}
			default:
				n = g.R.Intn(8)
			}
			ns := make([]string, 0, n)
			used := 0
			for i := 0; i < n; i++ {
				left := share - used - 2*(n-i)
				if left < 0 {
					break
				}
				per := left
				if n > 2 {
					per = left / (n - i)
					if per < 1 && g.SafeNames {
						per = 1
					}
				}
				s := g.Str(per)
				if 2+len(s) > share-used {
					break
				}
				used += 2 + len(s)
				ns = append(ns, s)
			}
			room -= used
			vals = append(vals, ns)
		case QIDs:
			share := room / nvar
			nvar--
			n := []int{0, 1, 2, 16, share / 13, g.R.Intn(8)}[g.R.Intn(6)]
			if n*13 > share {
				n = share / 13
			}
			if n > 65535 {
				n = 65535
			}
			if g.Small && n > 40 {
				n = 40
			}
			qs := make([]QID, n)
			for i := range qs {
				qs[i] = g.QID()
			}
			room -= 13 * n
			vals = append(vals, qs)
		case Data:
			share := room / nvar
			nvar--
			var n int
			switch g.R.Intn(6) {
			case 0:
				n = 0
			case 1:
				n = 1
			case 2:
				n = share
			case 3:
				n = share - 1
			default:
				n = g.R.Intn(share + 1)
				if g.Small {
					n = g.R.Intn(64)
				}
			}
			if n > share {
				n = share
			}
			if n < 0 {
				n = 0
			}
			room -= n
			vals = append(vals, g.Bytes(n))
		}
	}
	return vals
}

// Trivial reports whether every variable-length field is empty and every
// integer zero (C01's triviality rule).
func Trivial(vals []any) bool {
	for _, v := range vals {
		switch x := v.(type) {
		case uint64:
			if x != 0 {
				return false
			}
		case string:
			if x != "" {
				return false
			}
		case []string:
			if len(x) != 0 {
				return false
			}
		case []QID:
			if len(x) != 0 {
				return false
			}
		case []byte:
			if len(x) != 0 {
				return false
			}
		case QID:
			if x != (QID{}) {
				return false
			}
		}
	}
	return true
}

func lenClass(n int) string {
	switch {
	case n == 0:
		return "0"
	case n == 1:
		return "1"
	case n < 16:
		return "s"
	case n < 256:
		return "m"
	case n < 4096:
		return "l"
	case n < 32768:
		return "L"
	case n < 65535:
		return "X"
	default:
		return "max"
	}
}

func intClass(x uint64, bits int) string {
	var max uint64 = 1<<uint(bits) - 1
	if bits == 64 {
		max = ^uint64(0)
	}
	switch {
	case x == 0:
		return "0"
	case x == max:
		return "M"
	case x > max>>1:
		return "h"
	default:
		return "p"
	}
}

// ShapeClass buckets a value list for distinctness accounting.
func ShapeClass(t uint8, vals []any) string {
	l := byType[t]
	s := l.Name + ":"
	for i, v := range vals {
		if i >= len(l.Fields) {
			break
		}
		switch x := v.(type) {
		case uint64:
			bits := 32
			switch l.Fields[i].Kind {
			case U8:
				bits = 8
			case U16:
				bits = 16
			case U64:
				bits = 64
			}
			s += intClass(x, bits)
		case string:
			s += "s" + lenClass(len(x))
		case []string:
			s += "n" + lenClass(len(x))
		case []QID:
			s += "q" + lenClass(len(x))
		case []byte:
			s += "d" + lenClass(len(x))
		case QID:
			s += "Q"
		}
	}
	return s
}
