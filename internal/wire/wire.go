// Package wire is an independent reference codec for 9P2000.L plus the
// .Google.N extension messages. It is written from the protocol documents
// (diod protocol.md, Linux include/net/9p/9p.h, the gVisor extension list) and
// shares no code with github.com/hugelgupf/p9.
//
// A message is (type byte, tag, flat list of values). Values are positional:
// integers are uint64 (their wire width comes from the layout table), strings
// are Go strings of arbitrary bytes, name lists are []string, QID lists are
// []QID, payloads are []byte.
package wire

import (
	"encoding/binary"
	"errors"
	"fmt"
)

// Kind is the wire kind of one field.
type Kind int

const (
	U8 Kind = iota
	U16
	U32
	U64
	Str     // len[2] bytes
	Names   // n[2] n*(len[2] bytes)
	QIDs    // n[2] n*qid[13]
	Data    // count[4] bytes[count] (trailing payload)
	Perm    // u32 on the wire; the receiver keeps the low 12 bits
	QIDKind // qid[13]: type[1] version[4] path[8]
)

// QID is the 13-byte 9P identifier.
type QID struct {
	Type    uint8
	Version uint32
	Path    uint64
}

// Field is one field of a layout.
type Field struct {
	Name string
	Kind Kind
}

// Layout is the body layout of one message type.
type Layout struct {
	Type   uint8
	Name   string
	Fields []Field
}

// Sentinels.
const (
	NOTAG = 0xFFFF
	NOFID = 0xFFFFFFFF
	NOUID = 0xFFFFFFFF
)

// Message type numbers.
const (
	Rlerror      = 7
	Tstatfs      = 8
	Rstatfs      = 9
	Tlopen       = 12
	Rlopen       = 13
	Tlcreate     = 14
	Rlcreate     = 15
	Tsymlink     = 16
	Rsymlink     = 17
	Tmknod       = 18
	Rmknod       = 19
	Trename      = 20
	Rrename      = 21
	Treadlink    = 22
	Rreadlink    = 23
	Tgetattr     = 24
	Rgetattr     = 25
	Tsetattr     = 26
	Rsetattr     = 27
	Txattrwalk   = 30
	Rxattrwalk   = 31
	Txattrcreate = 32
	Rxattrcreate = 33
	Treaddir     = 40
	Rreaddir     = 41
	Tfsync       = 50
	Rfsync       = 51
	Tlock        = 52
	Rlock        = 53
	Tgetlock     = 54
	Rgetlock     = 55
	Tlink        = 70
	Rlink        = 71
	Tmkdir       = 72
	Rmkdir       = 73
	Trenameat    = 74
	Rrenameat    = 75
	Tunlinkat    = 76
	Runlinkat    = 77
	Tversion     = 100
	Rversion     = 101
	Tauth        = 102
	Rauth        = 103
	Tattach      = 104
	Rattach      = 105
	Tflush       = 108
	Rflush       = 109
	Twalk        = 110
	Rwalk        = 111
	Tread        = 116
	Rread        = 117
	Twrite       = 118
	Rwrite       = 119
	Tclunk       = 120
	Rclunk       = 121
	Tremove      = 122
	Rremove      = 123
	Twalkgetattr = 126
	Rwalkgetattr = 127
	Tucreate     = 128
	Rucreate     = 129
	Tumkdir      = 130
	Rumkdir      = 131
	Tumknod      = 132
	Rumknod      = 133
	Tusymlink    = 134
	Rusymlink    = 135
)

func f(name string, k Kind) Field { return Field{name, k} }

var attrFields = []Field{
	f("mode", U32), f("uid", U32), f("gid", U32), f("nlink", U64), f("rdev", U64),
	f("size", U64), f("blksize", U64), f("blocks", U64),
	f("atime_sec", U64), f("atime_nsec", U64), f("mtime_sec", U64), f("mtime_nsec", U64),
	f("ctime_sec", U64), f("ctime_nsec", U64), f("btime_sec", U64), f("btime_nsec", U64),
	f("gen", U64), f("data_version", U64),
}

func cat(a ...[]Field) []Field {
	var r []Field
	for _, x := range a {
		r = append(r, x...)
	}
	return r
}

var (
	lcreate = []Field{f("fid", U32), f("name", Str), f("flags", U32), f("mode", Perm), f("gid", U32)}
	symlink = []Field{f("fid", U32), f("name", Str), f("symtgt", Str), f("gid", U32)}
	mknod   = []Field{f("dfid", U32), f("name", Str), f("mode", U32), f("major", U32), f("minor", U32), f("gid", U32)}
	mkdir   = []Field{f("dfid", U32), f("name", Str), f("mode", Perm), f("gid", U32)}
	uid     = []Field{f("uid", U32)}
	qid     = []Field{f("qid", QIDKind)}
	lopenR  = []Field{f("qid", QIDKind), f("iounit", U32)}
	auth    = []Field{f("afid", U32), f("uname", Str), f("aname", Str), f("n_uname", U32)}
)

// Layouts lists every message type of 9P2000.L.Google.7 this codec knows.
var Layouts = []Layout{
	{Rlerror, "Rlerror", []Field{f("ecode", U32)}},
	{Tstatfs, "Tstatfs", []Field{f("fid", U32)}},
	{Rstatfs, "Rstatfs", []Field{f("type", U32), f("bsize", U32), f("blocks", U64), f("bfree", U64), f("bavail", U64), f("files", U64), f("ffree", U64), f("fsid", U64), f("namelen", U32)}},
	{Tlopen, "Tlopen", []Field{f("fid", U32), f("flags", U32)}},
	{Rlopen, "Rlopen", lopenR},
	{Tlcreate, "Tlcreate", lcreate},
	{Rlcreate, "Rlcreate", lopenR},
	{Tsymlink, "Tsymlink", symlink},
	{Rsymlink, "Rsymlink", qid},
	{Tmknod, "Tmknod", mknod},
	{Rmknod, "Rmknod", qid},
	{Trename, "Trename", []Field{f("fid", U32), f("dfid", U32), f("name", Str)}},
	{Rrename, "Rrename", nil},
	{Treadlink, "Treadlink", []Field{f("fid", U32)}},
	{Rreadlink, "Rreadlink", []Field{f("target", Str)}},
	{Tgetattr, "Tgetattr", []Field{f("fid", U32), f("request_mask", U64)}},
	{Rgetattr, "Rgetattr", cat([]Field{f("valid", U64), f("qid", QIDKind)}, attrFields)},
	{Tsetattr, "Tsetattr", []Field{f("fid", U32), f("valid", U32), f("mode", Perm), f("uid", U32), f("gid", U32), f("size", U64), f("atime_sec", U64), f("atime_nsec", U64), f("mtime_sec", U64), f("mtime_nsec", U64)}},
	{Rsetattr, "Rsetattr", nil},
	{Txattrwalk, "Txattrwalk", []Field{f("fid", U32), f("newfid", U32), f("name", Str)}},
	{Rxattrwalk, "Rxattrwalk", []Field{f("size", U64)}},
	{Txattrcreate, "Txattrcreate", []Field{f("fid", U32), f("name", Str), f("attr_size", U64), f("flags", U32)}},
	{Rxattrcreate, "Rxattrcreate", nil},
	{Treaddir, "Treaddir", []Field{f("fid", U32), f("offset", U64), f("count", U32)}},
	{Rreaddir, "Rreaddir", []Field{f("data", Data)}},
	{Tfsync, "Tfsync", []Field{f("fid", U32)}},
	{Rfsync, "Rfsync", nil},
	{Tlock, "Tlock", []Field{f("fid", U32), f("type", U8), f("flags", U32), f("start", U64), f("length", U64), f("proc_id", U32), f("client_id", Str)}},
	{Rlock, "Rlock", []Field{f("status", U8)}},
	{Tlink, "Tlink", []Field{f("dfid", U32), f("fid", U32), f("name", Str)}},
	{Rlink, "Rlink", nil},
	{Tmkdir, "Tmkdir", mkdir},
	{Rmkdir, "Rmkdir", qid},
	{Trenameat, "Trenameat", []Field{f("olddirfid", U32), f("oldname", Str), f("newdirfid", U32), f("newname", Str)}},
	{Rrenameat, "Rrenameat", nil},
	{Tunlinkat, "Tunlinkat", []Field{f("dirfd", U32), f("name", Str), f("flags", U32)}},
	{Runlinkat, "Runlinkat", nil},
	{Tversion, "Tversion", []Field{f("msize", U32), f("version", Str)}},
	{Rversion, "Rversion", []Field{f("msize", U32), f("version", Str)}},
	{Tauth, "Tauth", auth},
	{Rauth, "Rauth", qid},
	{Tattach, "Tattach", cat([]Field{f("fid", U32)}, auth)},
	{Rattach, "Rattach", qid},
	{Tflush, "Tflush", []Field{f("oldtag", U16)}},
	{Rflush, "Rflush", nil},
	{Twalk, "Twalk", []Field{f("fid", U32), f("newfid", U32), f("wname", Names)}},
	{Rwalk, "Rwalk", []Field{f("wqid", QIDs)}},
	{Tread, "Tread", []Field{f("fid", U32), f("offset", U64), f("count", U32)}},
	{Rread, "Rread", []Field{f("data", Data)}},
	{Twrite, "Twrite", []Field{f("fid", U32), f("offset", U64), f("data", Data)}},
	{Rwrite, "Rwrite", []Field{f("count", U32)}},
	{Tclunk, "Tclunk", []Field{f("fid", U32)}},
	{Rclunk, "Rclunk", nil},
	{Tremove, "Tremove", []Field{f("fid", U32)}},
	{Rremove, "Rremove", nil},
	{Twalkgetattr, "Twalkgetattr", []Field{f("fid", U32), f("newfid", U32), f("wname", Names)}},
	{Rwalkgetattr, "Rwalkgetattr", cat([]Field{f("valid", U64)}, attrFields, []Field{f("wqid", QIDs)})},
	{Tucreate, "Tucreate", cat(lcreate, uid)},
	{Rucreate, "Rucreate", lopenR},
	{Tumkdir, "Tumkdir", cat(mkdir, uid)},
	{Rumkdir, "Rumkdir", qid},
	{Tumknod, "Tumknod", cat(mknod, uid)},
	{Rumknod, "Rumknod", qid},
	{Tusymlink, "Tusymlink", cat(symlink, uid)},
	{Rusymlink, "Rusymlink", qid},
}

var byType [256]*Layout

func init() {
	for i := range Layouts {
		l := &Layouts[i]
		if byType[l.Type] != nil {
			panic("duplicate layout")
		}
		byType[l.Type] = l
	}
}

// LayoutOf returns the layout for a type byte, or nil.
func LayoutOf(t uint8) *Layout { return byType[t] }

// TypeName names a type byte.
func TypeName(t uint8) string {
	if l := byType[t]; l != nil {
		return l.Name
	}
	return fmt.Sprintf("type%d", t)
}

// IsT reports whether the type is a request (even numbers are T-messages).
func IsT(t uint8) bool { return t%2 == 0 }

// MinVersion returns the lowest .Google.N version that defines the message
// type (0 for plain 9P2000.L messages).
func MinVersion(t uint8) uint32 {
	switch t {
	case Twalkgetattr, Rwalkgetattr:
		return 2
	case Tucreate, Rucreate, Tumkdir, Rumkdir, Tumknod, Rumknod, Tusymlink, Rusymlink:
		return 3
	}
	return 0
}

// Msg is a decoded message.
type Msg struct {
	Type uint8
	Tag  uint16
	F    []any
}

func (m Msg) String() string {
	return fmt.Sprintf("%s tag=%d %s", TypeName(m.Type), m.Tag, fmtVals(m.F))
}

func fmtVals(v []any) string {
	s := "["
	for i, x := range v {
		if i > 0 {
			s += " "
		}
		switch y := x.(type) {
		case string:
			if len(y) > 40 {
				s += fmt.Sprintf("str(%d)%q..", len(y), y[:24])
			} else {
				s += fmt.Sprintf("%q", y)
			}
		case []byte:
			if len(y) > 16 {
				s += fmt.Sprintf("data(%d)%x..", len(y), y[:8])
			} else {
				s += fmt.Sprintf("data(%d)%x", len(y), y)
			}
		case []string:
			if len(y) > 6 {
				s += fmt.Sprintf("names(%d)", len(y))
			} else {
				s += fmt.Sprintf("%q", y)
			}
		case []QID:
			if len(y) > 4 {
				s += fmt.Sprintf("qids(%d)", len(y))
			} else {
				s += fmt.Sprintf("%v", y)
			}
		default:
			s += fmt.Sprintf("%v", y)
		}
	}
	return s + "]"
}

var le = binary.LittleEndian

// EncodeBody encodes the body (after the 7-byte header) of a message.
func EncodeBody(t uint8, vals []any) ([]byte, error) {
	l := byType[t]
	if l == nil {
		return nil, fmt.Errorf("wire: unknown type %d", t)
	}
	var b []byte
	i := 0
	next := func() (any, error) {
		if i >= len(vals) {
			return nil, fmt.Errorf("wire: %s: too few values", l.Name)
		}
		v := vals[i]
		i++
		return v, nil
	}
	u := func() (uint64, error) {
		v, err := next()
		if err != nil {
			return 0, err
		}
		x, ok := v.(uint64)
		if !ok {
			return 0, fmt.Errorf("wire: %s: value %d is %T, want uint64", l.Name, i-1, v)
		}
		return x, nil
	}
	putStr := func(s string) error {
		if len(s) > 0xFFFF {
			return fmt.Errorf("wire: string too long (%d)", len(s))
		}
		b = le.AppendUint16(b, uint16(len(s)))
		b = append(b, s...)
		return nil
	}
	putQID := func(q QID) {
		b = append(b, q.Type)
		b = le.AppendUint32(b, q.Version)
		b = le.AppendUint64(b, q.Path)
	}
	for _, fd := range l.Fields {
		switch fd.Kind {
		case U8:
			x, err := u()
			if err != nil {
				return nil, err
			}
			b = append(b, uint8(x))
		case U16:
			x, err := u()
			if err != nil {
				return nil, err
			}
			b = le.AppendUint16(b, uint16(x))
		case U32, Perm:
			x, err := u()
			if err != nil {
				return nil, err
			}
			b = le.AppendUint32(b, uint32(x))
		case U64:
			x, err := u()
			if err != nil {
				return nil, err
			}
			b = le.AppendUint64(b, x)
		case Str:
			v, err := next()
			if err != nil {
				return nil, err
			}
			s, ok := v.(string)
			if !ok {
				return nil, fmt.Errorf("wire: %s.%s: %T, want string", l.Name, fd.Name, v)
			}
			if err := putStr(s); err != nil {
				return nil, err
			}
		case Names:
			v, err := next()
			if err != nil {
				return nil, err
			}
			ns, ok := v.([]string)
			if !ok {
				return nil, fmt.Errorf("wire: %s.%s: %T, want []string", l.Name, fd.Name, v)
			}
			if len(ns) > 0xFFFF {
				return nil, errors.New("wire: too many names")
			}
			b = le.AppendUint16(b, uint16(len(ns)))
			for _, s := range ns {
				if err := putStr(s); err != nil {
					return nil, err
				}
			}
		case QIDs:
			v, err := next()
			if err != nil {
				return nil, err
			}
			qs, ok := v.([]QID)
			if !ok {
				return nil, fmt.Errorf("wire: %s.%s: %T, want []QID", l.Name, fd.Name, v)
			}
			if len(qs) > 0xFFFF {
				return nil, errors.New("wire: too many qids")
			}
			b = le.AppendUint16(b, uint16(len(qs)))
			for _, q := range qs {
				putQID(q)
			}
		case QIDKind:
			v, err := next()
			if err != nil {
				return nil, err
			}
			q, ok := v.(QID)
			if !ok {
				return nil, fmt.Errorf("wire: %s.%s: %T, want QID", l.Name, fd.Name, v)
			}
			putQID(q)
		case Data:
			v, err := next()
			if err != nil {
				return nil, err
			}
			d, ok := v.([]byte)
			if !ok {
				return nil, fmt.Errorf("wire: %s.%s: %T, want []byte", l.Name, fd.Name, v)
			}
			b = le.AppendUint32(b, uint32(len(d)))
			b = append(b, d...)
		}
	}
	if i != len(vals) {
		return nil, fmt.Errorf("wire: %s: %d extra values", l.Name, len(vals)-i)
	}
	return b, nil
}

// Frame builds size[4] type[1] tag[2] body.
func Frame(t uint8, tag uint16, body []byte) []byte {
	b := make([]byte, 0, 7+len(body))
	b = le.AppendUint32(b, uint32(7+len(body)))
	b = append(b, t)
	b = le.AppendUint16(b, tag)
	return append(b, body...)
}

// Encode builds a whole frame. It panics on a value list that does not match
// the layout: that is a harness bug, not an input.
func Encode(t uint8, tag uint16, vals ...any) []byte {
	body, err := EncodeBody(t, vals)
	if err != nil {
		panic(err)
	}
	return Frame(t, tag, body)
}

// ErrShort is returned when a body ends before its layout does.
var ErrShort = errors.New("wire: body too short for layout")

// DecodeBody decodes a body strictly against the layout. trailing reports how
// many bytes were left over after the last field (strict callers reject > 0).
func DecodeBody(t uint8, body []byte) (vals []any, trailing int, err error) {
	l := byType[t]
	if l == nil {
		return nil, 0, fmt.Errorf("wire: unknown type %d", t)
	}
	p := 0
	need := func(n int) bool { return len(body)-p >= n }
	str := func() (string, bool) {
		if !need(2) {
			return "", false
		}
		n := int(le.Uint16(body[p:]))
		p += 2
		if !need(n) {
			return "", false
		}
		s := string(body[p : p+n])
		p += n
		return s, true
	}
	q := func() (QID, bool) {
		if !need(13) {
			return QID{}, false
		}
		r := QID{body[p], le.Uint32(body[p+1:]), le.Uint64(body[p+5:])}
		p += 13
		return r, true
	}
	for _, fd := range l.Fields {
		switch fd.Kind {
		case U8:
			if !need(1) {
				return nil, 0, ErrShort
			}
			vals = append(vals, uint64(body[p]))
			p++
		case U16:
			if !need(2) {
				return nil, 0, ErrShort
			}
			vals = append(vals, uint64(le.Uint16(body[p:])))
			p += 2
		case U32, Perm:
			if !need(4) {
				return nil, 0, ErrShort
			}
			vals = append(vals, uint64(le.Uint32(body[p:])))
			p += 4
		case U64:
			if !need(8) {
				return nil, 0, ErrShort
			}
			vals = append(vals, le.Uint64(body[p:]))
			p += 8
		case Str:
			s, ok := str()
			if !ok {
				return nil, 0, ErrShort
			}
			vals = append(vals, s)
		case Names:
			if !need(2) {
				return nil, 0, ErrShort
			}
			n := int(le.Uint16(body[p:]))
			p += 2
			ns := make([]string, 0, min(n, 64))
			for i := 0; i < n; i++ {
				s, ok := str()
				if !ok {
					return nil, 0, ErrShort
				}
				ns = append(ns, s)
			}
			vals = append(vals, ns)
		case QIDs:
			if !need(2) {
				return nil, 0, ErrShort
			}
			n := int(le.Uint16(body[p:]))
			p += 2
			qs := make([]QID, 0, min(n, 64))
			for i := 0; i < n; i++ {
				x, ok := q()
				if !ok {
					return nil, 0, ErrShort
				}
				qs = append(qs, x)
			}
			vals = append(vals, qs)
		case QIDKind:
			x, ok := q()
			if !ok {
				return nil, 0, ErrShort
			}
			vals = append(vals, x)
		case Data:
			if !need(4) {
				return nil, 0, ErrShort
			}
			n := int(le.Uint32(body[p:]))
			p += 4
			if n != len(body)-p {
				// The payload is by definition the rest of the frame.
				return nil, 0, fmt.Errorf("wire: count %d but %d payload bytes", n, len(body)-p)
			}
			d := make([]byte, n)
			copy(d, body[p:])
			p += n
			vals = append(vals, d)
		}
	}
	return vals, len(body) - p, nil
}

// Header parses a 7-byte header.
func Header(h []byte) (size uint32, t uint8, tag uint16) {
	return le.Uint32(h), h[4], le.Uint16(h[5:])
}

// Decode decodes one whole frame (exactly len(frame) bytes).
func Decode(frame []byte) (Msg, int, error) {
	if len(frame) < 7 {
		return Msg{}, 0, errors.New("wire: short frame")
	}
	size, t, tag := Header(frame)
	if int(size) != len(frame) {
		return Msg{}, 0, fmt.Errorf("wire: size field %d, frame has %d bytes", size, len(frame))
	}
	vals, trailing, err := DecodeBody(t, frame[7:])
	if err != nil {
		return Msg{Type: t, Tag: tag}, 0, err
	}
	return Msg{t, tag, vals}, trailing, nil
}

// Dirent is one directory entry inside an Rreaddir payload.
type Dirent struct {
	QID    QID
	Offset uint64
	Type   uint8
	Name   string
}

// EncodeDirents lays out entries: qid[13] offset[8] type[1] name[s].
func EncodeDirents(ents []Dirent) []byte {
	var b []byte
	for _, e := range ents {
		b = append(b, e.QID.Type)
		b = le.AppendUint32(b, e.QID.Version)
		b = le.AppendUint64(b, e.QID.Path)
		b = le.AppendUint64(b, e.Offset)
		b = append(b, e.Type)
		b = le.AppendUint16(b, uint16(len(e.Name)))
		b = append(b, e.Name...)
	}
	return b
}

// DirentSize is the encoded size of one entry.
func DirentSize(name string) int { return 13 + 8 + 1 + 2 + len(name) }

// DecodeDirents parses an Rreaddir payload; rest is the count of bytes after
// the last whole entry.
func DecodeDirents(b []byte) (ents []Dirent, rest int) {
	p := 0
	for {
		if len(b)-p < 24 {
			break
		}
		n := int(le.Uint16(b[p+22:]))
		if len(b)-p < 24+n {
			break
		}
		ents = append(ents, Dirent{
			QID:    QID{b[p], le.Uint32(b[p+1:]), le.Uint64(b[p+5:])},
			Offset: le.Uint64(b[p+13:]),
			Type:   b[p+21],
			Name:   string(b[p+24 : p+24+n]),
		})
		p += 24 + n
	}
	return ents, len(b) - p
}

// PermMask is the mask a receiver applies to permission fields.
const PermMask = 07777

// Normalize applies the documented receiver-side rewriting (permission fields
// keep their low 12 bits) to a value list and canonicalises nil/empty.
func Normalize(t uint8, vals []any) []any {
	l := byType[t]
	if l == nil {
		return vals
	}
	out := make([]any, len(vals))
	copy(out, vals)
	for i, fd := range l.Fields {
		if i >= len(out) {
			break
		}
		switch fd.Kind {
		case Perm:
			if x, ok := out[i].(uint64); ok {
				out[i] = x & PermMask
			}
		case Names:
			if x, ok := out[i].([]string); ok && len(x) == 0 {
				out[i] = []string{}
			}
		case QIDs:
			if x, ok := out[i].([]QID); ok && len(x) == 0 {
				out[i] = []QID{}
			}
		case Data:
			if x, ok := out[i].([]byte); ok && len(x) == 0 {
				out[i] = []byte{}
			}
		}
	}
	return out
}

// ParseVersion is this codec's own reading of a version string: ok is true
// for "9P2000.L" (n = 0) and "9P2000.L.Google.N" with N a decimal uint32.
func ParseVersion(s string) (n uint32, ok bool) {
	if s == "9P2000.L" {
		return 0, true
	}
	const pfx = "9P2000.L.Google."
	if len(s) <= len(pfx) || s[:len(pfx)] != pfx {
		return 0, false
	}
	var v uint64
	for _, c := range []byte(s[len(pfx):]) {
		if c < '0' || c > '9' {
			return 0, false
		}
		v = v*10 + uint64(c-'0')
		if v > 0xFFFFFFFF {
			return 0, false
		}
	}
	return uint32(v), true
}

// VersionString is the canonical spelling of version n.
func VersionString(n uint32) string {
	if n == 0 {
		return "9P2000.L"
	}
	return fmt.Sprintf("9P2000.L.Google.%d", n)
}
