// Package wire is an independent reference codec for 9P2000.L (+ .Google.N).
package wire
