// Package ev is the shared runner library: seeds, shards, case accounting,
// three-valued verdicts, evidence files, known-findings filtering.
package ev

import (
	"encoding/json"
	"fmt"
	"hash/fnv"
	"os"
	"path/filepath"
	"runtime"
	"sort"
	"strconv"
	"sync"
	"sync/atomic"
	"time"
)

// Rand is splitmix64: every generated case list is a function of the seed.
type Rand struct{ s uint64 }

func NewRand(seed uint64) *Rand { return &Rand{seed*0x9E3779B97F4A7C15 + 0x1234567} }

func (r *Rand) U64() uint64 {
	r.s += 0x9E3779B97F4A7C15
	z := r.s
	z = (z ^ (z >> 30)) * 0xBF58476D1CE4E5B9
	z = (z ^ (z >> 27)) * 0x94D049BB133111EB
	return z ^ (z >> 31)
}
func (r *Rand) Intn(n int) int {
	if n <= 0 {
		return 0
	}
	return int(r.U64() % uint64(n))
}
func (r *Rand) Bool() bool        { return r.U64()&1 == 1 }
func (r *Rand) Chance(p int) bool { return r.Intn(100) < p }
func (r *Rand) Fork(k uint64) *Rand {
	return &Rand{r.s ^ (k+1)*0xD6E8FEB86659FD93}
}
func (r *Rand) Bytes(n int) []byte {
	b := make([]byte, n)
	for i := 0; i < n; i += 8 {
		v := r.U64()
		for j := 0; j < 8 && i+j < n; j++ {
			b[i+j] = byte(v >> (8 * j))
		}
	}
	return b
}
func (r *Rand) Perm(n int) []int {
	p := make([]int, n)
	for i := range p {
		p[i] = i
	}
	for i := n - 1; i > 0; i-- {
		j := r.Intn(i + 1)
		p[i], p[j] = p[j], p[i]
	}
	return p
}

// Pick returns one element.
func Pick[T any](r *Rand, xs []T) T { return xs[r.Intn(len(xs))] }

// Violation is one refuting observation.
type Violation struct {
	Sig    string `json:"signature"`
	Detail any    `json:"detail"`
}

// Result is what one shard (child process) reports.
type Result struct {
	Evaluations  int64               `json:"evaluations"`
	Distinct     []uint64            `json:"distinct"`
	Nontrivial   []uint64            `json:"nontrivial"`
	Samples      []any               `json:"samples"`
	Violations   []Violation         `json:"violations"`
	Inconclusive []string            `json:"inconclusive"`
	Counters     map[string]int64    `json:"counters"`
	Sets         map[string][]string `json:"sets"`
	Notes        []string            `json:"notes"`
	Exhaustive   *bool               `json:"exhaustive,omitempty"`
	Done         bool                `json:"done"`
}

// Ctx is handed to a check running in one shard.
type Ctx struct {
	Prop    string
	Tier    string
	Seed    uint64
	Shard   int
	NShards int
	Dir     string // scratch/output directory of this shard
	ResPath string // where Finish writes (set by ChildMain)

	mu       sync.Mutex
	res      Result
	distinct map[uint64]struct{}
	nontriv  map[uint64]struct{}
	sets     map[string]map[string]struct{}
	vsigs    map[string]int
	curf     *os.File
	caseIdx  int64
}

func NewCtx(prop, tier string, seed uint64, shard, n int, dir string) *Ctx {
	c := &Ctx{Prop: prop, Tier: tier, Seed: seed, Shard: shard, NShards: n, Dir: dir,
		distinct: map[uint64]struct{}{}, nontriv: map[uint64]struct{}{},
		sets: map[string]map[string]struct{}{}, vsigs: map[string]int{}}
	c.res.Counters = map[string]int64{}
	if dir != "" {
		c.curf, _ = os.OpenFile(filepath.Join(dir, fmt.Sprintf("cur%d", shard)), os.O_CREATE|os.O_RDWR|os.O_TRUNC, 0644)
	}
	return c
}

func (c *Ctx) Quick() bool    { return c.Tier != "thorough" }
func (c *Ctx) Thorough() bool { return c.Tier == "thorough" }

// Sz picks a size by tier.
func (c *Ctx) Sz(quick, thorough int) int {
	if c.Thorough() {
		return thorough
	}
	return quick
}

// Rand returns the shard-independent PRNG for a named stream.
func (c *Ctx) Rand(stream string) *Rand {
	h := fnv.New64a()
	h.Write([]byte(stream))
	return NewRand(c.Seed ^ h.Sum64())
}

// Mine reports whether case number i belongs to this shard.
func (c *Ctx) Mine(i int) bool { return c.NShards <= 1 || i%c.NShards == c.Shard }

// Begin logs the case about to run so that a crash is attributable.
func (c *Ctx) Begin(desc string) {
	if c.curf == nil {
		return
	}
	c.mu.Lock()
	b := []byte(desc)
	if len(b) > 1<<16 {
		b = b[:1<<16]
	}
	c.curf.Truncate(0)
	c.curf.WriteAt(b, 0)
	c.mu.Unlock()
}

func H(s string) uint64 {
	h := fnv.New64a()
	h.Write([]byte(s))
	return h.Sum64()
}

// Case accounts one evaluated case. key is its canonical form (distinctness);
// nontrivial applies the property's stated rule.
func (c *Ctx) Case(key string, nontrivial bool) {
	atomic.AddInt64(&c.res.Evaluations, 1)
	h := H(key)
	c.mu.Lock()
	if len(c.distinct) < 4_000_000 {
		c.distinct[h] = struct{}{}
		if nontrivial {
			c.nontriv[h] = struct{}{}
		}
	}
	c.mu.Unlock()
}

// Sample keeps a few written-out cases.
func (c *Ctx) Sample(v any) {
	c.mu.Lock()
	if len(c.res.Samples) < 6 {
		c.res.Samples = append(c.res.Samples, v)
	}
	c.mu.Unlock()
}

// WantSample reports whether more samples are wanted (avoid formatting cost).
func (c *Ctx) WantSample() bool {
	c.mu.Lock()
	defer c.mu.Unlock()
	return len(c.res.Samples) < 6
}

func (c *Ctx) Count(name string, n int64) {
	c.mu.Lock()
	c.res.Counters[name] += n
	c.mu.Unlock()
}

func (c *Ctx) Max(name string, n int64) {
	c.mu.Lock()
	if c.res.Counters[name] < n {
		c.res.Counters[name] = n
	}
	c.mu.Unlock()
}

// SetAdd records a member of a named set (e.g. distinct event signatures).
func (c *Ctx) SetAdd(set, member string) {
	c.mu.Lock()
	m := c.sets[set]
	if m == nil {
		m = map[string]struct{}{}
		c.sets[set] = m
	}
	if len(m) < 200000 {
		m[member] = struct{}{}
	}
	c.mu.Unlock()
}

func (c *Ctx) Note(format string, a ...any) {
	c.mu.Lock()
	if len(c.res.Notes) < 50 {
		c.res.Notes = append(c.res.Notes, fmt.Sprintf(format, a...))
	}
	c.mu.Unlock()
}

// Violation records a refuting observation. sig must be specific and stable
// (no addresses, no random values): it is what known_findings.json matches.
func (c *Ctx) Violation(sig string, detail any) {
	c.mu.Lock()
	c.vsigs[sig]++
	if c.vsigs[sig] <= 3 && len(c.res.Violations) < 200 {
		c.res.Violations = append(c.res.Violations, Violation{sig, detail})
	}
	c.mu.Unlock()
}

func (c *Ctx) Violations() int {
	c.mu.Lock()
	defer c.mu.Unlock()
	n := 0
	for _, k := range c.vsigs {
		n += k
	}
	return n
}

func (c *Ctx) Inconclusive(why string) {
	c.mu.Lock()
	if len(c.res.Inconclusive) < 100 {
		c.res.Inconclusive = append(c.res.Inconclusive, why)
	}
	c.res.Counters["inconclusive"]++
	c.mu.Unlock()
}

func (c *Ctx) Exhaustive(b bool) {
	c.mu.Lock()
	c.res.Exhaustive = &b
	c.mu.Unlock()
}

// Par runs fn(i) for i in [0,n) that belong to this shard on up to w goroutines.
func (c *Ctx) Par(n, w int, fn func(i int)) {
	if w <= 0 {
		w = runtime.GOMAXPROCS(0)
	}
	var next int64 = -1
	var wg sync.WaitGroup
	for k := 0; k < w; k++ {
		wg.Add(1)
		go func() {
			defer wg.Done()
			for {
				i := int(atomic.AddInt64(&next, 1))
				if i >= n {
					return
				}
				if c.Mine(i) {
					fn(i)
				}
			}
		}()
	}
	wg.Wait()
}

// Abort ends this shard now, keeping what it observed so far. It is used
// after a livelock verdict: the spinning goroutines poison every later
// quiescence decision in this process.
func (c *Ctx) Abort(why string) {
	c.Note("shard %d ended early: %s", c.Shard, why)
	if c.ResPath != "" {
		c.Finish(c.ResPath)
	}
	os.Exit(0)
}

// Finish writes the shard result.
func (c *Ctx) Finish(path string) error {
	c.mu.Lock()
	defer c.mu.Unlock()
	c.res.Distinct = keys(c.distinct)
	c.res.Nontrivial = keys(c.nontriv)
	c.res.Sets = map[string][]string{}
	for k, m := range c.sets {
		var l []string
		for s := range m {
			l = append(l, s)
		}
		sort.Strings(l)
		c.res.Sets[k] = l
	}
	c.res.Done = true
	b, err := json.Marshal(&c.res)
	if err != nil {
		return err
	}
	return os.WriteFile(path, b, 0644)
}

func keys(m map[uint64]struct{}) []uint64 {
	r := make([]uint64, 0, len(m))
	for k := range m {
		r = append(r, k)
	}
	return r
}

// EnvSeed reads VERIF_SEED (default 1).
func EnvSeed() uint64 {
	if s := os.Getenv("VERIF_SEED"); s != "" {
		if v, err := strconv.ParseInt(s, 10, 64); err == nil {
			return uint64(v)
		}
	}
	return 1
}

// Watch runs fn and reports whether it finished within d. It is a watchdog
// only: its firing is never by itself a verdict.
func Watch(d time.Duration, fn func()) bool {
	done := make(chan struct{})
	go func() { fn(); close(done) }()
	select {
	case <-done:
		return true
	case <-time.After(d):
		return false
	}
}
