package ev

import (
	"bytes"
	"encoding/json"
	"fmt"
	"os"
	"os/exec"
	"path/filepath"
	"regexp"
	"sort"
	"strings"
	"syscall"
	"time"
)

// Spec describes one property check.
type Spec struct {
	ID     string
	Level  string // evidence level
	Rule   string // how cases are generated / what is non-trivial
	Assume []string
	Shards func(tier string) int
	Race   func(tier string) bool // run the shards under the race detector
	// RaceIsViolation: a race report with a library frame refutes this
	// property (its statement is about concurrent use). Otherwise library
	// races seen while running this check are printed and recorded in the
	// evidence, but they are C16's subject, not a verdict here.
	RaceIsViolation bool
	Timeout         func(tier string) time.Duration
	Run             func(c *Ctx)
	MinEvals        int64
}

var specs = map[string]*Spec{}

func Register(s *Spec) { specs[s.ID] = s }

func Specs() []string {
	var l []string
	for k := range specs {
		l = append(l, k)
	}
	sort.Strings(l)
	return l
}

// Finding is one entry of known_findings.json.
type Finding struct {
	Property  string `json:"property"`
	Signature string `json:"signature"`
	Status    string `json:"status"` // "known" | "fixed"
	Commit    string `json:"commit,omitempty"`
	What      string `json:"what"`
}

// Root is the framework directory (/verif, or a snapshot of it under vp run).
var Root = func() string {
	if r := os.Getenv("VERIF_ROOT"); r != "" {
		return r
	}
	return "/verif"
}()

// loadFindings parses /verif/known_findings.txt. Lines:
//
//	known: property=<id> signature=<sig> <what fails>
//	fixed: property=<id> <commit> <what failed>
//
// Only "known" lines suppress anything, and only the exact signature.
func loadFindings() []Finding {
	b, err := os.ReadFile(filepath.Join(Root, "known_findings.txt"))
	if err != nil {
		return nil
	}
	var out []Finding
	for _, l := range strings.Split(string(b), "\n") {
		l = strings.TrimSpace(l)
		if !strings.HasPrefix(l, "known:") {
			continue
		}
		f := Finding{Status: "known"}
		rest := strings.Fields(strings.TrimPrefix(l, "known:"))
		var what []string
		for _, w := range rest {
			switch {
			case strings.HasPrefix(w, "property=") && f.Property == "":
				f.Property = strings.TrimPrefix(w, "property=")
			case strings.HasPrefix(w, "signature=") && f.Signature == "":
				f.Signature = strings.TrimPrefix(w, "signature=")
			default:
				what = append(what, w)
			}
		}
		f.What = strings.Join(what, " ")
		if f.Property != "" && f.Signature != "" {
			out = append(out, f)
		}
	}
	return out
}

// ChildMain is the entry of a shard process: harness child <id> <shard> <n> <dir>.
func ChildMain(id string, shard, n int, dir string) int {
	s := specs[id]
	if s == nil {
		fmt.Fprintln(os.Stderr, "unknown check", id)
		return 3
	}
	tier := os.Getenv("VERIF_TIER")
	if tier == "" {
		tier = "quick"
	}
	c := NewCtx(id, tier, EnvSeed(), shard, n, dir)
	c.ResPath = filepath.Join(dir, fmt.Sprintf("res%d.json", shard))
	s.Run(c)
	if err := c.Finish(c.ResPath); err != nil {
		fmt.Fprintln(os.Stderr, "finish:", err)
		return 3
	}
	return 0
}

var raceHdr = regexp.MustCompile(`(?m)^WARNING: DATA RACE`)

// raceReports parses race-detector logs: returns deduplicated signatures of
// reports that have a frame in /repo, and the count of harness-only reports.
func raceReports(dir string) (repo map[string]string, harnessOnly int, total int) {
	repo = map[string]string{}
	files, _ := filepath.Glob(filepath.Join(dir, "race.*"))
	frame := regexp.MustCompile(`(?m)^\s+(\S+)\(\)\n\s+(\S+):(\d+)`)
	for _, fn := range files {
		b, err := os.ReadFile(fn)
		if err != nil {
			continue
		}
		blocks := strings.Split(string(b), "==================")
		for _, blk := range blocks {
			if !raceHdr.MatchString(blk) {
				continue
			}
			total++
			// Attribution. The two access stacks are the first two parts after the
			// split. A report counts against the library when the innermost frame
			// of either access is library code, or is runtime code (memmove on a
			// buffer) reached through the library; when the innermost frames are
			// harness code (a backend's own fields) it is a harness bug.
			parts := regexp.MustCompile(`(?m)^(Previous |Read |Write |Atomic )`).Split(blk, -1)
			var sigs []string
			lib := false
			for pi, p := range parts {
				if pi == 0 || pi > 2 {
					continue
				}
				if i := strings.Index(p, "\nGoroutine "); i >= 0 {
					p = p[:i]
				}
				ms := frame.FindAllStringSubmatch(p, -1)
				if len(ms) == 0 {
					continue
				}
				top := ms[0]
				viaRepo := ""
				for _, m := range ms {
					if strings.Contains(m[2], "/repo/") {
						viaRepo = m[1]
						break
					}
				}
				switch {
				case strings.Contains(top[2], "/repo/"):
					lib = true
					sigs = append(sigs, top[1])
				case strings.Contains(top[2], "/src/runtime/") || strings.Contains(top[2], "/src/internal/"):
					if viaRepo != "" {
						lib = true
						sigs = append(sigs, viaRepo)
					}
				default:
					if viaRepo != "" {
						sigs = append(sigs, "via:"+viaRepo)
					}
				}
			}
			if !lib {
				harnessOnly++
				continue
			}
			sort.Strings(sigs)
			sig := "race:" + strings.Join(sigs, "|")
			if _, ok := repo[sig]; !ok {
				if len(blk) > 6000 {
					blk = blk[:6000]
				}
				repo[sig] = blk
			}
		}
	}
	return
}

func build(id string, race bool) (string, error) {
	out := filepath.Join(Root, ".bin", "h-"+id)
	args := []string{"build", "-tags", "verif"}
	if race {
		out += "-race"
		args = append(args, "-race")
	}
	args = append(args, "-o", out, "./cmd/harness")
	cmd := exec.Command("go", args...)
	cmd.Dir = Root
	cmd.Env = append(os.Environ(), "GOFLAGS=-mod=mod", "GOPROXY=off", "GOSUMDB=off", "GOTOOLCHAIN=local")
	// see check.sh: no build while tools/seed_eval.sh has a seeded change applied to /repo
	if os.Getenv("VERIF_NO_BUILD_LOCK") == "" {
		if lf, lerr := os.OpenFile("/repo/.git/verif-build.lock", os.O_CREATE|os.O_RDWR, 0644); lerr == nil {
			if syscall.Flock(int(lf.Fd()), syscall.LOCK_EX) == nil {
				defer syscall.Flock(int(lf.Fd()), syscall.LOCK_UN)
			}
			defer lf.Close()
		}
	}
	b, err := cmd.CombinedOutput()
	if err != nil {
		return "", fmt.Errorf("go build failed: %v\n%s", err, b)
	}
	return out, nil
}

// ParentMain runs a check: shards, merge, findings filter, evidence.
func ParentMain(id string) int {
	s := specs[id]
	if s == nil {
		fmt.Println("unknown check", id)
		return 3
	}
	tier := os.Getenv("VERIF_TIER")
	if tier != "thorough" {
		tier = "quick"
	}
	seed := EnvSeed()
	start := time.Now()
	n := 1
	if s.Shards != nil {
		n = s.Shards(tier)
	}
	race := s.Race != nil && s.Race(tier)
	self, _ := os.Executable()
	bin := self
	if race {
		var err error
		bin, err = build(id, true)
		if err != nil {
			fmt.Println("BROKEN-CHECK:", err)
			return 2
		}
	}
	dir := filepath.Join(Root, ".scratch", fmt.Sprintf("%s-%d", id, os.Getpid()))
	os.RemoveAll(dir)
	if err := os.MkdirAll(dir, 0755); err != nil {
		fmt.Println("BROKEN-CHECK:", err)
		return 2
	}
	keep := false
	defer func() {
		if !keep {
			os.RemoveAll(dir)
		}
	}()
	to := 10 * time.Minute
	if s.Timeout != nil {
		to = s.Timeout(tier)
	}
	type child struct {
		cmd  *exec.Cmd
		done chan error
		log  string
	}
	var kids []*child
	for i := 0; i < n; i++ {
		cmd := exec.Command(bin, "child", id, fmt.Sprint(i), fmt.Sprint(n), dir)
		logp := filepath.Join(dir, fmt.Sprintf("log%d", i))
		lf, _ := os.Create(logp)
		cmd.Stdout, cmd.Stderr = lf, lf
		cmd.Env = append(os.Environ(), "VERIF_TIER="+tier, fmt.Sprintf("VERIF_SEED=%d", int64(seed)),
			"GOTRACEBACK=all")
		procs := 16 / n
		if procs < 2 {
			procs = 2
		}
		if os.Getenv("GOMAXPROCS") == "" {
			cmd.Env = append(cmd.Env, fmt.Sprintf("GOMAXPROCS=%d", procs))
		}
		if race {
			cmd.Env = append(cmd.Env, "GORACE=halt_on_error=0 exitcode=0 log_path="+filepath.Join(dir, fmt.Sprintf("race.%d", i)))
		}
		if err := cmd.Start(); err != nil {
			fmt.Println("BROKEN-CHECK: start child:", err)
			return 2
		}
		k := &child{cmd: cmd, done: make(chan error, 1), log: logp}
		go func() { k.done <- cmd.Wait(); lf.Close() }()
		kids = append(kids, k)
	}
	deadline := time.After(to)
	var merged Result
	merged.Counters = map[string]int64{}
	distinct := map[uint64]struct{}{}
	nontriv := map[uint64]struct{}{}
	sets := map[string]map[string]struct{}{}
	var viols []Violation
	crashed, timedOut := 0, 0
	for i, k := range kids {
		var err error
		select {
		case err = <-k.done:
		case <-deadline:
			// Watchdog: ask for a goroutine dump, then kill.
			k.cmd.Process.Signal(syscall.SIGQUIT)
			select {
			case err = <-k.done:
			case <-time.After(20 * time.Second):
				k.cmd.Process.Kill()
				err = <-k.done
			}
			timedOut++
			deadline = time.After(time.Second)
			cur, _ := os.ReadFile(filepath.Join(dir, fmt.Sprintf("cur%d", i)))
			lg := tail(k.log, 30000)
			if allBlockedDump(lg) {
				viols = append(viols, Violation{"hang:shard-watchdog-all-blocked", map[string]any{"case": string(cur), "log_tail": lg}})
			} else {
				merged.Inconclusive = append(merged.Inconclusive, fmt.Sprintf("shard %d watchdog (%v) fired with runnable goroutines; case=%s", i, to, cut(string(cur), 300)))
			}
			continue
		}
		rb, rerr := os.ReadFile(filepath.Join(dir, fmt.Sprintf("res%d.json", i)))
		var r Result
		if rerr == nil {
			rerr = json.Unmarshal(rb, &r)
		}
		if err != nil || rerr != nil || !r.Done {
			crashed++
			cur, _ := os.ReadFile(filepath.Join(dir, fmt.Sprintf("cur%d", i)))
			lg := tail(k.log, 30000)
			sig := "crash:" + crashSig(lg)
			viols = append(viols, Violation{sig, map[string]any{"exit": fmt.Sprint(err), "case": string(cur), "log_tail": lg}})
			if rerr != nil {
				continue
			}
		}
		merged.Evaluations += r.Evaluations
		for _, h := range r.Distinct {
			distinct[h] = struct{}{}
		}
		for _, h := range r.Nontrivial {
			nontriv[h] = struct{}{}
		}
		for _, sm := range r.Samples {
			if len(merged.Samples) < 8 {
				merged.Samples = append(merged.Samples, sm)
			}
		}
		viols = append(viols, r.Violations...)
		merged.Inconclusive = append(merged.Inconclusive, r.Inconclusive...)
		for k, v := range r.Counters {
			if strings.HasPrefix(k, "max_") {
				if merged.Counters[k] < v {
					merged.Counters[k] = v
				}
			} else {
				merged.Counters[k] += v
			}
		}
		for k, l := range r.Sets {
			m := sets[k]
			if m == nil {
				m = map[string]struct{}{}
				sets[k] = m
			}
			for _, x := range l {
				m[x] = struct{}{}
			}
		}
		merged.Notes = append(merged.Notes, r.Notes...)
		if r.Exhaustive != nil {
			if merged.Exhaustive == nil || !*r.Exhaustive {
				merged.Exhaustive = r.Exhaustive
			}
		}
	}
	raceTotal, raceHarness := 0, 0
	var raceNotes []string
	if race {
		var repo map[string]string
		repo, raceHarness, raceTotal = raceReports(dir)
		for sig, blk := range repo {
			if s.RaceIsViolation {
				viols = append(viols, Violation{sig, map[string]any{"race_report": blk}})
			} else {
				fmt.Printf("RACE-REPORT (library race seen during %s; not a verdict for this property, see C16): %s\n", id, sig)
				raceNotes = append(raceNotes, sig)
			}
		}
	}

	// Findings filter.
	findings := loadFindings()
	known := map[string]Finding{}
	for _, f := range findings {
		if f.Property == id && f.Status == "known" {
			known[f.Signature] = f
		}
	}
	bysig := map[string][]Violation{}
	var order []string
	for _, v := range viols {
		if _, ok := bysig[v.Sig]; !ok {
			order = append(order, v.Sig)
		}
		bysig[v.Sig] = append(bysig[v.Sig], v)
	}
	sort.Strings(order)
	nviol := 0
	var knownSeen []string
	os.MkdirAll(filepath.Join(Root, "replays"), 0755)
	for _, sig := range order {
		if f, ok := known[sig]; ok {
			fmt.Printf("KNOWN-FINDING: property=%s %s (%s)\n", id, sig, f.What)
			knownSeen = append(knownSeen, sig)
			continue
		}
		nviol++
		rp := filepath.Join(Root, "replays", fmt.Sprintf("%s-%016x.json", id, H(sig)))
		rb, _ := json.MarshalIndent(map[string]any{
			"property": id, "signature": sig, "seed": int64(seed), "tier": tier,
			"replay_cmd": fmt.Sprintf("VERIF_SEED=%d VERIF_TIER=%s ./check.sh %s", int64(seed), tier, id),
			"witnesses":  bysig[sig],
		}, "", " ")
		os.WriteFile(rp, rb, 0644)
		fmt.Printf("VIOLATION property=%s replay=%s\n", id, rp)
		fmt.Printf("  signature: %s\n", sig)
		if d, err := json.Marshal(bysig[sig][0].Detail); err == nil {
			fmt.Printf("  witness: %s\n", cut(string(d), 1500))
		}
	}

	// Evidence.
	cov := map[string]any{
		"evaluations":         merged.Evaluations,
		"distinct_nontrivial": len(nontriv),
		"distinct_cases":      len(distinct),
		"rule":                s.Rule,
		"samples":             merged.Samples,
		"shards":              n,
		"race_detector":       race,
		"inconclusive":        len(merged.Inconclusive),
		"child_crashes":       crashed,
		"watchdog_timeouts":   timedOut,
		"known_findings_seen": append([]string{}, knownSeen...),
	}
	if race {
		cov["race_reports_total"] = raceTotal
		cov["race_reports_harness_only"] = raceHarness
		cov["race_reports_library_not_judged_here"] = append([]string{}, raceNotes...)
	}
	if len(merged.Inconclusive) > 0 {
		l := merged.Inconclusive
		if len(l) > 10 {
			l = l[:10]
		}
		cov["inconclusive_samples"] = l
	}
	for k, v := range merged.Counters {
		cov["n_"+k] = v
	}
	for k, m := range sets {
		cov["distinct_"+k] = len(m)
		if len(m) <= 40 {
			var l []string
			for x := range m {
				l = append(l, x)
			}
			sort.Strings(l)
			cov["set_"+k] = l
		}
	}
	if len(merged.Notes) > 0 {
		cov["notes"] = dedup(merged.Notes)
	}
	if merged.Exhaustive != nil {
		cov["exhaustive"] = *merged.Exhaustive
	}
	if len(merged.Samples) == 0 {
		cov["samples"] = []any{}
	}
	evd := map[string]any{
		"property_id": id, "tier": tier, "seed": int64(seed), "level": s.Level,
		"coverage": cov, "assumptions": s.Assume,
		"wall_s": time.Since(start).Seconds(), "violations": nviol,
	}
	os.MkdirAll(filepath.Join(Root, "evidence"), 0755)
	eb, _ := json.MarshalIndent(evd, "", " ")
	os.WriteFile(filepath.Join(Root, "evidence", id+".json"), eb, 0644)

	fmt.Printf("%s tier=%s seed=%d evaluations=%d distinct=%d nontrivial=%d inconclusive=%d violations=%d known=%d wall=%.1fs\n",
		id, tier, int64(seed), merged.Evaluations, len(distinct), len(nontriv), len(merged.Inconclusive), nviol, len(knownSeen), time.Since(start).Seconds())
	if nviol > 0 {
		return 1
	}
	if raceHarness > 0 {
		keep = true
		fmt.Printf("BROKEN-CHECK: %d race reports entirely inside harness code (see %s)\n", raceHarness, dir)
		return 2
	}
	if timedOut > 0 && merged.Evaluations == 0 {
		fmt.Println("INCONCLUSIVE: watchdog fired and nothing was observed")
		return 2
	}
	if merged.Evaluations < max64(1, s.MinEvals) || len(nontriv) < 2 {
		fmt.Printf("INCONCLUSIVE: observed too little (evaluations=%d nontrivial=%d)\n", merged.Evaluations, len(nontriv))
		return 2
	}
	return 0
}

func max64(a, b int64) int64 {
	if a > b {
		return a
	}
	return b
}

func dedup(l []string) []string {
	seen := map[string]bool{}
	var r []string
	for _, x := range l {
		if !seen[x] {
			seen[x] = true
			r = append(r, x)
		}
	}
	return r
}

func cut(s string, n int) string {
	if len(s) > n {
		return s[:n] + "…"
	}
	return s
}

func tail(path string, n int) string {
	b, err := os.ReadFile(path)
	if err != nil {
		return ""
	}
	if len(b) > n {
		// keep head (panic message) and tail
		h := b[:n/2]
		t := b[len(b)-n/2:]
		return string(h) + "\n...\n" + string(t)
	}
	return string(b)
}

var crashRe = regexp.MustCompile(`(?m)^(fatal error: .*|panic: .*|SIGSEGV.*|unexpected fault address.*)$`)

func crashSig(log string) string {
	if m := crashRe.FindString(log); m != "" {
		m = regexp.MustCompile(`0x[0-9a-f]+`).ReplaceAllString(m, "0x?")
		m = regexp.MustCompile(`\d{3,}`).ReplaceAllString(m, "N")
		return cut(m, 120)
	}
	return "child-exited-abnormally"
}

// allBlockedDump reports whether a SIGQUIT goroutine dump shows no goroutine
// in p9 code that is running or runnable (i.e. a stable deadlock).
func allBlockedDump(log string) bool {
	i := strings.Index(log, "SIGQUIT")
	if i < 0 {
		return false
	}
	gs := strings.Split(log[i:], "\n\ngoroutine ")
	sawP9 := false
	for _, g := range gs {
		if !strings.Contains(g, "github.com/hugelgupf/p9/") {
			continue
		}
		sawP9 = true
		hdr := g
		if j := strings.Index(g, "\n"); j >= 0 {
			hdr = g[:j]
		}
		if strings.Contains(hdr, "[running") || strings.Contains(hdr, "[runnable") || strings.Contains(hdr, "[syscall") || strings.Contains(hdr, "[sleep") {
			return false
		}
	}
	return sawP9
}

var _ = bytes.MinRead
