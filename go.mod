module verif

go 1.21

require (
	github.com/anishathalye/porcupine v1.3.0
	github.com/hugelgupf/p9 v0.0.0
	github.com/u-root/uio v0.0.0-20230305220412-3e8cd9d6bf63
)

require (
	golang.org/x/exp v0.0.0-20231219180239-dc181d75b848 // indirect
	golang.org/x/sys v0.15.0 // indirect
)

replace github.com/hugelgupf/p9 => /repo
