#!/usr/bin/env python3
"""Regenerates /verif/MANIFEST.json from the table below (claimed checks) and
properties.jsonl (everything else goes to not_applicable with a reason)."""
import json, subprocess

CLAIMS = {
 # id: (category, technique, level text, level note, design_ref)
 "C09": ("exploration", "online name monitor in an instrumented backend + reply oracle, hostile-string grid over every name position",
         "Every name position of every name-bearing T-message (and attach names, walks through non-directories) is driven with a hostile/legal string set against the real server; the backend's online monitor sees every name argument and Walk receiver, the raw peer checks EINVAL and an unchanged tree. Held on the positions x string classes enumerated; PRNG strings added in thorough.",
         "Trusts memfs (harness backend) to report names faithfully and the reference codec; string space is represented by classes, not exhausted.", "DESIGN.md section 3 C09"),
 "C12": ("exploration", "raw-peer reply oracle (server) and request-stream monitor on a fake server (client) over a (msize, version string) grid",
         "Server: every pair of a boundary grid of msize values and ~120 (thorough: 2*10^4) version strings is sent as Tversion on fresh connections, mid-session and repeatedly, and the Rversion compared with the rule computed by an independent parser. Client: NewClient against scripted Rversion/Rlerror replies, then every client method exercised with the request-stream monitor checking frame sizes and message types against what was announced.",
         "Trusts internal/wire's own version parser as the reference reading; leading-zero and >2^32 numbers are treated as ambiguous (both readings accepted).", "DESIGN.md section 3 C12"),
 "C13": ("exploration", "reply-stream / request-stream size monitors over an msize x count x object-size grid, data compared with a synthetic file",
         "Server: msize grid x Tread/Treaddir count grid (0 .. 2^32-1) x file/directory sizes on both sides of the limit; every reply's size field is checked against the announced msize and its data/entries against the backend content (shortened, never wrong, never empty while something fits). Client: ReadAt/WriteAt/Readdir/GetXattr of sizes around and far above the limit against a fake server announcing less than requested; every request frame and requested reply size is checked.",
         "Trusts the reference codec's size accounting and net.Pipe; only Rread/Rreaddir are bound by the statement.", "DESIGN.md section 3 C13"),
 "C19": ("exploration", "paged-listing oracle (multiset of names vs ground truth, QID/type vs Walk+GetAttr) over real localfs directories, staticfs, composefs; direct and through client+server",
         "Directory sizes 0..600 (thorough 5000) x name lengths 1/8/255/mixed x counts from one entry to 2^32-1 (direct: entry counts; served: byte counts around one/two entries, msize-11, beyond msize; msize 4K/64K/1M) for localfs temp directories, staticfs, flat and nested composefs. Every listing follows the Offset protocol and is compared as a multiset with ground truth; sampled entries are re-walked and their QID/type compared.",
         "Real temp directories under /verif/.scratch; directories are static while listed; QID agreement is sampled (<= 64 entries) for large directories.", "DESIGN.md section 3 C19"),
 "C20": ("exploration", "stability/injectivity oracle on hooked mapping + Go race detector on concurrent mapper/composefs workloads + exhaustive mode round trip",
         "localfs (dev, ino) mapping evaluated through a verif hook on ~2*10^4 pairs of every class, repeated sequentially and from 8 goroutines (stability and injectivity by hash map); real files of every creatable type for QID type vs mode; qids.Mapper and composefs/staticfs served to 16 concurrent clients on 4 connections under the race detector (both tiers); FileMode<->os.FileMode round trip exhaustive over 7 types x 4096 permission values.",
         "Race detector reports with a frame under /repo count as violations; the hook calls the real localToQid with a synthetic FileInfo.", "DESIGN.md section 3 C20"),
 "C17": ("exploration", "differential delivery: same byte stream under chosen segmentations on a cut-imposing io.Reader and on a paced AF_UNIX socket pair, compared with the unsegmented run",
         "Streams of 1-6 independent frames are delivered to a real server under every single cut and every pair of cuts (streams <= 120 bytes), one byte at a time, cuts at header bytes 1-7 / fixed-payload boundary and PRNG cut sets for long streams, and truncated at every offset with EOF (separately and with the last bytes); on the generic path and on a socket pair (recvmsg path, each segment consumed before the next is written). Replies by tag, backend-observed payload bytes and the backend call multiset must equal the unsegmented run. The same for a real client receiving segmented Rread/Rreaddir/Rgetattr/Rwalk/Rreadlink replies.",
         "The unsegmented delivery is the reference; socket segment boundaries rely on TIOCINQ polling of the receiver's queue.", "DESIGN.md section 3 C17"),
 "C02": ("exploration", "reference-codec referee over hostile frame sequences at a lock-step raw peer, alignment probes, consumed-byte and allocation accounting; hostile replies to a real client",
         "Every frame of sequences mixing good frames with each class of bad frame (unknown type, short body at every offset, inflated counts, bit flips, R-types, random bodies, payload-count mismatch) is refereed by the independent codec: well-delimited invalid frames must be answered Rlerror (tag or NOTAG) and an alignment probe after each frame must come back intact; size fields below 7 / above msize (before and after negotiation) must end the connection with 0 body bytes consumed, no reply, no backend call and no allocation; TotalAlloc deltas bound buffering. A real client is fed the same classes as replies to a pending call: it must return (error or exactly the encoded values), never hang or crash.",
         "Trusts the reference codec's notion of validity and net.Pipe byte accounting; the allocation bound is a coarse proxy (slack 16 MiB); exact delivered values are checked in C01/C18.", "DESIGN.md section 3 C02"),
 "C06": ("exploration", "incremental reply-stream monitor under yielding per-vector writes + gated batches in every release order + head-of-line oracle on a rendezvous matrix decided by process quiescence",
         "Reply storms (2-256 in flight, 1-3 vector replies, adversarial tags with immediate re-use, 1-4 connections) through a writer that forwards and yields on every Write: the byte stream must parse as whole frames, each request answered once with its own tag and a legal type, nothing unsolicited; k<=4 requests parked in the backend released in every order; every flavour of Tflush answered once; 8/64/200 requests parked then one more served; and for every cell of the (A parked, B issued) matrix where the contract does not order B after A (unrelated paths, read/read on one path, StatFS/Lock), B must complete while A is parked - B observed parked inside p9 with the whole process quiet is the violation.",
         "Hangs are decided from stable all-parked goroutine dumps; interleavings between harness-visible events are sampled, not enumerated. Parent/child relations are not judged by the head-of-line oracle.", "DESIGN.md section 3 C06"),
 "C07": ("exploration", "online overlap monitor (interval intersection on a logical clock) in an instrumented backend, driven by a pairwise rendezvous matrix with gates",
         "Every ordered pair of 23 backend-reaching operations (+ attach) x path relation is forced to rendezvous: A is parked inside its backend call, B is issued and observed until it entered the backend, was answered, or the process is quiet. The backend's monitor flags any pair of calls whose intervals intersect and which the File contract forbids (write/write, write/read on one path, UnlinkAt vs calls on the removed entry, RenameAt/Renamed vs anything classified), and any second Open on a handle; 2-4 concurrent Tlopen on one fid.",
         "Receiver paths are those memfs derives from Renamed notifications; hard links are excluded; the second operand of a pair is only parked-against, not itself parked (the matrix is ordered, so both orders are covered).", "DESIGN.md section 3 C07"),
 "C14": ("exploration", "logical-clock ordering oracle: Rflush arrival vs enter/exit of the flushed request's backend calls, over every order of 4-event scripts with gates",
         "13 kinds of request A (incl. multi-component walks parked at each component, renames parked in RenameAt and in Renamed, clunk parked in Close) are parked in the backend with an unrelated B; all 24 orders of {send Tflush(A), release A, release B, unrelated traffic}, plus two flushes for one tag and chains. Reply arrivals and backend enter/exit share one logical clock: every Rflush must be later than the exit of every call made on A's behalf and no such call may begin after it; A gets exactly one reply; flushes of idle/answered/own/NOTAG tags are answered while B is still parked.",
         "Calls are attributed to A by construction; reply stamps are taken when the peer parsed the frame (never earlier than the send), so timing can only reduce sensitivity.", "DESIGN.md section 3 C14"),
 "C04": ("exploration", "executable session model (sets of acceptable outcomes) vs a real server at a lock-step raw peer: bounded-exhaustive breadth-first over (model state, request) edges + long PRNG sequences with fid-table probes after every step",
         "Breadth-first to depth 4 (thorough 5) after attach over ~75 requests, every (state, request) edge executed on a fresh server and judged by the model: unbound fid -> EBADF without backend call, bind-on-success with replace-and-release, clunk/remove always unbind, create rebinding, open-once/openable types/EISDIR, EINVAL unopened / EPERM wrong mode, xattr sub-protocols, EBUSY/EINVAL on opened directory fids, Tauth ENOSYS, auth-fid attach EINVAL; forwarded requests must answer with the errno of the failing backend call or the success type. PRNG sequences of 150-1500 requests; after each step Tgetattr on every small fid (EBADF iff unbound).",
         "internal/model is the reference (written from the statement); requests whose outcome the statement leaves open are not sent; memfs is the backend.", "DESIGN.md section 3 C04"),
 "C08": ("exploration", "object-identity probes through a path-bound backend after every step of model-guided BFS and PRNG rename/unlink sequences; model-judged fencing; path-tree consistency hook",
         "A backend whose handles resolve a remembered path at every call (updated only by Renamed) exposes inode numbers in QID.path. Breadth-first (depth 3, thorough 4, from fids on nested paths) over ~50 rename/unlink/create/walk/clone/open requests and PRNG sequences over two connections; after every step every live unfenced fid is probed (must reach the object it was bound to and the one at the model's current path), fenced fids are judged by the model (ENOENT for child walks, EINVAL otherwise, no backend call; open I/O continues), later fids on re-created names must be unfenced, Trename/Tremove must use the current name (the backend acts on what it is told); VerifTreeCheck after each step. Half of the runs use a backend that removes non-empty directories so that fids strictly below an unlinked path exist.",
         "Trusts memfs' localfs-like path semantics and the model's prefix rewriting; getattr on fenced fids and readdir on fenced open directories are don't-care.", "DESIGN.md section 3 C08"),
 "C15": ("fault_enumeration", "exhaustive enumeration of fault indices (error and panic at every backend call) over base sequences, judged by the session model, fid probes, a second connection and the lifecycle monitor",
         "For each base sequence the fault-free run counts backend calls c; the sequence is re-run with the fault at every index 1..c as an error (12 error shapes rotating) and as a panic. Faulted request -> Rlerror(errno) / EFAULT; after an error the model keeps judging every reply and the fid table is probed after every step (request had no effect; clunk/remove still unbind); a second connection is served after every step; afterwards walks over the same paths from another connection must be answered (lock leaks -> decided by quiescence); when the connections end every handle must have been closed exactly once, never used after Close.",
         "Faults are applied before the backend mutates anything; after a panic only liveness is demanded; teardown-time faults are not injected.", "DESIGN.md section 3 C15"),
 "C05": ("exploration", "lifecycle monitor in an instrumented backend (Close count, use after Close, Close during a call) + Handle-return / goroutine-leak / path-tree-reference checks, over cut points, in-flight disconnects, clunk races and cross-connection teardown races with gates",
         "PRNG sessions ended by disconnect with fids bound; scripted sessions replayed truncated at every frame boundary +-1 and every 7th byte (thorough: every byte) followed by EOF; 1-8 requests parked in the backend when the connection is cut, released in every order (handler exits must precede teardown Close and Handle's return on the logical clock); clunk/remove/fid-replacement racing a parked operation on the same fid; a connection ending while another is parked in RenameAt/Renamed/UnlinkAt for entries it holds; a rename notifying files while a dying connection is parked inside their Close. After all connections ended: every handle closed exactly once, nothing called after Close began, no Close during a call, Handle returned (quiescence decides), no p9 goroutine left, zero references left in the server's path tree.",
         "Backend errors at every call index are covered by C15's lifecycle accounting; schedules not forced by gates are sampled.", "DESIGN.md section 3 C05"),
 "C11": ("exploration", "chunk-log oracle: the backend's per-chunk (length, offset) log and the client's (n, err, bytes) replayed against a byte-slice model under scripted short counts and errors",
         "Real client and server over a backend file whose content is a function of the offset; grid of 10 msize values (from the smallest accepted) x buffer lengths around multiples of the observed chunk size x offsets (0, EOF+-1, 2^32+-1, 2^40) x file sizes on both sides of off+len x a fault (error, 0, 1 or L-1 bytes) on each of the first chunks. Chunks must be in order, contiguous, within msize-11 / msize-23, none after the first short or failed chunk, none missing; returned count = sum of chunk counts; the failed chunk's errno is what the caller sees; io.EOF only if n < len(p) and always if n == 0 < len(p); bytes equal the file; stored bytes equal p[:n].",
         "memfs call log is what the server forwarded; writes are content-checked below 1 MiB offsets, by chunk arguments above.", "DESIGN.md section 3 C11"),
 "C10": ("exploration", "request-stream monitor on a scripted fake server (tags, fids) + own-reply oracle under every reply permutation + porcupine linearizability of allocator histories + fault injection at every reply point with quiescence/livelock-decided hangs",
         "Reply contents are a function of the request, so every caller can tell its own reply: k<=5 concurrent calls answered in every order, PRNG orders up to k=128 incl. replies released before other callers sent; the allocator is enumerated through a verif hook (all Get/Put sequences to length 8-10 over five ranges) and its concurrent histories (8 goroutines) are checked with porcupine against a free-set model; at each of the 6 reply points of a concurrent session the server closes / sends half a frame / breaks only the client's write side / sends size<7, size>msize, an unknown tag, a wrong R-type, an undecodable body or garbage: pending (and after a break later) calls must fail, never hang (quiescence or CPU-burning livelock), never return success or foreign data, and a second healthy client in the same process must stay undisturbed; walk/clunk/xattr churn with refused binds and failed clunks for fid re-use accounting.",
         "Fake server replies are deterministic functions of request bodies; a bad size field is treated as 'frame the client cannot accept' (pending calls fail), not as a break.", "DESIGN.md section 3 C10"),
 "C01": ("exploration", "three-view differential: caller's values vs bytes parsed by an independent reference codec vs values reconstructed by the receiver, at a tap between real client and server and at a raw peer over a recording backend",
         "At versions 0..7 every client method is called with full-range generated arguments: the request frame must decode strictly to the arguments in the specified field order and be byte-identical to the reference encoding; the reply must be byte-identical to the reference encoding of the recording backend's (full-range) results and the caller must get them back. A raw peer sends all 2^14 AttrMask and 2^9 SetAttrMask patterns, boundary-length strings (0..65535 arbitrary bytes) in every string position, walks of 0..200 components, payloads around the msize bound and sentinel values; backend-recorded arguments and reply bytes are compared with the reference. Only permissions & 07777 and whole-entry directory replies may differ.",
         "internal/wire (written from the protocol documents, no code shared with p9) is the reference; types the client never issues and the server never handles (R-types to the server) are covered by C02's referee only.", "DESIGN.md section 3 C01"),
 "C03": ("exploration", "call-log oracle on a recording backend behind a real client/server pair with a version-rewriting tap; independent errno reading for 21 error shapes",
         "For each of versions 0..7, many worlds: every issuing client method (24) on handles derived by attach, walk (0-4 components), clone and create must produce exactly the specified backend call(s) on the File the handle was derived from with equal arguments (permissions & 07777, uid/gid dropped below version 3, walks one component at a time on the returned Files, Rename/Remove as RenameAt/UnlinkAt on the parent under the current name, whole directory entries within the count, io.EOF for an empty read), must hand back the backend's results unchanged and its errors as the errno found through the wrapped chain (EIO if none); SetXattr/RemoveXattr stay local (ENOSYS); only message types the negotiated version defines may cross the tap.",
         "recfs deep-copies arguments; checks/errno.go is the reference reading of 'equivalent errno'; I/O chunking is C11's.", "DESIGN.md section 3 C03"),
 "C18": ("exploration", "per-frame oracle (reference decode/encode of that frame alone) over histories with shrinking/growing variable parts interleaved across connections on a recording backend",
         "Long -> short -> empty -> long ladders for name lists, strings and payloads of 11 message kinds, in deterministic and shuffled order, interleaved over 1-4 connections of one server, with frames rejected mid-decode and msize renegotiation in between; reads through a backend that reports n bytes but fills only n/2 (the rest must be zero, not an earlier reply's bytes); xattr values assembled from two Twrite frames. Backend-observed arguments and reply bytes must match what the reference codec derives from that frame alone. Thorough adds concurrent connections under the race detector.",
         "recfs deep-copies at call time; a backend that retains buffers is out of scope.", "DESIGN.md section 3 C18"),
}

PENDING = "check under construction in this round (DESIGN.md section 3); will be claimed once its monitor is committed and silent on the repaired tree"

def main():
    props = [json.loads(l) for l in open('/verif/properties.jsonl')]
    commits = subprocess.run(['git','-C','/repo','log','--format=%h %s'],capture_output=True,text=True).stdout.splitlines()
    hook_commits = [c.split()[0] for c in commits if c.split(' ',1)[1].startswith('verif:')]
    checks = []
    na = []
    for p in props:
        i = p['id']
        if i in CLAIMS:
            cat, tech, text, note, ref = CLAIMS[i]
            checks.append({
                "property_id": i,
                "quick_cmd": f"./check.sh {i} quick",
                "thorough_cmd": f"./check.sh {i} thorough",
                "evidence_file": f"/verif/evidence/{i}.json",
                "replay_cmd_template": "cat {path}   # the replay file names seed, tier and the exact command that re-runs the case list",
                "engine": "harness",
                "level_claimed": {"category": cat, "text": text, "design_ref": ref},
                "level_note": note,
                "technique": tech,
            })
        else:
            na.append({"property_id": i, "reason": PENDING})
    m = {
        "version": 1,
        "setup_cmd": "./setup.sh",
        "hooks": {
            "guard": "verif",
            "enable": "go build -tags verif (every check builds cmd/harness against /repo with this tag)",
            "baseline_off_cmd": "./tools/baseline.sh",
            "source_commits": hook_commits,
            "add_only": True,
        },
        "engines": [
            {"name": "harness", "path": "/verif/cmd/harness", "serves_properties": sorted(CLAIMS),
             "kind_free_text": "one Go binary rebuilt from /repo's working tree per check; parent process shards the case list over child processes, merges their observations, applies known_findings.txt and writes evidence; monitors: reference codec (internal/wire), raw peer with reply-stream monitor, fake server with request-stream monitor, instrumented backend memfs (lifecycle/overlap/name monitors, gates, fault plans), quiescence detector for hangs, Go race detector"},
        ],
        "checks": checks,
        "not_applicable": na,
        "notes": "Runtime monitoring only. Exit 0 = held on everything observed, 1 = VIOLATION line(s), 2 = broken or inconclusive (never reported as held). known_findings.txt lists recorded and fixed defects.",
    }
    if not na:
        m["not_applicable"] = []
    json.dump(m, open('/verif/MANIFEST.json','w'), indent=1)
    print("claimed:", sorted(CLAIMS), "pending:", [x['property_id'] for x in na])

main()
