import json,sys,glob,jsonschema
sch=json.load(open('/root/.vp/EVIDENCE.schema.json'))
for f in sorted(glob.glob('/verif/evidence/*.json')):
    try:
        jsonschema.validate(json.load(open(f)),sch); print(f,'ok')
    except Exception as e:
        print(f,'INVALID',str(e)[:300])
jsonschema.validate(json.load(open('/verif/MANIFEST.json')),json.load(open('/root/.vp/MANIFEST.schema.json'))); print('manifest ok')
