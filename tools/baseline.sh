#!/bin/sh
# Runs the repository's pinned suite with the verif guard OFF and compares the
# set of passing tests with /root/.vp/BASELINE.json (stable_pass).
export GOFLAGS=-mod=mod GOPROXY=off GOSUMDB=off GOTOOLCHAIN=local
cd /repo || exit 2
OUT=$(mktemp)
go test -json -vet=off -count=1 -timeout 25m ./... > "$OUT" 2>/dev/null
python3 - "$OUT" <<'PY'
import json,sys
passed=set(); failed=set()
for l in open(sys.argv[1]):
    try: e=json.loads(l)
    except Exception: continue
    if e.get('Test') and e.get('Action') in ('pass','fail'):
        (passed if e['Action']=='pass' else failed).add(e['Package']+'::'+e['Test'])
base=set(json.load(open('/root/.vp/BASELINE.json'))['stable_pass'])
missing=sorted(base-passed)
print('baseline stable_pass=%d passed_now=%d missing=%d'%(len(base),len(passed&base),len(missing)))
for m in missing[:20]: print('  NOT PASSING:',m)
sys.exit(1 if missing else 0)
PY
rc=$?
rm -f "$OUT"
exit $rc
