#!/usr/bin/env python3
"""usage: seed_keep.py <dir-name> <wt-ID> <property> <needs> <caught_by> <ran>"""
import sys, os, shutil, json
name, wt, prop, needs, caught, ran = sys.argv[1:7]
src = (wt if wt.startswith('/') else f'/tmp/wt-{wt}') + '/mutation'
dst = f'/verif/seeded/{name}'
os.makedirs(dst, exist_ok=True)
shutil.copy(f'{src}/patch.diff', f'{dst}/patch.diff')
if os.path.isdir(f'{dst}/demo'): shutil.rmtree(f'{dst}/demo')
shutil.copytree(f'{src}/demo', f'{dst}/demo')
if os.path.exists(f'{src}/meta.md'): shutil.copy(f'{src}/meta.md', f'{dst}/agent_meta.md')
json.dump({"breaks_property": prop, "source": "independent sub-agent given only the property text and its own worktree",
           "needs_to_manifest": needs, "detected_by": caught, "what_i_ran": ran}, open(f'{dst}/meta.json','w'), indent=1)
print('kept', dst)
