#!/bin/sh
# usage: tools/seed_regress.sh [dir...]   re-runs every kept seeded change against the
# checks named in its meta.json ("breaks_property"), on /repo as it is now, under
# the build lock. Prints one line per change: CAUGHT / MISSED / DOES-NOT-APPLY.
export GOFLAGS=-mod=mod GOPROXY=off GOSUMDB=off GOTOOLCHAIN=local
cd /verif || exit 9
DIRS=${@:-$(ls -d seeded/C*/ | sed 's,/$,,')}
exec 9>/repo/.git/verif-build.lock; flock 9
for d in $DIRS; do
  P=$d/patch.diff
  id=$(python3 -c "import json;print(json.load(open('$d/meta.json'))['breaks_property'])")
  if ! git -C /repo apply --check "$PWD/$P" 2>/dev/null; then echo "$(basename $d) $id DOES-NOT-APPLY"; continue; fi
  git -C /repo apply "$PWD/$P"
  out=$(VERIF_NO_BUILD_LOCK=1 ./check.sh "$id" quick 2>&1)
  git -C /repo checkout -- .
  n=$(echo "$out" | grep -c "^VIOLATION")
  if [ "$n" -gt 0 ]; then echo "$(basename $d) $id CAUGHT ($n) $(echo "$out" | grep -m1 signature | sed 's/  signature: //')"
  elif echo "$out" | grep -q "INCONCL\|BROKEN"; then echo "$(basename $d) $id NONZERO-EXIT $(echo "$out" | grep -m1 -E 'INCONCL|BROKEN' | cut -c1-100)"
  else echo "$(basename $d) $id MISSED"; fi
done
exec 9>&-
git -C /repo status --short | head -3
