#!/bin/sh
# usage: tools/seed_eval.sh <ID> [checks...]   evaluates the sub-agent change in /tmp/wt-<ID>
export GOFLAGS=-mod=mod GOPROXY=off GOSUMDB=off GOTOOLCHAIN=local
ID="$1"; shift
WT=${WT_PREFIX:-/tmp/wt}-$ID
P=$WT/mutation/patch.diff
[ -f "$P" ] || { echo "no patch"; exit 9; }
PK="./p9/ ./vecnet/ ./linux/ ./fsimpl/localfs/ ./fsimpl/qids/ ./fsimpl/staticfs/ ./fsimpl/composefs/"
DEMOPAT="^($(cat $WT/mutation/demo/*.go 2>/dev/null | sed -n 's/^func \(Test[A-Za-z0-9_]*\)(.*/\1/p' | sort -u | paste -sd'|'))\$"
cd $WT || exit 9
echo "== files changed by patch:"; grep '^+++' $P
echo "== demo WITH change (expect FAIL):"
(go test -vet=off -count=1 -run "$DEMOPAT" $PK 2>&1 | grep -E "^(ok|FAIL|---|panic)" | head -8)
echo "== existing suite WITH change (expect ok):"
(go test -vet=off -count=1 -skip "$DEMOPAT" $PK 2>&1 | grep -E "^(ok|FAIL|---)" | head -10)
git apply -R $P || { echo "cannot revert"; exit 9; }
echo "== demo WITHOUT change (expect ok):"
(go test -vet=off -count=1 -run "$DEMOPAT" $PK 2>&1 | grep -E "^(ok|FAIL|---|panic)" | head -8)
git apply $P
echo "== my checks against the change:"
exec 9>/repo/.git/verif-build.lock; flock 9   # nobody else builds while the change is in /repo
git -C /repo apply $P || { echo "patch does not apply to /repo"; exit 9; }
for id in ${@:-$ID}; do
  VERIF_NO_BUILD_LOCK=1 /verif/check.sh "$id" quick 2>&1 | grep -E "^(VIOLATION|KNOWN|BROKEN|INCONCLUSIVE|  signature|C[0-9]+ tier)" | head -8
done
git -C /repo checkout -- .
exec 9>&-
git -C /repo status --short | head -3
