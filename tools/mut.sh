#!/bin/sh
# usage: tools/mut.sh <patch-file|-> <ID>...   (patch applied to /repo, checks run, patch reverted)
# With "-" the working tree is expected to be already modified by the caller.
P="$1"; shift
if [ "$P" != "-" ]; then git -C /repo apply "$P" || { echo "patch does not apply"; exit 9; }; fi
for id in "$@"; do
  /verif/check.sh "$id" quick 2>&1 | grep -E "^(VIOLATION|KNOWN|BROKEN|INCONCLUSIVE|  signature|C[0-9]+ tier)" | head -12
done
git -C /repo checkout -- . 
git -C /repo status --short | head -5
