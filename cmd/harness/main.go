// harness is the single binary behind every check:
//
//	harness run <ID>                     parent: shards, merge, evidence, verdict
//	harness child <ID> <shard> <n> <dir> one shard
package main

import (
	"fmt"
	"os"
	"strconv"

	_ "verif/checks"
	"verif/internal/ev"
)

func main() {
	if len(os.Args) >= 3 && os.Args[1] == "run" {
		os.Exit(ev.ParentMain(os.Args[2]))
	}
	if len(os.Args) >= 6 && os.Args[1] == "child" {
		sh, _ := strconv.Atoi(os.Args[3])
		n, _ := strconv.Atoi(os.Args[4])
		os.Exit(ev.ChildMain(os.Args[2], sh, n, os.Args[5]))
	}
	if len(os.Args) >= 2 && os.Args[1] == "list" {
		for _, s := range ev.Specs() {
			fmt.Println(s)
		}
		return
	}
	fmt.Fprintln(os.Stderr, "usage: harness run <ID> | child <ID> <shard> <n> <dir> | list")
	os.Exit(3)
}
