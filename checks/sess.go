package checks

import (
	"net"
	"os"
	"sync/atomic"

	"github.com/hugelgupf/p9/p9"

	"verif/internal/memfs"
	"verif/internal/rawpeer"
	"verif/internal/wire"
	"verif/internal/xport"
)

// Linux errno numbers used by oracles (independent of linux/errno.go).
const (
	EPERM     = 1
	ENOENT    = 2
	EIO       = 5
	EBADF     = 9
	EAGAIN    = 11
	EACCES    = 13
	EFAULT    = 14
	EBUSY     = 16
	EEXIST    = 17
	ENOTDIR   = 20
	EISDIR    = 21
	EINVAL    = 22
	ENOSYS    = 38
	ENOTEMPTY = 39
	ENODATA   = 61
	ENOBUFS   = 105
)

// fixture builds the standard tree.
func fixture() *memfs.FS {
	fs := memfs.New()
	fs.MkPath("/a/b/f", p9.ModeRegular|0644, "data-f")
	fs.MkPath("/a/g", p9.ModeRegular|0644, "data-g")
	f := fs.MkPath("/f", p9.ModeRegular|0644, "hello world")
	f.Xattr = map[string][]byte{"user.x": []byte("xattr-value"), "user.e": {}}
	fs.MkPath("/l", p9.ModeSymlink|0777, "a")
	fs.MkPath("/p", p9.ModeNamedPipe|0644, "")
	fs.MkPath("/d", p9.ModeDirectory|0755, "")
	fs.MkPath("/c", p9.ModeCharacterDevice|0644, "")
	fs.MkPath("/s", p9.ModeSocket|0644, "")
	return fs
}

// sess is a lock-step raw session against one server.
type sess struct {
	P   *rawpeer.Peer
	Srv *p9.Server
}

// newSess starts a lock-step session. Every third session of a process runs
// over an AF_UNIX socket pair instead of net.Pipe: the property checks are about
// the protocol, not the transport, so the server's vectorised receive path and
// its writev send path get the same workloads as the generic ones.
func newSess(srv *p9.Server, msize uint32, version string) (*sess, rawpeer.Result) {
	return newSessOn(srv, msize, version, altTransport())
}

var sessCounter uint64

// altTransport returns socket-pair options for every third call, nil otherwise.
func altTransport() *rawpeer.Options {
	if os.Getenv("VERIF_NO_SOCK_SESSIONS") != "" {
		return nil // measurement aid: lock-step sessions over pipes only
	}
	if atomic.AddUint64(&sessCounter, 1)%3 == 0 {
		return sockOpts()
	}
	return nil
}

// sockOpts makes a raw peer talk to the server over an AF_UNIX socket pair
// (the server's vectorised receive path; big frames arrive in pieces).
func sockOpts() *rawpeer.Options {
	return &rawpeer.Options{Conns: func() (net.Conn, net.Conn) {
		sp, err := xport.NewSockPair()
		if err != nil {
			return net.Pipe()
		}
		return sp.A, sp.B
	}}
}

func newSessOn(srv *p9.Server, msize uint32, version string, o *rawpeer.Options) (*sess, rawpeer.Result) {
	p := rawpeer.New(srv, o)
	r := p.Version(msize, version)
	return &sess{P: p, Srv: srv}, r
}

const v7 = "9P2000.L.Google.7"

func (s *sess) attach(fid uint64, aname string) rawpeer.Result {
	return s.P.RPC(wire.Tattach, fid, uint64(wire.NOFID), "user", aname, uint64(wire.NOUID))
}
func (s *sess) walk(fid, newfid uint64, names ...string) rawpeer.Result {
	if names == nil {
		names = []string{}
	}
	return s.P.RPC(wire.Twalk, fid, newfid, names)
}
func (s *sess) walkgetattr(fid, newfid uint64, names ...string) rawpeer.Result {
	if names == nil {
		names = []string{}
	}
	return s.P.RPC(wire.Twalkgetattr, fid, newfid, names)
}
func (s *sess) open(fid uint64, flags uint64) rawpeer.Result {
	return s.P.RPC(wire.Tlopen, fid, flags)
}
func (s *sess) clunk(fid uint64) rawpeer.Result  { return s.P.RPC(wire.Tclunk, fid) }
func (s *sess) remove(fid uint64) rawpeer.Result { return s.P.RPC(wire.Tremove, fid) }
func (s *sess) getattr(fid uint64) rawpeer.Result {
	return s.P.RPC(wire.Tgetattr, fid, uint64(0x3fff))
}
func (s *sess) read(fid, off, count uint64) rawpeer.Result {
	return s.P.RPC(wire.Tread, fid, off, count)
}
func (s *sess) write(fid, off uint64, data []byte) rawpeer.Result {
	return s.P.RPC(wire.Twrite, fid, off, data)
}
func (s *sess) readdir(fid, off, count uint64) rawpeer.Result {
	return s.P.RPC(wire.Treaddir, fid, off, count)
}
func (s *sess) create(fid uint64, name string, flags, perm uint64) rawpeer.Result {
	return s.P.RPC(wire.Tlcreate, fid, name, flags, perm, uint64(0))
}
func (s *sess) mkdir(fid uint64, name string) rawpeer.Result {
	return s.P.RPC(wire.Tmkdir, fid, name, uint64(0755), uint64(0))
}
func (s *sess) unlinkat(fid uint64, name string) rawpeer.Result {
	return s.P.RPC(wire.Tunlinkat, fid, name, uint64(0))
}
func (s *sess) renameat(ofid uint64, oname string, nfid uint64, nname string) rawpeer.Result {
	return s.P.RPC(wire.Trenameat, ofid, oname, nfid, nname)
}
func (s *sess) rename(fid, dfid uint64, name string) rawpeer.Result {
	return s.P.RPC(wire.Trename, fid, dfid, name)
}

// qidPath extracts the QID path from replies that start with a qid
// (Rgetattr: after valid).
func getattrIno(r rawpeer.Result) (uint64, bool) {
	if !r.OK || r.Msg.Type != wire.Rgetattr {
		return 0, false
	}
	return r.Msg.F[1].(wire.QID).Path, true
}
