package checks

import (
	"fmt"
	"strings"
	"time"

	"verif/internal/ev"
	"verif/internal/memfs"
	"verif/internal/quiesce"
	"verif/internal/rawpeer"
	"verif/internal/wire"
)

func init() {
	ev.Register(&ev.Spec{
		ID: "C14", Level: "exploration",
		Rule:    "request A (read, write, getattr, 3-component walk parked at component 1/2/3, create, unlinkat, renameat parked in RenameAt and in Renamed, xattrwalk, clunk parked in Close) is parked inside the backend together with an unrelated request B; every order of {send Tflush(A), release A, release B, other traffic} (24 scripts per A kind), plus two flushes of one tag and flush chains, and scripts in which a frame the server rejects on arrival (a type it does not serve) is sent under A's own tag while A executes - answered Rlerror, A stays in flight; arrival of every reply and enter/exit of every backend call are stamped on one logical clock: an Rflush for A must be later than the exit of every call made on A's behalf and no such call may begin after it; flushes of idle, answered and own tags must be answered while B is still parked; A gets exactly one reply. Non-trivial: the flush was sent while A was parked; distinct by (A kind, script).",
		Assume:  []string{"calls are attributed to A by construction (A alone touches its names)", "reply stamps are taken when the peer parsed the frame, i.e. never earlier than the send"},
		Shards:  shards(8, 16),
		Timeout: timeout(8*time.Minute, 45*time.Minute),
		Run:     runC14,
	})
}

type c14kind struct {
	name  string
	gate  memfs.Match
	setup func(cc *concConn) (fid uint64, ok bool)
	send  func(p *rawpeer.Peer, tag uint16, fid uint64)
	mine  func(cl *memfs.Call) bool // is this backend call made on A's behalf?
}

func c14Kinds() []c14kind {
	underA := func(cl *memfs.Call) bool {
		return cl.Path == "/a" || strings.HasPrefix(cl.Path, "/a/") || strings.HasPrefix(cl.Path2, "/a") || (cl.Path == "/" && (cl.Name == "a"))
	}
	file := func(cc *concConn) (uint64, bool) { return cc.fidAt("/a/g", 'o', false) }
	dir := func(cc *concConn) (uint64, bool) { return cc.fidAt("/a", 'u', true) }
	ks := []c14kind{
		{"read", memfs.Match{Method: "ReadAt", Path: "/a/g"}, file, func(p *rawpeer.Peer, tag uint16, fid uint64) { p.Send(wire.Tread, tag, fid, u(0), u(4)) }, underA},
		{"write", memfs.Match{Method: "WriteAt", Path: "/a/g"}, file, func(p *rawpeer.Peer, tag uint16, fid uint64) { p.Send(wire.Twrite, tag, fid, u(0), []byte("w")) }, underA},
		{"getattr", memfs.Match{Method: "GetAttr", Path: "/a/g"}, file, func(p *rawpeer.Peer, tag uint16, fid uint64) { p.Send(wire.Tgetattr, tag, fid, u(0x3fff)) }, underA},
		{"create", memfs.Match{Method: "Create", Path: "/a"}, dir, func(p *rawpeer.Peer, tag uint16, fid uint64) {
			p.Send(wire.Tlcreate, tag, fid, "created", u(2), u(0644), u(0))
		}, underA},
		{"unlinkat", memfs.Match{Method: "UnlinkAt", Path: "/a"}, dir, func(p *rawpeer.Peer, tag uint16, fid uint64) { p.Send(wire.Tunlinkat, tag, fid, "h", u(0)) }, underA},
		{"renameat@RenameAt", memfs.Match{Method: "RenameAt", Path: "/a"}, dir, func(p *rawpeer.Peer, tag uint16, fid uint64) {
			p.Send(wire.Trenameat, tag, fid, "g", u(801), "moved")
		}, func(cl *memfs.Call) bool { return underA(cl) || cl.Method == "Renamed" || cl.Method == "RenameAt" }},
		{"renameat@Renamed", memfs.Match{Method: "Renamed"}, func(cc *concConn) (uint64, bool) {
			if _, ok := cc.fidAt("/a/g", 'u', false); !ok { // a fid under the renamed entry: Renamed will be called
				return 0, false
			}
			return cc.fidAt("/a", 'u', true)
		}, func(p *rawpeer.Peer, tag uint16, fid uint64) {
			p.Send(wire.Trenameat, tag, fid, "g", u(801), "moved")
		}, func(cl *memfs.Call) bool { return underA(cl) || cl.Method == "Renamed" || cl.Method == "RenameAt" }},
		{"xattrwalk", memfs.Match{Method: "GetXattr", Path: "/a/g"}, file, func(p *rawpeer.Peer, tag uint16, fid uint64) {
			p.Send(wire.Txattrwalk, tag, fid, u(950), "user.x")
		}, underA},
		{"clunk@Close", memfs.Match{Method: "Close", Path: "/a/g"}, file, func(p *rawpeer.Peer, tag uint16, fid uint64) { p.Send(wire.Tclunk, tag, fid) }, underA},
		{"setattr", memfs.Match{Method: "SetAttr", Path: "/a/g"}, file, func(p *rawpeer.Peer, tag uint16, fid uint64) {
			p.Send(wire.Tsetattr, tag, fid, u(1), u(0600), u(0), u(0), u(0), u(0), u(0), u(0), u(0))
		}, underA},
	}
	// requests that re-use an occupied fid number: the File of the replaced
	// binding is closed on their behalf (parked in that Close)
	occupied := func(cc *concConn) (uint64, bool) { return cc.fidAt("/a/h", 'u', false) }
	ks = append(ks,
		c14kind{"walk-onto-occupied-fid@Close", memfs.Match{Method: "Close", Path: "/a/h"}, occupied, func(p *rawpeer.Peer, tag uint16, fid uint64) {
			p.Send(wire.Twalk, tag, u(0), fid, []string{"a", "g"})
		}, underA},
		c14kind{"clone-onto-occupied-fid@Close", memfs.Match{Method: "Close", Path: "/a/h"}, occupied, func(p *rawpeer.Peer, tag uint16, fid uint64) {
			p.Send(wire.Twalk, tag, u(0), fid, []string{})
		}, underA},
		c14kind{"attach-onto-occupied-fid@Close", memfs.Match{Method: "Close", Path: "/a/h"}, occupied, func(p *rawpeer.Peer, tag uint16, fid uint64) {
			p.Send(wire.Tattach, tag, fid, u(wire.NOFID), "u", "a", u(wire.NOUID))
		}, underA},
		c14kind{"xattrwalk-onto-occupied-fid@Close", memfs.Match{Method: "Close", Path: "/a/h"}, func(cc *concConn) (uint64, bool) {
			if _, ok := cc.fidAt("/a/h", 'u', false); !ok { // becomes fid next-1... the occupied newfid
				return 0, false
			}
			return cc.fidAt("/a/g", 'u', false)
		}, func(p *rawpeer.Peer, tag uint16, fid uint64) {
			p.Send(wire.Txattrwalk, tag, fid, fid-1, "user.x") // newfid = the fid bound to /a/h just before
		}, underA},
	)
	for k, nm := range []string{"a", "b", "f"} {
		nm := nm
		ks = append(ks, c14kind{fmt.Sprintf("walk3@component%d", k+1), memfs.Match{Method: "Walk", Name: nm}, func(cc *concConn) (uint64, bool) { return 0, true },
			func(p *rawpeer.Peer, tag uint16, fid uint64) {
				p.Send(wire.Twalk, tag, u(0), u(960), []string{"a", "b", "f"})
			}, underA})
	}
	return ks
}

func runC14(c *ev.Ctx) {
	kinds := c14Kinds()
	scripts := perms(4) // events 0=F(flush) 1=RA 2=RB 3=T(traffic)
	variants := []string{"one", "two-for-one", "chain"}
	idx := 0
	for _, k := range kinds {
		for _, variant := range variants {
			for _, sc := range scripts {
				if variant != "one" && (sc[0] != 0 || c.Quick() && sc[1] != 3) {
					continue // the variants only matter when the flush comes first
				}
				idx++
				if !c.Mine(idx) {
					continue
				}
				c14TagA = []uint16{300, 300, 0xFFFF, 300, 0, 300, 0xFFFE, 300}[idx%8]
				c14Run(c, k, variant, sc)
				c14TagA = 300
			}
		}
	}
	// a rejected frame under A's tag before or after the flush
	for ki, k := range kinds {
		for si, sc := range [][]int{{5, 0, 3, 1, 2}, {0, 5, 3, 1, 2}, {5, 5, 0, 2, 0, 1}, {0, 3, 5, 0, 1, 2}} {
			idx++
			if !c.Mine(idx) || c.Quick() && (ki+si)%2 == 1 {
				continue
			}
			c14TagA = []uint16{300, 0xFFFF, 0}[idx%3]
			c14Run(c, k, "one", sc)
			c14TagA = 300
		}
	}
	if c.Thorough() {
		// PRNG scripts of 8-12 events: several flushes of A, chains, traffic, both releases
		r := c.Rand("c14scripts")
		for _, k := range kinds {
			for i := 0; i < 1500; i++ {
				idx++
				mine := c.Mine(idx)
				n := 8 + r.Intn(9)
				var sc []int
				for j := 0; j < n; j++ {
					sc = append(sc, []int{0, 0, 3, 4, 3, 0, 5}[r.Intn(7)])
				}
				sc[r.Intn(n)] = 1
				sc[r.Intn(n)] = 2
				has1 := false
				for _, e := range sc {
					if e == 1 {
						has1 = true
					}
				}
				if !has1 {
					sc = append(sc, 1)
				}
				if mine {
					c14Run(c, k, "random", sc)
				}
			}
		}
	}
	c14Idle(c)
	c14BackToBack(c)
}

var c14ev = []string{"F", "RA", "RB", "T", "C", "X"}

// c14TagA is the tag of the flushed request in c14Run.
var c14TagA uint16 = 300

func c14Run(c *ev.Ctx, k c14kind, variant string, sc []int) {
	var names []string
	for _, e := range sc {
		names = append(names, c14ev[e])
	}
	script := strings.Join(names, ",")
	c.Begin(fmt.Sprintf("C14 A=%s variant=%s script=%s", k.name, variant, script))
	w, ok := newConcWorld(1)
	if !ok {
		c.Inconclusive("C14 world")
		w.close()
		return
	}
	defer w.close()
	cc := w.conns[0]
	fidA, ok := k.setup(cc)
	fidB, ok2 := cc.fidAt("/d/x", 'o', false)
	fidT, ok3 := cc.fidAt("/f", 'u', false)
	if !ok || !ok2 || !ok3 {
		c.Inconclusive("C14 setup " + k.name)
		return
	}
	gA := w.fs.Hold(k.gate, 1)
	gB := w.fs.Hold(memfs.Match{Method: "ReadAt", Path: "/d/x"}, 1)
	defer gA.Release()
	defer gB.Release()
	p := cc.p
	from := p.NReplies()
	// A's tag: mostly 300; the boundary values of the tag space in rotation
	// (the server serves a request under 0xFFFF like any other)
	tagA := c14TagA
	const tagB, tagF2 = 301, 311
	mark := w.fs.NCalls()
	// A first: were B parked first it would hold the rename lock for reading and
	// a rename-class A could never reach its gate. For rename-class A there is no
	// parked B at all (it could only queue behind A's rename lock).
	withB := !strings.HasPrefix(k.name, "renameat")
	k.send(p, tagA, fidA)
	if o, d := gA.WaitParked(1); o != quiesce.CondMet {
		hang(c, o, d, "C14:setup:A-does-not-reach-its-gate:"+k.name, nil)
		return
	}
	if withB {
		p.Send(wire.Tread, tagB, fidB, u(0), u(4))
		gB.WaitParked(1)
	}
	flushSentWhileParked := false
	released := false
	expect := map[uint16]bool{tagA: true}
	if withB {
		expect[tagB] = true
	}
	flushA := []uint16{} // tags of flushes naming A
	nF, nT, nX := 0, 0, 0
	lastFlush := uint16(0)
	for _, e := range sc {
		switch e {
		case 4: // C: a flush naming the most recent flush (or an idle tag if none)
			ft := uint16(2000 + nF)
			nF++
			old := uint64(4242)
			if lastFlush != 0 {
				old = uint64(lastFlush)
			}
			p.Send(wire.Tflush, ft, old)
			expect[ft] = true
			lastFlush = ft
			quiesce.WaitUntil(func() bool { return p.HasReplyFrom(ft, from) != nil }, 30*time.Second)
		case 5: // X: a frame the server rejects on arrival (a type it does not
			// serve), sent under A's tag while A is executing. It is answered
			// Rlerror under that tag; A stays what it was: a request in flight.
			fr := wire.Frame(54, tagA, []byte{1, 2, 3})
			p.Expect(fr)
			p.SendRaw(fr)
			nX++
			want := nX
			quiesce.WaitUntil(func() bool {
				n := 0
				for _, r := range p.All()[from:] {
					if r.Msg.Tag == tagA {
						n++
					}
				}
				return n >= want
			}, 30*time.Second)
		case 0: // F
			flushSentWhileParked = flushSentWhileParked || !released
			tagF := uint16(1000 + nF) // tag ranges of F, C and T never meet, however long the script
			nF++
			lastFlush = tagF
			flushA = append(flushA, tagF)
			p.Send(wire.Tflush, tagF, u(uint64(tagA)))
			expect[tagF] = true
			if variant == "two-for-one" {
				p.Send(wire.Tflush, tagF2, u(uint64(tagA)))
				expect[tagF2] = true
				flushA = append(flushA, tagF2)
			}
			if variant == "chain" {
				p.Send(wire.Tflush, tagF2, uint64(tagF))
				expect[tagF2] = true
			}
			// give the flush handler every chance to answer: wait for the
			// Rflush or for the process to be parked
			quiesce.WaitUntil(func() bool { return p.HasReplyFrom(tagF, from) != nil }, 30*time.Second)
		case 1: // RA
			released = true
			gA.Release()
			p.WaitTag(tagA, from)
		case 2: // RB
			gB.Release()
			if withB {
				p.WaitTag(tagB, from)
			}
		case 3: // T
			// StatFS is unclassified: not even a parked rename orders it
			tagT := uint16(3000 + nT)
			nT++
			p.Send(wire.Tstatfs, tagT, fidT)
			expect[tagT] = true
			if _, ok, o, d := p.WaitTag(tagT, from); !ok {
				hang(c, o, d, "C14:unrelated-traffic-unanswered-while-flush-pending:"+k.name, map[string]any{"script": script})
			}
		}
	}
	gA.Release()
	gB.Release()
	replies := map[uint16][]*rawpeer.Reply{}
	for tag := range expect {
		if _, ok, o, d := p.WaitTag(tag, from); !ok {
			hang(c, o, d, "C14:request-unanswered:"+tagName(tag)+":"+k.name, map[string]any{"script": script, "variant": variant})
		}
	}
	// settle: no more replies may trickle in
	quiesce.WaitUntil(func() bool { return false }, 5*time.Second)
	for _, r := range p.All()[from:] {
		replies[r.Msg.Tag] = append(replies[r.Msg.Tag], r)
	}
	det := map[string]any{"A": k.name, "script": script, "variant": variant}
	if n := len(replies[tagA]) - nX; n != 1 {
		det["replies_for_A"] = n
		c.Violation("C14:flushed-request-reply-missing-or-duplicated:"+k.name, det)
	}
	calls := w.fs.Calls(mark)
	var mineCalls []*memfs.Call
	for _, cl := range calls {
		if k.mine(cl) {
			mineCalls = append(mineCalls, cl)
		}
	}
	for _, ft := range flushA {
		for _, rf := range replies[ft] {
			if rf.Msg.Type != wire.Rflush {
				c.Violation("C14:flush-answered-with-"+wire.TypeName(rf.Msg.Type), det)
				continue
			}
			for _, cl := range mineCalls {
				if cl.Exit == 0 || cl.Exit > rf.Seq && cl.Enter < rf.Seq {
					d := map[string]any{"call": cl.String(), "rflush_at": rf.Seq}
					for kk, v := range det {
						d[kk] = v
					}
					c.Violation("C14:Rflush-while-flushed-request-still-in-backend:"+k.name, d)
					break
				}
				if cl.Enter > rf.Seq {
					d := map[string]any{"call": cl.String(), "rflush_at": rf.Seq}
					for kk, v := range det {
						d[kk] = v
					}
					c.Violation("C14:backend-call-for-flushed-request-begins-after-Rflush:"+k.name, d)
					break
				}
			}
		}
	}
	for _, m := range p.Monitor() {
		c.Violation("C14:reply-stream:"+firstWord(m), map[string]any{"monitor": m, "A": k.name, "script": script})
	}
	c.Case(fmt.Sprintf("%s|%s|%s", k.name, variant, script), flushSentWhileParked)
	c.Count("backend_calls_attributed_to_A", int64(len(mineCalls)))
	c.SetAdd("event_orders", k.name+"|"+variant+"|"+script)
	if c.WantSample() && flushSentWhileParked {
		var cs []string
		for _, cl := range mineCalls {
			cs = append(cs, cl.String())
		}
		var rs []string
		for _, r := range p.All()[from:] {
			rs = append(rs, fmt.Sprintf("%s@%d", r.Msg.String(), r.Seq))
		}
		c.Sample(map[string]any{"A": k.name, "script": script, "variant": variant, "calls_for_A": cs, "replies": rs})
	}
}

func tagName(t uint16) string {
	if t == c14TagA {
		return "A"
	}
	switch t {
	case 301:
		return "B"
	case 311:
		return "flush"
	}
	if t >= 1000 && t < 3000 {
		return "flush"
	}
	return "traffic"
}

// c14Idle: flushes of idle, answered, own tags are answered while an
// unrelated request is parked.
func c14Idle(c *ev.Ctx) {
	for i, kind := range []string{"idle", "answered", "own", "NOTAG", "idle-then-traffic"} {
		if !c.Mine(i) {
			continue
		}
		c.Begin("C14 idle " + kind)
		w, ok := newConcWorld(1)
		if !ok {
			c.Inconclusive("C14 idle world")
			w.close()
			continue
		}
		cc := w.conns[0]
		fidB, _ := cc.fidAt("/d/x", 'o', false)
		fidT, _ := cc.fidAt("/f", 'u', false)
		p := cc.p
		gB := w.fs.Hold(memfs.Match{Method: "ReadAt", Path: "/d/x"}, 1)
		if kind == "answered" {
			p.RPCTag(wire.Tgetattr, 400, fidT, u(0x3fff))
		}
		from := p.NReplies()
		p.Send(wire.Tread, 401, fidB, u(0), u(4))
		gB.WaitParked(1)
		old := uint64(4242)
		switch kind {
		case "answered":
			old = 400
		case "own":
			old = 410
		case "NOTAG":
			old = wire.NOTAG
		}
		p.Send(wire.Tflush, 410, old)
		rep, ok2, o, d := p.WaitTag(410, from)
		c.Case("idle-flush:"+kind, true)
		if !ok2 {
			hang(c, o, d, "C14:flush-of-"+kind+"-tag-not-answered-at-once", map[string]any{"unrelated_request_parked": len(gB.Parked())})
		} else if rep.Msg.Type != wire.Rflush {
			c.Violation("C14:flush-of-"+kind+"-tag-wrong-reply", rep.Msg.String())
		} else if len(gB.Parked()) == 1 && p.HasReplyFrom(401, from) == nil {
			c.Count("idle_flushes_answered_while_B_parked", 1)
		}
		gB.Release()
		p.WaitTag(401, from)
		w.close()
	}
}

// c14BackToBack: request A and the Tflush naming it leave in ONE write, with
// no wait for A to reach the backend. Whatever the receiver's goroutines do,
// the flush was received after A: its Rflush may not be sent while A's backend
// call is running, nor before it starts. Schedule-dependent: many rounds, with
// scheduling jitter inside the backend.
func c14BackToBack(c *ev.Ctx) {
	rounds := c.Sz(2000, 60000)
	w, ok := newConcWorld(1)
	if !ok {
		c.Inconclusive("C14 back-to-back world")
		w.close()
		return
	}
	defer w.close()
	cc := w.conns[0]
	fid, ok := cc.fidAt("/d/x", 'o', false)
	if !ok {
		c.Inconclusive("C14 back-to-back setup")
		return
	}
	w.fs.SetJitter(c.Seed*31 + uint64(c.Shard) + 1)
	p := cc.p
	c.Begin("C14 back-to-back")
	for i := 0; i < rounds; i++ {
		if !c.Mine(i) {
			continue
		}
		tagA, tagF := uint16(400+(i%100)*2), uint16(401+(i%100)*2)
		from := p.NReplies()
		mark := w.fs.NCalls()
		var frames []byte
		kind := []string{"read", "getattr", "write"}[i%3]
		switch kind {
		case "read":
			frames = wire.Encode(wire.Tread, tagA, fid, u(0), u(4))
		case "getattr":
			frames = wire.Encode(wire.Tgetattr, tagA, fid, u(0x3fff))
		default:
			frames = wire.Encode(wire.Twrite, tagA, fid, u(0), []byte("zz"))
		}
		p.Expect(frames)
		fl := wire.Encode(wire.Tflush, tagF, u(uint64(tagA)))
		p.Expect(fl)
		p.SendRaw(append(frames, fl...))
		ra, okA, o, d := p.WaitTag(tagA, from)
		if !okA {
			hang(c, o, d, "C14:back-to-back:request-unanswered:"+kind, map[string]any{"round": i})
			return
		}
		rf, okF, o, d := p.WaitTag(tagF, from)
		if !okF {
			hang(c, o, d, "C14:back-to-back:flush-unanswered:"+kind, map[string]any{"round": i})
			return
		}
		_ = ra
		if rf.Msg.Type != wire.Rflush {
			c.Violation("C14:back-to-back:flush-answered-with-"+wire.TypeName(rf.Msg.Type), map[string]any{"round": i})
			return
		}
		for _, cl := range w.fs.Calls(mark) {
			if cl.Method == "Close" || cl.Method == "Renamed" {
				continue
			}
			if cl.Enter > rf.Seq {
				c.Violation("C14:back-to-back:backend-call-for-flushed-request-begins-after-Rflush:"+kind, map[string]any{"round": i, "call": cl.String(), "rflush_at": rf.Seq})
				return
			}
			if cl.Exit == 0 || cl.Exit > rf.Seq {
				c.Violation("C14:back-to-back:Rflush-while-flushed-request-still-in-backend:"+kind, map[string]any{"round": i, "call": cl.String(), "rflush_at": rf.Seq})
				return
			}
		}
		c.Count("back_to_back_rounds", 1)
	}
	c.Case("back-to-back", true)
}
