package checks

import (
	"bytes"
	"fmt"
	"reflect"
	"runtime"
	"strings"
	"sync"
	"time"
	"verif/internal/fakesrv"

	"github.com/hugelgupf/p9/p9"

	"verif/internal/ev"
	"verif/internal/memfs"
	"verif/internal/quiesce"
	"verif/internal/rawpeer"
	"verif/internal/recfs"
	"verif/internal/wire"
)

func init() {
	ev.Register(&ev.Spec{
		ID: "C18", Level: "exploration",
		Rule:    "histories of same-type messages with shrinking and growing variable parts (name lists 200 -> 16 -> 2 -> 0 -> 5, strings 65535 -> 300 -> 1 -> 0 -> 40 bytes, payloads msize-bound -> 4096 -> 7 -> 0 -> 100) for Twalk, Twalkgetattr, Twrite, Tattach, Tsymlink, Tusymlink, Trenameat, Txattrwalk, Txattrcreate+Twrite, Tread, Treaddir, interleaved over 2-4 connections to one server (the message cache and buffer pools are process-wide / per connection), with rejected frames in between (objects abandoned mid-decode) and frames of 14 types that end before their fields do (nothing may be completed from bytes outside the frame: no backend call, no binding lost or made), reads of n then m < n bytes with a backend that fills only half of what it reports, repeated Tversion changing msize between reads; every backend-observed argument and every reply byte is compared with the reference decode/encode of that frame alone. Both tiers: up to 64 Treads in flight on one connection over files whose content is a function of (file, offset), most reads running into end of file ((n, io.EOF) from the backend), every reply compared byte for byte with what its own request must yield. Client side: 6 goroutines on one Client, every call answered Rlerror with an errno that is a function of its fid - each caller must get its own. Pipelined small writes: 16-64 Twrites of 1-60 bytes in one write on each of two connections, a yielding backend, stored bytes compared. Every connection of a round finally ends strictly inside the body of a last Twalk / Tsymlink frame (pipe and socket transports): that frame must not be executed with whatever the recycled decode buffer held. Thorough adds concurrent connections under the race detector. Non-trivial: the previous message of that type on any connection had a longer variable part; distinct by (type, previous length class, length class, connection switch).",
		Assume:  []string{"recfs deep-copies arguments at call time", "a backend may leave part of the read buffer untouched: those bytes must be zero, not stale"},
		Shards:  shards(8, 16),
		Race:    raceIn("thorough"),
		Timeout: timeout(8*time.Minute, 60*time.Minute),
		Run:     runC18,
	})
}

type c18conn struct {
	p *rawpeer.Peer
	s *sess
	h map[uint64]int
}

type c18world struct {
	rf    *recfs.FS
	srv   *p9.Server
	conns []*c18conn
	mu    sync.Mutex
}

func newC18World(c *ev.Ctx, seed uint64, nconn int, msize uint32) *c18world {
	w := &c18world{rf: recfs.New(seed)}
	w.rf.WGA = 2
	w.rf.LazyRead = true
	w.srv = p9.NewServer(w.rf)
	for i := 0; i < nconn; i++ {
		s, vr := newSess(w.srv, msize, v7)
		cn := &c18conn{p: s.P, s: s, h: map[uint64]int{}}
		ok := vr.OK
		bind := func(fid uint64, names ...string) {
			mark := w.rf.Len()
			var res rawpeer.Result
			if names == nil {
				res = s.attach(fid, "")
			} else {
				res = s.walk(0, fid, names...)
			}
			if res.Errno() != 0 {
				ok = false
			}
			for _, cl := range w.rf.Since(mark) {
				if cl.NewH != 0 {
					cn.h[fid] = cl.NewH
				}
			}
		}
		bind(0)
		bind(1, "d1")
		bind(2, "f2")
		bind(3, "d3")
		bind(5, "f5")
		ok = ok && s.open(2, 2).Errno() == 0 && s.open(3, 0).Errno() == 0
		if !ok {
			// the recording backend never refuses anything: a refused setup
			// request is the server's doing (e.g. names of an earlier walk
			// carried into this one)
			c.Violation("C18:valid-request-refused-over-a-backend-that-accepts-everything:setup", map[string]any{"backend_calls": callList(w.rf.Since(0))})
			return nil
		}
		w.conns = append(w.conns, cn)
	}
	return w
}

func (w *c18world) close() {
	for _, cn := range w.conns {
		cn.p.Close()
	}
}

// one request; returns the backend calls it caused and its reply.
func (w *c18world) rpc(c *ev.Ctx, cn *c18conn, t uint8, vals ...any) ([]*recfs.Call, rawpeer.Result, bool) {
	w.mu.Lock()
	mark := w.rf.Len()
	w.mu.Unlock()
	res := cn.p.RPC(t, vals...)
	if !res.OK {
		if res.Out != quiesce.CondMet {
			hang(c, res.Out, res.Dump, "C18:request-unanswered:"+wire.TypeName(t), nil)
		} else {
			c.Violation("C18:connection-ended:"+wire.TypeName(t), map[string]any{"request": wire.Msg{Type: t, F: vals}.String()})
		}
		return nil, res, false
	}
	return w.rf.Since(mark), res, true
}

func genNames(r *ev.Rand, n int) []string {
	out := []string{}
	for i := 0; i < n; i++ {
		out = append(out, "d"+string(rune('a'+r.Intn(26)))+fmt.Sprint(r.Intn(1000)))
	}
	return out
}

func genStr(r *ev.Rand, n int) string {
	b := r.Bytes(n)
	for i := range b {
		if b[i] == '/' || b[i] == 0 {
			b[i] = 'q'
		}
	}
	if n == 1 && b[0] == '.' {
		b[0] = 'p'
	}
	if n == 2 && string(b) == ".." {
		b[0] = 'p'
	}
	return string(b)
}

type c18step struct {
	kind string
	n    int
}

func c18History(r *ev.Rand, extra int) []c18step {
	var h []c18step
	for _, k := range []string{"walk", "walkgetattr"} {
		for _, n := range []int{200, 16, 2, 0, 5, 1, 0, 40} {
			h = append(h, c18step{k, n})
		}
	}
	for _, k := range []string{"symlink", "usymlink", "renameat", "xattrwalk", "attach"} {
		for _, n := range []int{65535, 300, 1, 0, 40, 2, 1000} {
			if k == "attach" && n > 1000 {
				n = 900
			}
			h = append(h, c18step{k, n})
		}
	}
	for _, k := range []string{"write", "read", "xattrcreate"} {
		for _, n := range []int{65536 - 24, 4096, 7, 0, 100, 1, 30000, 3} {
			h = append(h, c18step{k, n})
		}
	}
	for _, n := range []int{4000, 200, 50, 24, 3000} {
		h = append(h, c18step{"readdir", n})
	}
	for n := 0; n < 24; n++ {
		h = append(h, c18step{"short", n})
	}
	kinds := []string{"walk", "walkgetattr", "symlink", "usymlink", "renameat", "xattrwalk", "write", "read", "xattrcreate", "readdir", "reject", "version", "short", "short"}
	for i := 0; i < extra; i++ {
		k := ev.Pick(r, kinds)
		n := []int{0, 1, 2, 5, 16, 100, 300, 4000}[r.Intn(8)]
		h = append(h, c18step{k, n})
	}
	// shuffle lightly: interleave types
	p := r.Perm(len(h))
	out := make([]c18step, len(h))
	for i, j := range p {
		out[i] = h[j]
	}
	// keep the deterministic long->short ladders too
	return append(h, out...)
}

func c18Do(c *ev.Ctx, w *c18world, cn *c18conn, st c18step, r *ev.Rand, prevLen map[string]int) bool {
	key := st.kind
	longer := prevLen[key] > st.n
	defer func() { prevLen[key] = st.n }()
	viol := func(sig string, det map[string]any) {
		det["kind"], det["n"], det["previous_n"] = st.kind, st.n, prevLen[key]
		c.Violation("C18:"+sig, det)
	}
	c.Begin(fmt.Sprintf("C18 %s n=%d (prev %d)", st.kind, st.n, prevLen[key]))
	switch st.kind {
	case "walk", "walkgetattr":
		names := genNames(r, st.n)
		t := uint8(wire.Twalk)
		if st.kind == "walkgetattr" {
			t = wire.Twalkgetattr
		}
		calls, res, ok := w.rpc(c, cn, t, u(1), u(60), names)
		if !ok {
			return false
		}
		var seen []string
		var qids []wire.QID
		for _, cl := range calls {
			if cl.Method == "Walk" || cl.Method == "WalkGetAttr" {
				seen = append(seen, cl.Args[0].([]string)...)
				qids = append(qids, wQIDs(cl.Rets[0].([]p9.QID))...)
			}
		}
		if strings.Join(seen, "\x00") != strings.Join(names, "\x00") {
			viol("backend-saw-names-that-are-not-in-this-frame:"+wire.TypeName(t), map[string]any{"sent": len(names), "seen": len(seen)})
		}
		if st.kind == "walk" {
			if qids == nil {
				qids = []wire.QID{}
			}
			if ref := wire.Encode(wire.Rwalk, res.Msg.Tag, qids); !bytes.Equal(ref, res.Raw) {
				viol("reply-carries-values-not-produced-for-this-request:Rwalk", map[string]any{"reply": res.Msg.String()})
			}
		} else if res.Msg.Type == wire.Rwalkgetattr {
			if got := res.Msg.F[19].([]wire.QID); len(got) != len(qids) || (len(qids) > 0 && !reflect.DeepEqual(got, qids)) {
				viol("reply-carries-values-not-produced-for-this-request:Rwalkgetattr", map[string]any{"reply_qids": len(got), "produced": len(qids)})
			}
		}
		cn.s.clunk(60)
	case "symlink", "usymlink":
		name := genStr(r, maxI(1, minI(st.n, 255)))
		tgt := string(r.Bytes(st.n))
		var calls []*recfs.Call
		var ok bool
		if st.kind == "symlink" {
			calls, _, ok = w.rpc(c, cn, wire.Tsymlink, u(1), name, tgt, u(7))
		} else {
			calls, _, ok = w.rpc(c, cn, wire.Tusymlink, u(1), name, tgt, u(7), u(8))
		}
		if !ok {
			return false
		}
		found := false
		for _, cl := range calls {
			if cl.Method == "Symlink" {
				found = true
				if cl.Args[0].(string) != tgt || cl.Args[1].(string) != name {
					viol("backend-saw-a-string-that-is-not-in-this-frame:T"+st.kind, map[string]any{"target_len": len(cl.Args[0].(string))})
				}
			}
		}
		if !found {
			viol("request-did-not-reach-backend:T"+st.kind, map[string]any{})
		}
	case "renameat":
		// the new name gets a prefix: a random two-byte name can be "d1" or
		// "f2" - a rename over a name the scenario has a fid on fences that fid
		// (seen in the thorough tier at seed 1, fixed-seed reproducible)
		a, b := genStr(r, maxI(1, st.n)), "r"+genStr(r, maxI(1, st.n/2))
		calls, _, ok := w.rpc(c, cn, wire.Trenameat, u(1), a, u(0), b)
		if !ok {
			return false
		}
		for _, cl := range calls {
			if cl.Method == "RenameAt" && (cl.Args[0].(string) != a || cl.Args[1].(string) != b) {
				viol("backend-saw-a-string-that-is-not-in-this-frame:Trenameat", map[string]any{})
			}
		}
	case "xattrwalk":
		name := string(r.Bytes(maxI(1, st.n)))
		calls, res, ok := w.rpc(c, cn, wire.Txattrwalk, u(5), u(61), name)
		if !ok {
			return false
		}
		var val []byte
		for _, cl := range calls {
			if cl.Method == "GetXattr" {
				if cl.Args[0].(string) != name {
					viol("backend-saw-a-string-that-is-not-in-this-frame:Txattrwalk", map[string]any{})
				}
				val = cl.Rets[0].([]byte)
			}
		}
		if res.Msg.Type == wire.Rxattrwalk && len(val) > 0 {
			// the value read back is exactly what the backend produced now
			rd := cn.p.RPC(wire.Tread, u(61), u(0), u(uint64(len(val))))
			if rd.OK && rd.Msg.Type == wire.Rread && !bytes.Equal(rd.Msg.F[0].([]byte), val) {
				viol("xattr-read-returns-bytes-not-produced-for-this-request", map[string]any{})
			}
		}
		cn.s.clunk(61)
	case "attach":
		var parts []string
		left := st.n
		for left > 0 {
			k := minI(left, 1+r.Intn(30))
			parts = append(parts, "d"+genStr(r, k))
			left -= k + 2
		}
		an := strings.Join(parts, "/")
		calls, _, ok := w.rpc(c, cn, wire.Tattach, u(62), u(wire.NOFID), string(r.Bytes(st.n%300)), an, u(wire.NOUID))
		if !ok {
			return false
		}
		var seen []string
		for _, cl := range calls {
			if cl.Method == "Walk" || cl.Method == "WalkGetAttr" {
				seen = append(seen, cl.Args[0].([]string)...)
			}
		}
		if strings.Join(seen, "/") != an {
			viol("backend-saw-names-that-are-not-in-this-frame:Tattach", map[string]any{"aname_len": len(an)})
		}
		cn.s.clunk(62)
	case "write":
		data := r.Bytes(st.n)
		calls, _, ok := w.rpc(c, cn, wire.Twrite, u(2), u(uint64(r.Intn(1000))), data)
		if !ok {
			return false
		}
		for _, cl := range calls {
			if cl.Method == "WriteAt" && !bytes.Equal(cl.Args[0].([]byte), data) {
				viol("backend-saw-payload-bytes-that-are-not-in-this-frame:Twrite", map[string]any{"seen": len(cl.Args[0].([]byte))})
			}
		}
	case "read":
		n := minI(st.n, 65536-11)
		calls, res, ok := w.rpc(c, cn, wire.Tread, u(2), u(uint64(r.Intn(1000))), u(uint64(n)))
		if !ok {
			return false
		}
		for _, cl := range calls {
			if cl.Method == "ReadAt" && res.Msg.Type == wire.Rread {
				want := cl.Rets[0].([]byte) // first half produced, second half never written by the backend: must be zero
				if got := res.Msg.F[0].([]byte); !bytes.Equal(got, want) {
					at := 0
					for at < len(got) && at < len(want) && got[at] == want[at] {
						at++
					}
					viol("read-reply-carries-bytes-the-backend-did-not-produce", map[string]any{"first_difference_at": at, "reply_len": len(got)})
				}
			}
		}
	case "xattrcreate":
		calls0, _, ok := w.rpc(c, cn, wire.Twalk, u(5), u(63), []string{})
		_ = calls0
		if !ok {
			return false
		}
		data := r.Bytes(minI(st.n, 60000))
		name := string(r.Bytes(1 + st.n%200))
		if _, _, ok = w.rpc(c, cn, wire.Txattrcreate, u(63), name, u(uint64(len(data))), u(0)); !ok {
			return false
		}
		if r.Intn(2) == 0 {
			half := len(data) / 2
			w.rpc(c, cn, wire.Twrite, u(63), u(0), data[:half])
			w.rpc(c, cn, wire.Twrite, u(63), u(uint64(half)), data[half:])
		} else {
			// the whole value in one Twrite; before the Tclunk commits it,
			// other Twrites of exactly the same length go by on other
			// connections (recycled message objects keep their payload buffer
			// for a payload of the same size)
			w.rpc(c, cn, wire.Twrite, u(63), u(0), data)
			for j := 0; j < 5; j++ {
				on := w.conns[(j+1)%len(w.conns)]
				w.rpc(c, on, wire.Twrite, u(2), u(uint64(r.Intn(100))), r.Bytes(len(data)))
			}
		}
		calls, _, ok := w.rpc(c, cn, wire.Tclunk, u(63))
		if !ok {
			return false
		}
		for _, cl := range calls {
			if cl.Method == "SetXattr" && (cl.Args[0].(string) != name || !bytes.Equal(cl.Args[1].([]byte), data)) {
				viol("backend-saw-xattr-bytes-that-are-not-in-these-frames", map[string]any{"seen": len(cl.Args[1].([]byte))})
			}
		}
	case "readdir":
		calls, res, ok := w.rpc(c, cn, wire.Treaddir, u(3), u(uint64(r.Intn(9))), u(uint64(st.n)))
		if !ok {
			return false
		}
		for _, cl := range calls {
			if cl.Method == "Readdir" && res.Msg.Type == wire.Rreaddir {
				var fit []wire.Dirent
				used := 0
				for _, e := range wDirents(cl.Rets[0].(p9.Dirents)) {
					if used+wire.DirentSize(e.Name) > st.n {
						break
					}
					used += wire.DirentSize(e.Name)
					fit = append(fit, e)
				}
				if !bytes.Equal(res.Msg.F[0].([]byte), wire.EncodeDirents(fit)) {
					viol("reply-carries-entries-not-produced-for-this-request:Rreaddir", map[string]any{"fit": len(fit)})
				}
			}
		}
	case "reject":
		// a Twalk abandoned mid-decode: count says 300 names, body holds a few
		body := wire.Encode(wire.Twalk, 0, u(1), u(64), genNames(r, 3+st.n%7))[7:]
		body[8], body[9] = 0x2c, 0x01
		tag := cn.p.Tag()
		cn.p.SendFrame(wire.Frame(wire.Twalk, tag, body))
		if _, ok, o, d := cn.p.At(cn.p.NReplies()); !ok {
			_ = o
			_ = d
		}
		cn.p.Forget(tag, wire.Twalk)
		time.Sleep(0)
		// wait for the error reply (tag or NOTAG)
		quiesce.WaitUntil(func() bool { return len(cn.p.Outstanding()) == 0 }, wd)
		cn.p.Monitor()
	case "short":
		// a well-delimited frame that ends before its type's fields do: whatever
		// the receiver makes of it, nothing may be completed from bytes that an
		// earlier frame left in a recycled buffer. Every candidate, completed
		// from such bytes, would reach the backend or drop a binding.
		cands := []struct {
			t    uint8
			vals []any
			max  int // cut strictly below this many body bytes
		}{
			{wire.Tclunk, []any{u(5)}, 4},
			{wire.Tremove, []any{u(5)}, 4},
			{wire.Twalk, []any{u(1), u(60), genNames(r, 1+st.n%5)}, 1 << 20},
			{wire.Tmkdir, []any{u(1), genStr(r, 1+st.n%40), u(0755), u(0)}, 1 << 20},
			{wire.Tsymlink, []any{u(1), genStr(r, 1+st.n%40), genStr(r, 1+st.n%90), u(0)}, 1 << 20},
			{wire.Trenameat, []any{u(1), genStr(r, 1+st.n%40), u(0), genStr(r, 1+st.n%30)}, 1 << 20},
			{wire.Tunlinkat, []any{u(1), genStr(r, 1+st.n%40), u(0)}, 1 << 20},
			{wire.Twrite, []any{u(2), u(7), r.Bytes(1 + st.n%50)}, 16},
			{wire.Tread, []any{u(2), u(0), u(16)}, 16},
			{wire.Tgetattr, []any{u(1), u(0x3fff)}, 12},
			{wire.Tsetattr, []any{u(1), u(1), u(0600), u(0), u(0), u(0), u(0), u(0), u(0), u(0)}, 1 << 20},
			{wire.Txattrwalk, []any{u(5), u(61), genStr(r, 1+st.n%60)}, 1 << 20},
			{wire.Tattach, []any{u(62), u(wire.NOFID), "u", genStr(r, 1+st.n%20), u(wire.NOUID)}, 1 << 20},
			{wire.Tlcreate, []any{u(1), genStr(r, 1+st.n%20), u(2), u(0644), u(0)}, 1 << 20},
		}
		cd := cands[r.Intn(len(cands))]
		body, err := wire.EncodeBody(cd.t, cd.vals)
		if err != nil || len(body) == 0 {
			return true
		}
		k := r.Intn(minI(len(body), cd.max))
		switch r.Intn(4) {
		case 0:
			k = 0
		case 1:
			k = minI(len(body), cd.max) - 1
		}
		tag := cn.p.Tag()
		w.mu.Lock()
		mark := w.rf.Len()
		w.mu.Unlock()
		// the answer carries the frame's tag or NOTAG (the statement does not say which)
		from := cn.p.NReplies()
		cn.p.SendFrame(wire.Frame(cd.t, tag, body[:k]))
		rp, got, out, dump := cn.p.At(from)
		cn.p.Forget(tag, cd.t)
		if !got {
			if out != quiesce.CondMet {
				hang(c, out, dump, "C18:short-frame-unanswered:"+wire.TypeName(cd.t), nil)
			} else {
				c.Violation("C18:connection-ended-by-short-frame:"+wire.TypeName(cd.t), map[string]any{"body_bytes": k})
			}
			return false
		}
		res := rawpeer.Result{Msg: rp.Msg, Raw: rp.Raw, OK: true}
		if calls := w.rf.Since(mark); len(calls) > 0 {
			viol("frame-ending-early-completed-from-bytes-outside-it:backend-call:"+wire.TypeName(cd.t), map[string]any{"body_bytes_sent": k, "body_bytes_needed": len(body), "reply": res.Msg.String(), "backend_calls": callList(calls)})
		}
		for _, fid := range []uint64{0, 1, 2, 3, 5} {
			if g := cn.p.RPC(wire.Tgetattr, u(fid), u(1)); g.OK && g.Msg.Type != wire.Rgetattr {
				viol("frame-ending-early-completed-from-bytes-outside-it:binding-lost:"+wire.TypeName(cd.t), map[string]any{"body_bytes_sent": k, "fid": fid, "reply": res.Msg.String(), "probe": g.Msg.String()})
				return false
			}
		}
		for _, fid := range []uint64{60, 61, 62} {
			if g := cn.p.RPC(wire.Tclunk, u(fid)); g.OK && g.Msg.Type == wire.Rclunk {
				viol("frame-ending-early-completed-from-bytes-outside-it:fid-bound:"+wire.TypeName(cd.t), map[string]any{"body_bytes_sent": k, "fid": fid, "reply": res.Msg.String()})
			}
		}
		c.Case(fmt.Sprintf("short:%s:%s", wire.TypeName(cd.t), lenClass2(k)), true)
		c.Count("short_frames_checked", 1)
		return true
	case "version":
		ms := []uint64{1 << 20, 1 << 19, 1 << 17, 1 << 18}[r.Intn(4)]
		res := cn.p.Version(uint32(ms), v7)
		if !res.OK {
			return false
		}
	}
	c.Case(fmt.Sprintf("%s:%s->%s", st.kind, lenClass2(prevLen[key]), lenClass2(st.n)), longer)
	c.Count("messages_checked", 1)
	return true
}

func lenClass2(n int) string {
	switch {
	case n == 0:
		return "0"
	case n < 8:
		return "s"
	case n < 256:
		return "m"
	case n < 8192:
		return "l"
	}
	return "L"
}

func runC18(c *ev.Ctx) {
	r := c.Rand("c18")
	rounds := c.Sz(160, 600)
	for round := 0; round < rounds; round++ {
		if !c.Mine(round) {
			continue
		}
		rr := r.Fork(uint64(round))
		nconn := 1 + round%4
		w := newC18World(c, uint64(round)+c.Seed, nconn, 1<<20)
		if w == nil {
			continue
		}
		hist := c18History(rr, c.Sz(60, 1500))
		prev := map[string]int{}
		for i, st := range hist {
			cn := w.conns[(i*7+rr.Intn(2))%nconn]
			if !c18Do(c, w, cn, st, rr, prev) {
				break
			}
		}
		for _, cn := range w.conns {
			for _, m := range cn.p.Monitor() {
				if !strings.HasPrefix(m, "reply-stream:unsolicited-reply") && !strings.HasPrefix(m, "msize-exceeded") {
					c.Violation("C18:reply-stream:"+firstWord(m), map[string]any{"monitor": m})
				}
			}
		}
		// epilogue: every connection ends inside the body of a last frame (pipe
		// and socket transports alike). What the stream did not deliver must
		// not be made up from whatever the recycled decode buffer still holds:
		// the frame is not executed.
		for ci, cn := range w.conns {
			mark := w.rf.Len()
			var fr []byte
			if (round+ci)%2 == 0 {
				fr = wire.Encode(wire.Twalk, 77, u(0), u(77), []string{strings.Repeat("T", 40+rr.Intn(80))})
			} else {
				fr = wire.Encode(wire.Tsymlink, 77, u(1), strings.Repeat("n", 10+rr.Intn(30)), strings.Repeat("t", 20+rr.Intn(60)), u(0))
			}
			k := 8 + rr.Intn(len(fr)-8)
			cn.p.SendRaw(fr[:k])
			cn.p.Flush()
			cn.p.C.Close()
			if o, d := quiesce.Await(cn.p.HandleDone, wd); o != quiesce.CondMet {
				hang(c, o, d, "C18:Handle-does-not-return-after-a-frame-cut-short", nil)
				continue
			}
			for _, cl := range w.rf.Since(mark) {
				if cl.Method != "Close" {
					c.Violation("C18:frame-cut-short-by-the-end-of-the-stream-was-executed:"+wire.TypeName(fr[4]), map[string]any{"frame_bytes": len(fr), "delivered": k, "backend_call": cl.String()})
					break
				}
			}
			c.Count("frames_cut_short_by_end_of_stream", 1)
		}
		if c.WantSample() {
			var l []string
			for _, st := range hist[:minI(len(hist), 12)] {
				l = append(l, fmt.Sprintf("%s(%d)", st.kind, st.n))
			}
			c.Sample(map[string]any{"connections": nconn, "history_length": len(hist), "history_head": l})
		}
		w.close()
	}
	c18Pipelined(c)
	c18PipelinedSmallWrites(c)
	c18ClientErrors(c)
	if c.Thorough() {
		c18Concurrent(c)
	}
}

// c18Concurrent: connections run their histories at the same time (race
// detector on): several cached objects of one type are in flight at once.
func c18Concurrent(c *ev.Ctx) {
	r := c.Rand("c18conc")
	for round := 0; round < 20; round++ {
		if !c.Mine(round) {
			continue
		}
		w := newC18World(c, uint64(round)+977, 4, 1<<20)
		if w == nil {
			continue
		}
		var wg sync.WaitGroup
		for i, cn := range w.conns {
			wg.Add(1)
			go func(i int, cn *c18conn) {
				defer wg.Done()
				rr := r.Fork(uint64(round*10 + i))
				prev := map[string]int{}
				for _, st := range c18History(rr, 100) {
					if st.kind == "version" || st.kind == "reject" {
						continue
					}
					// the log delta of concurrent connections interleaves: compare only what
					// is attributable (names/strings are unique per connection by PRNG)
					_ = prev
					switch st.kind {
					case "write":
						data := rr.Bytes(st.n)
						data = append([]byte{byte(i)}, data...)
						cn.p.RPC(wire.Twrite, u(2), u(uint64(i)), data)
					case "read":
						cn.p.RPC(wire.Tread, u(2), u(0), u(uint64(minI(st.n, 60000))))
					default:
						cn.p.RPC(wire.Twalk, u(1), u(70), genNames(rr, minI(st.n, 50)))
						cn.s.clunk(70)
					}
				}
			}(i, cn)
		}
		done := make(chan struct{})
		go func() { wg.Wait(); close(done) }()
		if o, d := quiesce.Await(done, 4*wd); o != quiesce.CondMet {
			hang(c, o, d, "C18:concurrent-history-hangs", nil)
		}
		// every recorded write must be intact: first byte = connection index = offset
		for _, cl := range w.rf.Since(0) {
			if cl.Method == "WriteAt" && len(cl.Args[0].([]byte)) > 0 && int64(cl.Args[0].([]byte)[0]) != cl.Args[1].(int64) && cl.Args[1].(int64) < 4 {
				c.Violation("C18:concurrent:payload-of-another-connection", map[string]any{"offset": cl.Args[1]})
			}
		}
		c.Case(fmt.Sprintf("concurrent:%d", round), true)
		w.close()
	}
}

// c18Pipelined: many Treads in flight on ONE connection, over files whose
// content is a function of (file, offset) and which are small enough that most
// reads run into end of file (the backend then returns (n, io.EOF), as os.File
// does). Every reply must carry exactly the bytes of its own request: the read
// buffers a connection recycles must never be shared by two replies in flight.
func c18Pipelined(c *ev.Ctx) {
	r := c.Rand("c18pipe")
	rounds := c.Sz(120, 3000)
	for round := 0; round < rounds; round++ {
		rr := r.Fork(uint64(round))
		if !c.Mine(round) {
			continue
		}
		c.Begin(fmt.Sprintf("C18 pipelined reads round %d", round))
		fs := memfs.New()
		const nfiles = 6
		var nodes []*memfs.Node
		for k := 0; k < nfiles; k++ {
			n := fs.MkPath(fmt.Sprintf("/p%d", k), p9.ModeRegular|0644, "")
			n.Synth, n.SynthSz = true, uint64(1+rr.Intn(6000))
			if k == 0 {
				n.SynthSz = 1 << 20
			}
			nodes = append(nodes, n)
		}
		if round%2 == 1 {
			fs.SetJitter(uint64(round) + c.Seed)
		}
		fs.NoLog = true
		srv := p9.NewServer(fs)
		msize := []uint32{4096, 8192, 1 << 16}[round%3]
		s, vr := newSess(srv, msize, v7)
		ok := vr.OK && s.attach(0, "").Errno() == 0
		for k := 0; k < nfiles && ok; k++ {
			ok = s.walk(0, uint64(10+k), fmt.Sprintf("p%d", k)).Errno() == 0 && s.open(uint64(10+k), 0).Errno() == 0
		}
		if !ok {
			c.Violation("C18:valid-request-refused-over-a-backend-that-accepts-everything:setup", map[string]any{"workload": "pipelined"})
			s.P.Close()
			continue
		}
		inflight := []int{2, 3, 8, 32, 64}[rr.Intn(5)]
		total := inflight * (6 + rr.Intn(6))
		type rd struct {
			k        int
			off, cnt uint64
		}
		out := map[uint16]rd{}
		p := s.P
		cons := p.NReplies()
		sent, bad := 0, false
		send := func(tag uint16) {
			q := rd{k: rr.Intn(nfiles), cnt: uint64(rr.Intn(int(msize)))}
			sz := nodes[q.k].SynthSz
			switch rr.Intn(4) {
			case 0:
				q.off = uint64(rr.Intn(int(minU64(sz, 1<<16)) + 1))
			case 1:
				if sz > q.cnt {
					q.off = sz - q.cnt // ends exactly at end of file
				}
			default:
				q.off = sz - minU64(sz, uint64(rr.Intn(300))) // runs into end of file
			}
			out[tag] = q
			p.Send(wire.Tread, tag, u(uint64(10+q.k)), q.off, q.cnt)
			sent++
		}
		for t := 0; t < inflight; t++ {
			send(uint16(100 + t))
		}
		eofs := 0
		for !bad && len(out) > 0 {
			rep := p.PollFrom(&cons)
			if rep == nil {
				if st, dump := quiesce.WaitUntil(func() bool { return p.NReplies() > cons || p.ReadErr() != nil }, wd); st != quiesce.CondMet {
					hang(c, st, dump, "C18:pipelined:reads-unanswered", map[string]any{"in_flight": len(out)})
					bad = true
				} else if p.ReadErr() != nil && p.NReplies() <= cons {
					c.Violation("C18:pipelined:connection-ended", map[string]any{"err": p.ReadErr().Error()})
					bad = true
				}
				continue
			}
			q, mine := out[rep.Msg.Tag]
			if !mine {
				continue
			}
			delete(out, rep.Msg.Tag)
			det := map[string]any{"file": q.k, "offset": q.off, "count": q.cnt, "file_size": nodes[q.k].SynthSz, "in_flight": inflight, "msize": msize}
			if rep.Msg.Type != wire.Rread {
				det["reply"] = rep.Msg.String()
				c.Violation("C18:pipelined:read-refused", det)
				bad = true
				break
			}
			d := rep.Msg.F[0].([]byte)
			want := uint64(0)
			if sz := nodes[q.k].SynthSz; q.off < sz {
				want = minU64(minU64(q.cnt, sz-q.off), uint64(msize)-11)
			}
			if q.off+q.cnt >= nodes[q.k].SynthSz {
				eofs++
			}
			if uint64(len(d)) != want {
				det["got"], det["want"] = len(d), want
				c.Violation("C18:pipelined:read-reply-has-another-length-than-the-backend-produced", det)
				bad = true
				break
			}
			for i := range d {
				if d[i] != memfs.SynthByte(nodes[q.k].ID, q.off+uint64(i)) {
					det["first_difference_at"] = i
					c.Violation("C18:pipelined:read-reply-carries-bytes-the-backend-did-not-produce-for-it", det)
					bad = true
					break
				}
			}
			c.Count("pipelined_reads_checked", 1)
			if sent < total {
				send(rep.Msg.Tag)
			}
		}
		c.Case(fmt.Sprintf("pipelined:%d:%d:eof=%v", inflight, msize, eofs > 0), eofs > 0 && inflight >= 2)
		s.P.Close()
	}
}

// c18ClientErrors: the client side of "a decoded message is a function of its
// own frame alone". Several goroutines share one Client; each call is answered
// with Rlerror carrying an errno that is a function of ITS fid. The object an
// error reply is decoded into must not be shared with the next error reply.
func c18ClientErrors(c *ev.Ctx) {
	rounds := c.Sz(24, 200)
	defer runtime.GOMAXPROCS(runtime.GOMAXPROCS(8))
	for round := 0; round < rounds; round++ {
		if !c.Mine(round) {
			continue
		}
		c.Begin(fmt.Sprintf("C18 client errors round %d", round))
		const G = 6
		cc := c10Setup(c, G, fakesrv.Auto(0, 7))
		if cc == nil {
			continue
		}
		var wg sync.WaitGroup
		bad := make([]string, G)
		for g := 0; g < G; g++ {
			wg.Add(1)
			go func(g int) {
				defer wg.Done()
				for i := 0; i < 400 && bad[g] == ""; i++ {
					if s := cc.do(g, c10call{kind: 'E'}); s != "" && !strings.HasPrefix(s, "error:") {
						bad[g] = s
					}
				}
			}(g)
		}
		done := make(chan struct{})
		go func() { wg.Wait(); close(done) }()
		if o, d := quiesce.Await(done, 2*wd); o != quiesce.CondMet {
			hang(c, o, d, "C18:cli:calls-hang", nil)
			cc.fs.Shutdown()
			continue
		}
		for g, s := range bad {
			if s != "" {
				c.Violation("C18:cli:error-reply-carries-another-reply's-errno", map[string]any{"caller": g, "what": s})
				break
			}
		}
		c.Case("cli-errors", true)
		c.Count("client_error_replies_checked", G*400)
		cc.fs.Shutdown()
	}
}

// c18PipelinedSmallWrites: many small Twrites (1-60 data bytes: frames that fit
// the receiver's smallest pooled buffer) leave in one write on one connection,
// and on a second connection at the same time; the backend yields before it
// looks at the data. Every write stores exactly its own bytes: a decoded
// payload is not a view into a buffer that the next frame's decoder is about
// to fill.
func c18PipelinedSmallWrites(c *ev.Ctx) {
	r := c.Rand("c18smallw")
	rounds := c.Sz(40, 1500)
	for round := 0; round < rounds; round++ {
		rr := r.Fork(uint64(round))
		if !c.Mine(round) {
			continue
		}
		c.Begin(fmt.Sprintf("C18 pipelined small writes round %d", round))
		fs := memfs.New()
		const nfiles = 4
		for k := 0; k < nfiles; k++ {
			fs.MkPath(fmt.Sprintf("/w%d", k), p9.ModeRegular|0644, "")
		}
		fs.SetJitter(uint64(round) + c.Seed + 1)
		fs.NoLog = true
		srv := p9.NewServer(fs)
		var ss []*sess
		ok := true
		for ci := 0; ci < 2 && ok; ci++ {
			s, vr := newSess(srv, 1<<16, v7)
			ok = vr.OK && s.attach(0, "").Errno() == 0
			for k := 0; k < nfiles && ok; k++ {
				ok = s.walk(0, uint64(10+k), fmt.Sprintf("w%d", k)).Errno() == 0 && s.open(uint64(10+k), 2).Errno() == 0
			}
			ss = append(ss, s)
		}
		if !ok {
			c.Violation("C18:valid-request-refused-over-a-backend-that-accepts-everything:setup", map[string]any{"workload": "pipelined small writes"})
			for _, s := range ss {
				s.P.Close()
			}
			continue
		}
		type wr struct {
			k    int
			off  uint64
			data []byte
		}
		n := 16 + rr.Intn(48)
		var all [2][]wr
		from := [2]int{ss[0].P.NReplies(), ss[1].P.NReplies()}
		for ci := 0; ci < 2; ci++ {
			var batch []byte
			for i := 0; i < n; i++ {
				d := make([]byte, 1+rr.Intn(60))
				for j := range d {
					d[j] = byte(round*31 + ci*101 + i*7 + j)
				}
				w := wr{k: (i + ci) % nfiles, off: uint64((ci*n+i)*64) + uint64(ci)*1_000_000, data: d}
				all[ci] = append(all[ci], w)
				fr := wire.Encode(wire.Twrite, uint16(100+i), u(uint64(10+w.k)), w.off, d)
				ss[ci].P.Expect(fr)
				batch = append(batch, fr...)
			}
			ss[ci].P.SendRaw(batch)
		}
		bad := false
		for ci := 0; ci < 2 && !bad; ci++ {
			for i := 0; i < n; i++ {
				res, got, o, d := ss[ci].P.WaitTag(uint16(100+i), from[ci])
				if !got {
					hang(c, o, d, "C18:small-writes:request-unanswered", nil)
					bad = true
					break
				}
				if res.Msg.Type != wire.Rwrite {
					c.Violation("C18:valid-request-refused-over-a-backend-that-accepts-everything:Twrite", map[string]any{"reply": res.Msg.String()})
					bad = true
					break
				}
			}
		}
		if !bad {
		check:
			for ci := 0; ci < 2; ci++ {
				for i, w := range all[ci] {
					got := fs.Lookup(fmt.Sprintf("/w%d", w.k)).Data
					if uint64(len(got)) < w.off+uint64(len(w.data)) || !bytes.Equal(got[w.off:w.off+uint64(len(w.data))], w.data) {
						c.Violation("C18:small-writes:backend-stored-bytes-that-are-not-the-request's", map[string]any{"connection": ci, "write": i, "len": len(w.data), "in_flight": n})
						break check
					}
				}
			}
		}
		c.Case(fmt.Sprintf("small-writes:%d", n/16), true)
		c.Count("pipelined_small_writes", int64(2*n))
		for _, s := range ss {
			s.P.Close()
		}
	}
}
