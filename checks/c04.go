package checks

import (
	"fmt"
	"sort"
	"time"

	"verif/internal/ev"
	"verif/internal/memfs"
	"verif/internal/model"
	"verif/internal/wire"
)

func init() {
	ev.Register(&ev.Spec{
		ID: "C04", Level: "exploration",
		Rule:    "(a) model-guided bounded-exhaustive: breadth-first over an alphabet of ~75 requests (fids {0,1,2,7}, every T-type incl. Tauth, auth-fid attach, open modes, xattr walk/create/read/write/clunk, remove, rename family), de-duplicating canonical (model state, backend tree) pairs and executing every (state, request) edge on a fresh real server; (b) PRNG sequences of 150-1500 requests over wider alphabets with fid re-use and operations on clunked fids; after every step every small fid is probed (Tgetattr: EBADF iff the model says unbound). Every reply is compared with the session model's verdict (set of acceptable errnos / success type / errno of the failing backend call) and rejected requests must not reach the backend. Directed: a Txattrcreate on a fid that already carries a pending xattr value (bound by Txattrwalk, or a second Txattrcreate after writes) - if it is answered Rxattrcreate the pending value starts empty. Non-trivial: the edge passes fid lookup; distinct by (state hash, request).",
		Assume:  []string{"internal/model encodes the statement's rules and nothing else; outcomes the statement leaves open are don't-care and end the sequence", "memfs (path-bound handles) as backend"},
		Shards:  shards(8, 16),
		Timeout: timeout(8*time.Minute, 60*time.Minute),
		Run:     runC04,
	})
}

type areq struct {
	t    uint8
	vals []any
}

func (a areq) String() string { return wire.Msg{Type: a.t, F: a.vals}.String() }

func R(t uint8, vals ...any) areq { return areq{t, vals} }

func c04Alphabet() []areq {
	var al []areq
	nf := u(wire.NOFID)
	al = append(al, R(wire.Tattach, u(0), nf, "u", "", u(wire.NOUID)), R(wire.Tattach, u(1), nf, "u", "a", u(wire.NOUID)),
		R(wire.Tattach, u(1), u(7), "u", "", u(wire.NOUID)), R(wire.Tauth, u(5), "u", "", u(wire.NOUID)), R(wire.Tflush, u(99)))
	for _, w := range []struct {
		f, n  uint64
		names []string
	}{{0, 1, []string{}}, {0, 1, []string{"a"}}, {0, 1, []string{"f"}}, {0, 2, []string{"a", "g"}}, {0, 2, []string{"l"}}, {0, 2, []string{"p"}}, {0, 1, []string{"zz"}}, {0, 2, []string{"f", "x"}},
		{1, 2, []string{}}, {1, 2, []string{"g"}}, {1, 1, []string{}}, {1, 1, []string{"b"}}, {2, 1, []string{}}, {7, 1, []string{}}, {0, 0, []string{"d"}}, {1, 2, []string{"new"}}, {0, 2, []string{"s"}}} {
		al = append(al, R(wire.Twalk, w.f, w.n, w.names))
	}
	al = append(al, R(wire.Twalkgetattr, u(0), u(2), []string{"a"}), R(wire.Twalkgetattr, u(1), u(2), []string{}))
	for _, f := range []uint64{1, 2} {
		for _, fl := range []uint64{0, 1, 2, 0x8000, 0x201, 0x10000} { // access mode plus, sometimes, bits beyond it (O_LARGEFILE, O_TRUNC; O_DIRECTORY, which the backend refuses on a non-directory as open(2) does)
			al = append(al, R(wire.Tlopen, f, fl))
		}
		al = append(al, R(wire.Tread, f, u(0), u(8)), R(wire.Twrite, f, u(0), []byte("xy")), R(wire.Twrite, f, u(2), []byte("zw")), R(wire.Treaddir, f, u(0), u(4096)), R(wire.Tfsync, f),
			R(wire.Treadlink, f), R(wire.Tgetattr, f, u(0x3fff)), R(wire.Tsetattr, f, u(1), u(0600), u(0), u(0), u(0), u(0), u(0), u(0), u(0)),
			R(wire.Tclunk, f), R(wire.Tremove, f))
	}
	al = append(al, R(wire.Tclunk, u(0)), R(wire.Tclunk, u(7)), R(wire.Tstatfs, u(1)), R(wire.Tlock, u(2), u(1), u(0), u(0), u(8), u(3), "c"), R(wire.Tread, u(7), u(0), u(1)),
		R(wire.Tread, u(2), u(0), u(0)), R(wire.Tread, u(2), u(0), u(4<<20+1)), R(wire.Tread, u(2), u(4), u(4)),
		// offsets at the end of the range (fid 1 and 2 may be xattr fids by then)
		R(wire.Tread, u(1), u(1<<64-1), u(1)), R(wire.Tread, u(2), u(1<<64-1), u(8)), R(wire.Tread, u(2), u(1<<63), u(8)), R(wire.Twrite, u(2), u(1<<64-1), []byte("z")),
		R(wire.Tlcreate, u(1), "new", u(2), u(0644), u(0)), R(wire.Tucreate, u(1), "new2", u(1), u(0644), u(0), u(0)), R(wire.Tlcreate, u(2), "x", u(2), u(0644), u(0)),
		R(wire.Tlcreate, u(1), "new3", u(0x8000), u(0644), u(0)), R(wire.Tucreate, u(1), "new4", u(0x201), u(0644), u(0), u(0)),
		R(wire.Tmkdir, u(1), "nd", u(0755), u(0)), R(wire.Tsymlink, u(1), "ns", "tgt", u(0)), R(wire.Tmknod, u(1), "nn", u(0010644), u(0), u(0), u(0)), R(wire.Tlink, u(1), u(2), "ln"),
		R(wire.Txattrwalk, u(1), u(2), "user.x"), R(wire.Txattrwalk, u(2), u(1), ""), R(wire.Txattrwalk, u(2), u(1), "user.missing"), R(wire.Txattrcreate, u(2), "user.n", u(4), u(0)),
		R(wire.Txattrcreate, u(1), "user.z", u(0), u(2)),
		R(wire.Trenameat, u(1), "g", u(1), "h"), R(wire.Trenameat, u(1), "g", u(1), "g"), R(wire.Trenameat, u(1), "g", u(2), "h"), R(wire.Trename, u(2), u(1), "r"), R(wire.Trename, u(1), u(0), "q"),
		R(wire.Tunlinkat, u(1), "g", u(0)), R(wire.Tunlinkat, u(1), "b", u(0)), R(wire.Tunlinkat, u(2), "x", u(0)))
	return al
}

// c04Exec runs a sequence on a fresh world and returns the resulting key.
func c04Exec(c *ev.Ctx, prop string, seq []areq, nconn int, identity bool) (key string, cut bool, st *stepper) {
	fs := fixture()
	fs.AltWalkGetAttr = true
	fs.Recursive = identity // a backend may remove non-empty directories: fids strictly below become fenced
	st = newStepper(c, prop, fs, nconn)
	if st.dead {
		c.Inconclusive(prop + ": world setup failed")
		return "", true, st
	}
	for _, a := range seq {
		if st.w.Judge(0, wire.Msg{Type: a.t, F: a.vals}).DontCare {
			return "", true, st
		}
		r := st.step(0, a.t, a.vals...)
		if st.dead || !r.ok {
			return "", true, st
		}
		if r.dontCare {
			return "", true, st
		}
		if identity {
			st.probe(4, true)
			if err := treeCheck(st); err != "" {
				c.Violation(prop+":path-tree-inconsistent", map[string]any{"error": err, "trace": st.tail()})
				return "", true, st
			}
		}
	}
	return st.w.Key() + "|" + fs.Snapshot(), false, st
}

func runC04(c *ev.Ctx) {
	c04BFS(c)
	c04XattrRestart(c)
	c04Random(c, "C04", c.Sz(300, 6000), 1, false)
}

func c04BFS(c *ev.Ctx) {
	start := []areq{R(wire.Tattach, u(0), u(wire.NOFID), "u", "", u(wire.NOUID))}
	bfs(c, "C04", start, c04Alphabet(), c.Sz(4, 5), c.Sz(4000, 100000), 3, false)
}

// bfs explores, breadth-first, every (state, request) edge up to depth
// requests after the start sequence, executing each edge on a fresh server.
func bfs(c *ev.Ctx, prop string, start []areq, al []areq, depth, maxStates int, maxfid uint64, identity bool) {
	type node struct {
		seq []int
	}
	seen := map[string]bool{}
	// depth-1 edges are sharded; each shard explores the subtrees of its own
	var frontier []node
	for i := range al {
		if c.Mine(i) {
			frontier = append(frontier, node{[]int{i}})
		}
	}
	build := func(ix []int) []areq {
		// every witness starts from the start sequence (an attached root, ...)
		s := append([]areq(nil), start...)
		for _, i := range ix {
			s = append(s, al[i])
		}
		return s
	}
	states := 0
	edges := 0
	// level 1
	var next []node
	for _, n := range frontier {
		c.Begin(fmt.Sprintf("%s bfs %v", prop, n.seq))
		key, cut, st := c04Exec(c, prop, build(n.seq), 1, identity)
		if !st.dead {
			st.probe(maxfid, identity)
		}
		st.close()
		edges++
		c.Case("edge:root:"+al[n.seq[0]].String(), true)
		if !cut && !seen[key] {
			seen[key] = true
			states++
			next = append(next, n)
		}
	}
	frontier = next
	for d := 2; d <= depth; d++ {
		next = nil
		for _, n := range frontier {
			for i := range al {
				if states >= maxStates && d == depth {
					break
				}
				seq := append(append([]int(nil), n.seq...), i)
				c.Begin(fmt.Sprintf("%s bfs %v", prop, seq))
				key, cut, st := c04Exec(c, prop, build(seq), 1, identity)
				if !st.dead {
					st.probe(maxfid, identity)
				}
				if c.WantSample() && d == depth && i%23 == 0 {
					c.Sample(map[string]any{"part": "bfs", "sequence": st.tail()})
				}
				st.close()
				edges++
				c.Case(fmt.Sprintf("edge:%d:%s", ev.H(fmt.Sprint(n.seq)), al[i].String()), true)
				if !cut && !seen[key] {
					seen[key] = true
					states++
					if d < depth {
						next = append(next, node{seq})
					}
				}
			}
		}
		frontier = next
	}
	c.Count("bfs_states", int64(states))
	c.Count("bfs_edges_executed", int64(edges))
	c.Max("max_bfs_depth", int64(depth))
}

// seqGen draws the next request, biased by the model state so that many
// requests pass their preconditions.
type seqGen struct {
	r      *ev.Rand
	fs     *memfs.FS
	w      *model.World
	nconn  int
	rename int // weight of rename/unlink operations
	maxfid uint64
	queue  []c15step // a directed burst being played out (see macro)
}

// flags draws open flags: an access mode and, often, bits beyond it.
func (g *seqGen) flags() uint64 {
	fl := uint64(g.r.Intn(3))
	if g.r.Chance(40) {
		fl |= ev.Pick(g.r, []uint64{0x200, 0x400, 0x8000, 0x10000, 0x10000, 0x20000, 0x80000, 0x40, 0xFFFFFFFC})
	}
	return fl
}

func (g *seqGen) fid(conn int, bound bool) uint64 {
	if bound && g.r.Chance(85) {
		var ids []uint64
		for id := range g.w.Conns[conn] {
			ids = append(ids, id)
		}
		if len(ids) > 0 {
			sort.Slice(ids, func(i, j int) bool { return ids[i] < ids[j] })
			return ids[g.r.Intn(len(ids))]
		}
	}
	return uint64(g.r.Intn(int(g.maxfid) + 1))
}

// samePathFid returns another fid of conn bound to the same path as fid (fid
// itself if there is none).
func (g *seqGen) samePathFid(conn int, fid uint64) uint64 {
	f := g.w.Conns[conn][fid]
	if f == nil {
		return fid
	}
	var ids []uint64
	for id, o := range g.w.Conns[conn] {
		if id != fid && o.X == 0 && join2(o.Path) == join2(f.Path) {
			ids = append(ids, id)
		}
	}
	if len(ids) == 0 {
		return fid
	}
	sort.Slice(ids, func(i, j int) bool { return ids[i] < ids[j] })
	return ids[g.r.Intn(len(ids))]
}

func (g *seqGen) childName(conn int, fid uint64) string {
	if f := g.w.Conns[conn][fid]; f != nil && g.r.Chance(75) {
		if n := g.fs.Lookup("/" + join2(f.Path)); n != nil && len(n.Children) > 0 {
			var ks []string
			for k := range n.Children {
				ks = append(ks, k)
			}
			sort.Strings(ks)
			return ks[g.r.Intn(len(ks))]
		}
	}
	return ev.Pick(g.r, []string{"a", "b", "g", "f", "n1", "n2", "n3", "x", "zz", "", "..", "a/b"})
}

// macro queues a short directed burst around one entry: bind a fid to it,
// fence or move it (unlink, remove through another fid, rename over it, rename
// it), then clone / use / clunk the fids in varying order. Purely random
// choice almost never lines these steps up, and reference-count mistakes only
// show when they are.
func (g *seqGen) macro(conn int) {
	r := g.r
	// a bound, unfenced, unopened directory fid with at least one child
	var cands []uint64
	for id, f := range g.w.Conns[conn] {
		if f.Typ == 'd' && !f.Fenced && !f.Opened && f.X == 0 {
			if n := g.fs.Lookup("/" + join2(f.Path)); n != nil && len(n.Children) > 0 {
				cands = append(cands, id)
			}
		}
	}
	if len(cands) == 0 {
		return
	}
	sort.Slice(cands, func(i, j int) bool { return cands[i] < cands[j] })
	d := cands[r.Intn(len(cands))]
	n := g.childName(conn, d)
	x, y := g.maxfid-1, g.maxfid
	if x == d || y == d {
		return
	}
	q := func(a areq) { g.queue = append(g.queue, c15step{conn, a}) }
	q(R(wire.Twalk, d, x, []string{n}))
	switch r.Intn(6) {
	case 0:
		q(R(wire.Tunlinkat, d, n, u(0)))
	case 1:
		q(R(wire.Trenameat, d, ev.Pick(r, []string{"a", "b", "g", "f", n}), d, n)) // something renamed over it
	case 2:
		q(R(wire.Trenameat, d, n, d, "moved"))
	case 3:
		q(R(wire.Twalk, d, y, []string{n}))
		q(R(wire.Tremove, y))
	case 4:
		q(R(wire.Txattrwalk, x, y, ""))
		q(R(wire.Tunlinkat, d, n, u(0)))
		q(R(wire.Tclunk, y))
	}
	tail := []areq{R(wire.Twalk, x, y, []string{}), R(wire.Tclunk, y), R(wire.Tclunk, x), R(wire.Tgetattr, x, u(0x3fff)), R(wire.Twalk, x, x, []string{}), R(wire.Tremove, x), R(wire.Tgetattr, d, u(0x3fff))}
	// the canonical order first half of the time, else shuffled and thinned
	if r.Bool() {
		for _, a := range tail[:3] {
			q(a)
		}
	} else {
		for _, i := range r.Perm(len(tail)) {
			if r.Chance(60) {
				q(tail[i])
			}
		}
	}
}

func (g *seqGen) next() (conn int, a areq) {
	r := g.r
	if len(g.queue) > 0 {
		s := g.queue[0]
		g.queue = g.queue[1:]
		return s.conn, s.a
	}
	if g.maxfid >= 4 && r.Chance(4) {
		g.macro(r.Intn(g.nconn))
		if len(g.queue) > 0 {
			s := g.queue[0]
			g.queue = g.queue[1:]
			return s.conn, s.a
		}
	}
	conn = r.Intn(g.nconn)
	f := g.fid(conn, true)
	nf := uint64(r.Intn(int(g.maxfid) + 1))
	nm := g.childName(conn, f)
	fresh := ev.Pick(r, []string{"n1", "n2", "n3", "n4", nm})
	total := 100 + g.rename
	k := r.Intn(total)
	switch {
	case k >= 100: // rename-heavy extras
		switch r.Intn(5) {
		case 0:
			return conn, R(wire.Tunlinkat, f, nm, u(0))
		case 1:
			return conn, R(wire.Trename, f, g.fid(conn, true), fresh)
		case 2:
			return conn, R(wire.Tremove, f)
		case 3:
			// an entry renamed onto itself, preferably through two different
			// fids on one directory: nothing changes, nothing may be fenced
			return conn, R(wire.Trenameat, f, nm, g.samePathFid(conn, f), nm)
		default:
			return conn, R(wire.Trenameat, f, nm, g.fid(conn, true), fresh)
		}
	case k < 4:
		return conn, R(wire.Tattach, nf, u(wire.NOFID), "u", ev.Pick(r, []string{"", "", "a", "a/b", "f", "zz"}), u(wire.NOUID))
	case k < 5:
		return conn, R(wire.Tattach, nf, u(3), "u", "", u(wire.NOUID))
	case k < 6:
		return conn, R(wire.Tauth, nf, "u", "", u(wire.NOUID))
	case k < 26:
		n := r.Intn(4)
		var names []string
		cur := f
		_ = cur
		for i := 0; i < n; i++ {
			if i == 0 {
				names = append(names, nm)
			} else {
				names = append(names, ev.Pick(r, []string{"b", "g", "f", "x", "n1"}))
			}
		}
		if names == nil {
			names = []string{}
		}
		t := uint8(wire.Twalk)
		if r.Chance(25) {
			t = wire.Twalkgetattr
		}
		if r.Chance(8) {
			nf = f
		}
		return conn, R(t, f, nf, names)
	case k < 34:
		return conn, R(wire.Tlopen, f, g.flags())
	case k < 40:
		return conn, R(wire.Tclunk, f)
	case k < 42:
		return conn, R(wire.Tremove, f)
	case k < 48:
		off := uint64(r.Intn(12))
		if r.Chance(10) {
			off = ev.Pick(r, []uint64{1<<64 - 1, 1 << 63, 1<<32 - 1, 1<<64 - 8})
		}
		return conn, R(wire.Tread, f, u(off), u(uint64(r.Intn(16))))
	case k < 54:
		return conn, R(wire.Twrite, f, u(uint64(r.Intn(6))), []byte("wxyz")[:r.Intn(5)])
	case k < 58:
		return conn, R(wire.Treaddir, f, u(0), u(4096))
	case k < 60:
		return conn, R(wire.Tfsync, f)
	case k < 62:
		return conn, R(wire.Treadlink, f)
	case k < 68:
		return conn, R(wire.Tgetattr, f, u(0x3fff))
	case k < 71:
		return conn, R(wire.Tsetattr, f, u(1), u(0640), u(0), u(0), u(0), u(0), u(0), u(0), u(0))
	case k < 73:
		return conn, R(wire.Tstatfs, f)
	case k < 74:
		return conn, R(wire.Tlock, f, u(1), u(0), u(0), u(4), u(1), "c")
	case k < 78:
		if r.Bool() {
			return conn, R(wire.Tlcreate, f, fresh, g.flags(), u(0644), u(0))
		}
		return conn, R(wire.Tucreate, f, fresh, g.flags(), u(0644), u(0), u(0))
	case k < 81:
		return conn, R(wire.Tmkdir, f, fresh, u(0755), u(0))
	case k < 82:
		return conn, R(wire.Tsymlink, f, fresh, "tgt", u(0))
	case k < 83:
		return conn, R(wire.Tmknod, f, fresh, u(0010644), u(0), u(0), u(0))
	case k < 84:
		return conn, R(wire.Tlink, f, g.fid(conn, true), fresh)
	case k < 87:
		return conn, R(wire.Txattrwalk, f, nf, ev.Pick(r, []string{"user.x", "", "user.missing", "user.e"}))
	case k < 89:
		return conn, R(wire.Txattrcreate, f, "user.n", u(uint64(r.Intn(6))), u(uint64(r.Intn(3))))
	case k < 92:
		return conn, R(wire.Tunlinkat, f, nm, u(0))
	case k < 96:
		return conn, R(wire.Trenameat, f, nm, g.fid(conn, true), fresh)
	case k < 98:
		return conn, R(wire.Trename, f, g.fid(conn, true), fresh)
	default:
		return conn, R(wire.Tflush, u(uint64(9000+r.Intn(10))))
	}
}

// c04Random runs PRNG sequences with probes after every step.
func c04Random(c *ev.Ctx, prop string, nseq int, nconn int, identity bool) {
	r := c.Rand(prop + "random")
	for si := 0; si < nseq; si++ {
		if !c.Mine(si) {
			continue
		}
		rr := r.Fork(uint64(si))
		fs := fixture()
		fs.MkPath("/a/b/c/e", 0040755, "")
		fs.MkPath("/a/b/c/e/deep", 0100644, "deep")
		fs.AltWalkGetAttr = rr.Bool()
		fs.NoWalkGetAttr = rr.Chance(30)
		fs.Recursive = identity && rr.Bool()
		st := newStepper(c, prop, fs, nconn)
		if st.dead {
			c.Inconclusive(prop + " random: setup")
			st.close()
			continue
		}
		weight := 0
		if identity {
			weight = 60
		}
		g := &seqGen{r: rr, fs: fs, w: st.w, nconn: nconn, rename: weight, maxfid: 5}
		if identity {
			g.maxfid = 9
		}
		steps := 150 + rr.Intn(c.Sz(200, 1400))
		nontriv := 0
		for k := 0; k < steps && !st.dead; k++ {
			conn, a := g.next()
			if st.w.Judge(conn, wire.Msg{Type: a.t, F: a.vals}).DontCare {
				c.Count("dont_care_requests_skipped", 1)
				continue // outcome left open by the statements: not sent
			}
			c.Begin(fmt.Sprintf("%s random seq %d step %d c%d %s", prop, si, k, conn, a.String()))
			res := st.step(conn, a.t, a.vals...)
			if !res.ok {
				break
			}
			if len(res.verdict.Reject) == 0 || res.verdict.Why != "unbound-fid" {
				nontriv++
			}
			c.Case(fmt.Sprintf("%x|%s", ev.H(st.w.Key()), a.String()), res.verdict.Why != "unbound-fid")
			if res.dontCare {
				c.Count("sequences_cut_at_dont_care", 1)
				break
			}
			st.probe(g.maxfid, identity)
			if identity {
				if err := treeCheck(st); err != "" {
					c.Violation(prop+":path-tree-inconsistent", map[string]any{"error": err, "trace": st.tail()})
					break
				}
			}
		}
		c.Count("random_steps", int64(len(st.trace)))
		if c.WantSample() && si%5 == 0 {
			c.Sample(map[string]any{"part": "random", "steps": len(st.trace), "tail": st.tail()})
		}
		st.close()
	}
}

// c04XattrRestart: a Txattrcreate on a fid that already carries a pending xattr
// value - bound by Txattrwalk to a non-empty attribute, or left by an earlier
// Txattrcreate and its writes. The statements do not say whether the server
// accepts that (the breadth-first search stops at such don't-care edges); but
// if it answers Rxattrcreate, the sub-protocol starts afresh: the pending value
// is empty, a write at offset 0 is the next one, and what Tclunk commits is
// what was written since.
func c04XattrRestart(c *ev.Ctx) {
	nf := u(wire.NOFID)
	seqs := [][]areq{
		{R(wire.Tattach, u(0), nf, "u", "", u(wire.NOUID)), R(wire.Twalk, u(0), u(1), []string{"f"}), R(wire.Txattrwalk, u(1), u(2), "user.x"), R(wire.Txattrcreate, u(2), "user.b", u(5), u(0)),
			R(wire.Twrite, u(2), u(0), []byte("hel")), R(wire.Twrite, u(2), u(3), []byte("lo")), R(wire.Tclunk, u(2))},
		{R(wire.Tattach, u(0), nf, "u", "", u(wire.NOUID)), R(wire.Twalk, u(0), u(1), []string{"f"}), R(wire.Txattrcreate, u(1), "user.c", u(2), u(0)), R(wire.Twrite, u(1), u(0), []byte("ab")),
			R(wire.Txattrcreate, u(1), "user.d", u(2), u(0)), R(wire.Twrite, u(1), u(0), []byte("xy")), R(wire.Tclunk, u(1))},
		{R(wire.Tattach, u(0), nf, "u", "", u(wire.NOUID)), R(wire.Twalk, u(0), u(1), []string{"f"}), R(wire.Txattrwalk, u(1), u(2), ""), R(wire.Txattrcreate, u(2), "user.e", u(1), u(0)),
			R(wire.Twrite, u(2), u(0), []byte("z")), R(wire.Tclunk, u(2))},
	}
	for si, seq := range seqs {
		if !c.Mine(si + 1) {
			continue
		}
		fs := fixture()
		st := newStepper(c, "C04", fs, 1)
		if st.dead {
			c.Inconclusive("C04: world setup failed")
			continue
		}
		mark := fs.NCalls()
		for _, a := range seq {
			if r := st.step(0, a.t, a.vals...); st.dead || !r.ok {
				break
			}
		}
		// what was committed, if anything, is what was written after the restart
		name := map[int]string{0: "user.b", 1: "user.d", 2: "user.e"}[si]
		val := map[int]string{0: "hello", 1: "xy", 2: "z"}[si]
		for _, cl := range fs.Calls(mark) {
			if cl.Method == "SetXattr" && cl.ErrVal == nil {
				if got, ok := fs.Lookup("/f").Xattr[name]; !ok || string(got) != val {
					c.Violation("C04:xattr-create-commits-bytes-that-were-not-written-after-it", map[string]any{"call": cl.String(), "stored": string(got), "want": val, "trace": st.tail()})
				}
			}
		}
		c.Case(fmt.Sprintf("xattr-restart:%d", si), true)
		st.close()
	}
}
