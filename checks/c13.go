package checks

import (
	"bytes"
	"fmt"
	"sort"
	"strings"
	"time"

	"github.com/hugelgupf/p9/p9"

	"verif/internal/ev"
	"verif/internal/fakesrv"
	"verif/internal/memfs"
	"verif/internal/quiesce"
	"verif/internal/rawpeer"
	"verif/internal/wire"
)

func init() {
	ev.Register(&ev.Spec{
		ID: "C13", Level: "exploration",
		Rule:    "server: grid msize x Tread/Treaddir count x file/directory size (both sides of the limit) x offsets against a real server over memfs, the reply-stream monitor checking every size field against the announced msize and the data against the file; first-use race: on a connection used before it negotiates, the first Tread and the first Tversion leave in one write (either order, hundreds of connections) and every later Rread is held to the announced msize - and still fills it; client: ReadAt/WriteAt/Readdir/GetXattr of sizes around and far above the limit against a fake server that announced less than requested, the request-stream monitor checking request sizes and requested reply sizes. Non-trivial: count or object size within 16 bytes of, or above, the limit; distinct by (msize, kind, count class, size class).",
		Assume:  []string{"reference codec size accounting", "net.Pipe transport", "an Rlerror in place of shortened data is accepted unless it is the EFAULT of a recovered handler panic"},
		Shards:  shards(8, 16),
		Timeout: timeout(5*time.Minute, 40*time.Minute),
		Run:     runC13,
	})
}

func cntClass(cnt, ms uint64) string {
	lim := ms - 11
	switch {
	case cnt == 0:
		return "0"
	case cnt+16 < lim:
		return "below"
	case cnt < lim:
		return "near-"
	case cnt == lim:
		return "=lim"
	case cnt <= ms:
		return "near+"
	case cnt <= mib4:
		return "above"
	default:
		return ">4M"
	}
}

func runC13(c *ev.Ctx) {
	c13Server(c)
	c13FirstReadVsVersion(c)
	c13Client(c)
}

func c13Server(c *ev.Ctx) {
	r := c.Rand("c13srv")
	// requested msize; above 4 MiB the server announces 4 MiB and that is the limit
	msizes := []uint32{23, 24, 34, 35, 64, 512, 4096, 8192, 65536, 1 << 20, mib4, mib4 + 1, 8 << 20, 1<<32 - 1}
	idx := 0
	for _, ms := range msizes {
		m := minU64(uint64(ms), mib4) // what a conforming Rversion announces (C12); checked below
		counts := []uint64{0, 1, 2, m - 12, m - 11, m - 10, m - 1, m, m + 1, 2 * m, mib4 - 1, mib4, mib4 + 1, 1 << 31, 1<<32 - 1}
		for i := 0; i < c.Sz(3, 400); i++ {
			counts = append(counts, r.U64()%(2*m+2), r.U64()>>uint(32+r.Intn(32)))
		}
		fsizes := []uint64{0, 1, m - 12, m - 11, m - 10, m, 3 * m, 16 << 20}
		dsizes := []int{0, 1, 3, 50, 1000}
		if c.Thorough() || ms <= 8192 {
			dsizes = append(dsizes, 10000)
		}
		if ms >= mib4 {
			dsizes = []int{3, 20000} // with 255-byte names: a listing of 5.6 MB, beyond the 4 MiB cap
		}
		// ---- Tread ----
		for _, fsz := range fsizes {
			idx++
			if !c.Mine(idx) {
				continue
			}
			fs := memfs.New()
			n := fs.MkPath("/b", p9.ModeRegular|0644, "")
			n.Synth, n.SynthSz = true, fsz
			srv := p9.NewServer(fs)
			s, vr := newSess(srv, ms, v7)
			if !vr.OK || vr.Msg.Type != wire.Rversion || vr.Msg.F[0].(uint64) != m {
				c.Inconclusive(fmt.Sprintf("C13: version msize=%d answered %v (expected announced msize %d)", ms, vr.Msg, m))
				s.P.Close()
				continue
			}
			ok := s.P.RPC(wire.Tattach, u(0), u(wire.NOFID), "", "", u(wire.NOUID)).Errno() == 0
			ok = ok && s.walk(0, 1, "b").Errno() == 0 && s.open(1, 0).Errno() == 0
			if !ok {
				c.Inconclusive(fmt.Sprintf("C13: setup failed msize=%d", ms))
				s.P.Close()
				continue
			}
			for _, cnt := range counts {
				cnt &= 0xFFFFFFFF
				offs := []uint64{0, 1, fsz / 2, fsz - 1, fsz, fsz + 1}
				for _, off := range offs {
					if off > 1<<40 {
						continue
					}
					c.Begin(fmt.Sprintf("C13 Tread msize=%d fsize=%d count=%d off=%d", ms, fsz, cnt, off))
					res := s.read(1, off, cnt)
					near := cnt+16 >= m-11 || fsz+16 >= m-11
					c.Case(fmt.Sprintf("read:%d:%s:f%s:o%d", ms, cntClass(cnt, m), cntClass(fsz, m), minU64(off, 2)), near)
					if !res.OK {
						if res.Out == quiesce.CondMet {
							c.Violation("C13:srv:connection-ended-on-Tread:"+cntClass(cnt, m), map[string]any{"msize": ms, "count": cnt, "off": off, "fsize": fsz})
						} else {
							hang(c, res.Out, res.Dump, "C13:srv:Tread-unanswered", map[string]any{"msize": ms, "count": cnt})
						}
						goto nextFile
					}
					for _, mv := range s.P.Monitor() {
						if strings.HasPrefix(mv, "msize-exceeded:Rread") {
							c.Violation("C13:srv:Rread-exceeds-msize:count-"+cntClass(cnt, m), map[string]any{"msize": ms, "count": cnt, "off": off, "fsize": fsz, "monitor": mv})
						} else if !strings.HasPrefix(mv, "msize-exceeded") {
							c.Violation("C13:srv:reply-stream:"+firstWord(mv), map[string]any{"monitor": mv})
						}
					}
					if res.Msg.Type == wire.Rread {
						d := res.Msg.F[0].([]byte)
						want := uint64(0)
						if off < fsz {
							want = minU64(cnt, fsz-off)
						}
						if uint64(len(d)) > want {
							c.Violation("C13:srv:Rread-longer-than-asked", map[string]any{"msize": ms, "count": cnt, "got": len(d)})
						}
						if want > 0 && len(d) == 0 {
							c.Violation("C13:srv:Rread-empty-though-data-available", map[string]any{"msize": ms, "count": cnt, "off": off, "fsize": fsz})
						}
						for i := range d {
							if d[i] != memfs.SynthByte(n.ID, off+uint64(i)) {
								c.Violation("C13:srv:Rread-wrong-bytes", map[string]any{"msize": ms, "count": cnt, "off": off, "at": i})
								break
							}
						}
						c.Max("max_rread_frame", int64(len(res.Raw)))
					} else if res.Errno() == EFAULT {
						c.Violation("C13:srv:Tread-answered-EFAULT(handler-panic):count-"+cntClass(cnt, m), map[string]any{"msize": ms, "count": cnt, "off": off, "fsize": fsz})
					}
					if c.WantSample() && near {
						c.Sample(map[string]any{"route": "server", "msize": ms, "req": fmt.Sprintf("Tread off=%d count=%d fsize=%d", off, cnt, fsz), "reply_frame_size": len(res.Raw), "reply": res.Msg.String()})
					}
				}
			}
		nextFile:
			s.P.Close()
		}
		// ---- Tread on an xattr fid (value and name list longer than the limit) ----
		xsizes := []uint64{m - 11, m - 10, m + 5, 2*m + 100, 4*m + 100}
		if m >= 1<<20 {
			xsizes = []uint64{m - 10, m + 5}
		}
		if m >= mib4 {
			xsizes = []uint64{m - 11, m - 10} // larger values are refused by Txattrwalk itself
		}
		for _, xsz := range xsizes {
			idx++
			if !c.Mine(idx) || m < 35 {
				continue // below 35 bytes the Txattrwalk request itself does not fit
			}
			fs := memfs.New()
			n := fs.MkPath("/b", p9.ModeRegular|0644, "")
			val := make([]byte, xsz)
			for i := range val {
				val[i] = memfs.SynthByte(77, uint64(i))
			}
			n.Xattr = map[string][]byte{"user.big": val}
			// a name list of about xsz bytes as well (bounded)
			for i := 0; uint64(i)*24 < minU64(xsz, 1<<20); i++ {
				n.Xattr[fmt.Sprintf("user.name-%012d", i)] = nil
			}
			srv := p9.NewServer(fs)
			s, vr := newSess(srv, ms, v7)
			ok := vr.OK && s.P.RPC(wire.Tattach, u(0), u(wire.NOFID), "", "", u(wire.NOUID)).Errno() == 0 && s.walk(0, 1, "b").Errno() == 0
			for _, xname := range []string{"user.big", ""} {
				if !ok {
					break
				}
				xw := s.P.RPC(wire.Txattrwalk, u(1), u(2), xname)
				if !xw.OK || xw.Msg.Type != wire.Rxattrwalk {
					c.Inconclusive(fmt.Sprintf("C13: xattrwalk msize=%d: %v", ms, xw.Msg))
					break
				}
				total := xw.Msg.F[0].(uint64)
				for _, cnt := range counts {
					cnt &= 0xFFFFFFFF
					if cnt > total+8 && cnt != 1<<32-1 {
						continue // beyond the value: refused, nothing to measure
					}
					for _, off := range []uint64{0, 33} {
						c.Begin(fmt.Sprintf("C13 Tread xattr %q msize=%d size=%d count=%d off=%d", xname, ms, total, cnt, off))
						res := s.read(2, off, cnt)
						c.Case(fmt.Sprintf("xread:%d:%s:x%s:o%d:list=%v", ms, cntClass(cnt, m), cntClass(total, m), off, xname == ""), cnt+16 >= m-11)
						if !res.OK {
							if res.Out == quiesce.CondMet {
								c.Violation("C13:srv:connection-ended-on-Tread(xattr):"+cntClass(cnt, m), map[string]any{"msize": ms, "count": cnt, "off": off, "xattr_size": total})
							} else {
								hang(c, res.Out, res.Dump, "C13:srv:Tread(xattr)-unanswered", map[string]any{"msize": ms, "count": cnt})
							}
							ok = false
							break
						}
						for _, mv := range s.P.Monitor() {
							if strings.HasPrefix(mv, "msize-exceeded:Rread") {
								c.Violation("C13:srv:Rread(xattr)-exceeds-msize:count-"+cntClass(cnt, m), map[string]any{"msize": ms, "count": cnt, "off": off, "xattr_size": total, "monitor": mv})
							} else if !strings.HasPrefix(mv, "msize-exceeded") {
								c.Violation("C13:srv:reply-stream:"+firstWord(mv), map[string]any{"monitor": mv})
							}
						}
						if res.Msg.Type == wire.Rread {
							d := res.Msg.F[0].([]byte)
							if uint64(len(d)) > cnt {
								c.Violation("C13:srv:Rread(xattr)-longer-than-asked", map[string]any{"msize": ms, "count": cnt, "got": len(d)})
							}
							if xname != "" {
								for i := range d {
									if off+uint64(i) >= uint64(len(val)) || d[i] != val[off+uint64(i)] {
										c.Violation("C13:srv:Rread(xattr)-wrong-bytes", map[string]any{"msize": ms, "count": cnt, "off": off, "at": i})
										break
									}
								}
							}
							c.Max("max_rread_xattr_frame", int64(len(res.Raw)))
							c.Count("xattr_reads", 1)
						}
					}
					if !ok {
						break
					}
				}
				s.clunk(2)
			}
			s.P.Close()
		}
		// ---- Treaddir ----
		for _, dsz := range dsizes {
			for _, nl := range []int{1, 60, 255} {
				idx++
				if !c.Mine(idx) {
					continue
				}
				if dsz >= 20000 && nl != 255 {
					continue
				}
				fs := memfs.New()
				var names []string
				for i := 0; i < dsz; i++ {
					nm := fmt.Sprintf("%0*d", nl, i)
					if len(nm) > nl { // too many entries for the width: widen
						nm = fmt.Sprintf("%06d", i)
					}
					names = append(names, nm)
					fs.MkPath("/dir/"+nm, p9.ModeRegular|0644, "")
				}
				fs.MkPath("/dir", p9.ModeDirectory|0755, "")
				sort.Strings(names)
				srv := p9.NewServer(fs)
				s, vr := newSess(srv, ms, v7)
				if !vr.OK || vr.Msg.Type != wire.Rversion {
					s.P.Close()
					continue
				}
				ok := s.P.RPC(wire.Tattach, u(0), u(wire.NOFID), "", "", u(wire.NOUID)).Errno() == 0
				ok = ok && s.walk(0, 1, "dir").Errno() == 0 && s.open(1, 0).Errno() == 0
				if !ok {
					c.Inconclusive(fmt.Sprintf("C13: readdir setup failed msize=%d", ms))
					s.P.Close()
					continue
				}
				entSz := uint64(wire.DirentSize(strings.Repeat("x", len(fmt.Sprintf("%0*d", nl, 0)))))
				for _, cnt := range counts {
					cnt &= 0xFFFFFFFF
					for _, off := range []uint64{0, 1, uint64(dsz) / 2, uint64(dsz)} {
						c.Begin(fmt.Sprintf("C13 Treaddir msize=%d dsize=%d namelen=%d count=%d off=%d", ms, dsz, nl, cnt, off))
						res := s.readdir(1, off, cnt)
						total := uint64(dsz) * entSz
						near := cnt+16 >= m-11 || total+64 >= m-11
						c.Case(fmt.Sprintf("readdir:%d:%s:d%d:n%d:o%d", ms, cntClass(cnt, m), dsz, nl, minU64(off, 2)), near)
						if !res.OK {
							if res.Out == quiesce.CondMet {
								c.Violation("C13:srv:connection-ended-on-Treaddir", map[string]any{"msize": ms, "count": cnt})
							} else {
								hang(c, res.Out, res.Dump, "C13:srv:Treaddir-unanswered", map[string]any{"msize": ms, "count": cnt})
							}
							goto nextDir
						}
						for _, mv := range s.P.Monitor() {
							if strings.HasPrefix(mv, "msize-exceeded:Rreaddir") {
								c.Violation("C13:srv:Rreaddir-exceeds-msize:count-"+cntClass(cnt, m), map[string]any{"msize": ms, "count": cnt, "dir_entries": dsz, "monitor": mv})
							} else if !strings.HasPrefix(mv, "msize-exceeded") {
								c.Violation("C13:srv:reply-stream:"+firstWord(mv), map[string]any{"monitor": mv})
							}
						}
						if res.Msg.Type == wire.Rreaddir {
							d := res.Msg.F[0].([]byte)
							ents, rest := wire.DecodeDirents(d)
							if rest != 0 {
								c.Violation("C13:srv:Rreaddir-partial-entry", map[string]any{"msize": ms, "count": cnt, "rest": rest})
							}
							if uint64(len(d)) > cnt {
								c.Violation("C13:srv:Rreaddir-longer-than-count", map[string]any{"msize": ms, "count": cnt, "got": len(d)})
							}
							for i, e := range ents {
								k := int(off) + i
								if k >= len(names) || e.Name != names[k] || e.Offset != uint64(k+1) {
									c.Violation("C13:srv:Rreaddir-wrong-entries", map[string]any{"msize": ms, "count": cnt, "off": off, "i": i, "got": e.Name})
									break
								}
							}
							lim := minU64(cnt, m-11)
							if off < uint64(dsz) {
								entSz = uint64(wire.DirentSize(names[off])) // the entry that would come first
							}
							if off < uint64(dsz) && lim >= entSz && len(ents) == 0 {
								c.Violation("C13:srv:Rreaddir-empty-though-an-entry-fits", map[string]any{"msize": ms, "count": cnt, "off": off, "entry_size": entSz})
							}
							c.Max("max_rreaddir_frame", int64(len(res.Raw)))
						} else if res.Errno() == EFAULT {
							c.Violation("C13:srv:Treaddir-answered-EFAULT(handler-panic)", map[string]any{"msize": ms, "count": cnt})
						}
					}
				}
			nextDir:
				s.P.Close()
			}
		}
	}
}

func minU64(a, b uint64) uint64 {
	if a < b {
		return a
	}
	return b
}

func c13Client(c *ev.Ctx) {
	r := c.Rand("c13cli")
	type cfg struct{ req, offer uint32 }
	var cfgs []cfg
	for _, rq := range []uint32{4096, 8192, 65536, 1 << 20} {
		for _, of := range []uint32{rq, rq / 2, rq - 1, rq - 512, 1024, 700, 666, 512, 200, 165, 154} {
			if of <= rq {
				cfgs = append(cfgs, cfg{rq, of})
			}
		}
	}
	for i := 0; i < c.Sz(4, 100); i++ {
		rq := ev.Pick(r, []uint32{4096, 65536, 1 << 20})
		cfgs = append(cfgs, cfg{rq, 154 + uint32(r.Intn(int(rq)-154))})
	}
	for i, cf := range cfgs {
		if !c.Mine(i + 7) {
			continue
		}
		c.Begin(fmt.Sprintf("C13 client req=%d offer=%d", cf.req, cf.offer))
		fs := fakesrv.New(nil)
		fs.Handler = fakesrv.Auto(cf.offer, 7)
		var cl *p9.Client
		var err error
		done := make(chan struct{})
		go func() { cl, err = p9.NewClient(fs.C, p9.WithMessageSize(cf.req)); close(done) }()
		if out, dump := quiesce.Await(done, wd); out != quiesce.CondMet {
			hang(c, out, dump, "C13:cli:NewClient-hangs", cf)
			fs.Shutdown()
			continue
		}
		if err != nil {
			// refusing a tiny msize is legitimate
			c.Case(fmt.Sprintf("cli:%d:%d:refused", cf.req, cf.offer), false)
			fs.Shutdown()
			continue
		}
		lim := int(cf.offer)
		sizes := []int{0, 1, lim - 200, lim - 24, lim - 23, lim - 12, lim - 11, lim - 10, lim - 1, lim, lim + 1, 2 * lim, 3*lim + 7, 1 << 20, 5 << 20}
		done = make(chan struct{})
		var bad []string
		go func() {
			defer close(done)
			root, err := cl.Attach("")
			if err != nil {
				return
			}
			_, f, err := root.Walk([]string{"f"})
			if err != nil {
				return
			}
			f.Open(p9.ReadWrite)
			fid := lastNewfid(fs)
			for _, sz := range sizes {
				if sz < 0 || sz > 2000*(lim-153) {
					continue // tiny payloads: keep the chunk count bounded
				}
				buf := make([]byte, sz)
				n, rerr := f.ReadAt(buf, 3)
				if rerr == nil && n == sz {
					if !bytes.Equal(buf, fakesrv.Pattern(fid, 3, sz)) {
						bad = append(bad, fmt.Sprintf("ReadAt(%d) returned wrong bytes", sz))
					}
				}
				f.WriteAt(buf, 9)
				f.Readdir(0, uint32(sz))
			}
			f.Readdir(0, 1<<31)
			f.Readdir(0, 1<<32-1)
			f.GetXattr("user.big") // the fake server announces 3*msize+7 bytes
			f.ListXattrs()         // and a name list of the same length
			f.Close()
		}()
		if out, dump := quiesce.Await(done, 2*wd); out != quiesce.CondMet {
			hang(c, out, dump, "C13:cli:call-hangs", cf)
			fs.Shutdown()
			continue
		}
		c.Case(fmt.Sprintf("cli:%d:%s", cf.req, offerClass(cf.offer, cf.req)), cf.offer < cf.req)
		c.Count("client_frames_monitored", int64(fs.NReqs()))
		seen := map[string]bool{}
		for _, m := range fs.Monitor() {
			w := firstWord(m)
			if strings.HasPrefix(w, "msize-exceeded") {
				parts := strings.Fields(m)
				sig := "C13:cli:" + w
				if len(parts) > 1 && strings.HasPrefix(parts[1], "T") {
					sig += ":" + parts[1]
				}
				if !seen[sig] {
					seen[sig] = true
					c.Violation(sig, map[string]any{"requested": cf.req, "announced": cf.offer, "monitor": m})
				}
			}
		}
		for _, b := range bad {
			c.Violation("C13:cli:"+firstWord(b), map[string]any{"what": b, "requested": cf.req, "announced": cf.offer})
		}
		if c.WantSample() {
			c.Sample(map[string]any{"route": "client", "requested_msize": cf.req, "announced_msize": cf.offer, "frames_seen": fs.NReqs(), "io_sizes": sizes})
		}
		fs.Shutdown()
	}
}

// lastNewfid returns the newfid of the last binding request the fake server saw.
func lastNewfid(fs *fakesrv.Server) uint64 {
	rs := fs.Reqs()
	for i := len(rs) - 1; i >= 0; i-- {
		m := rs[i].Msg
		if rs[i].Err != nil {
			continue
		}
		switch m.Type {
		case wire.Twalk, wire.Twalkgetattr, wire.Txattrwalk:
			return m.F[1].(uint64)
		case wire.Tattach:
			return m.F[0].(uint64)
		}
	}
	return 0
}

// c13FirstReadVsVersion: a connection that is used before it negotiates (the
// server serves it with its default msize) and whose first Tread and first
// Tversion arrive in one write, in either order, so that both handlers run at
// once. Whatever the two do to the connection's read buffers, every reply after
// the Rversion is held to the msize that Rversion announced.
func c13FirstReadVsVersion(c *ev.Ctx) {
	rounds := c.Sz(400, 8000)
	for i := 0; i < rounds; i++ {
		if !c.Mine(i) {
			continue
		}
		ms := []uint64{8192, 4096, 65536, 512}[i%4]
		c.Begin(fmt.Sprintf("C13 first Tread vs first Tversion round %d msize %d", i, ms))
		fs := memfs.New()
		n := fs.MkPath("/b", p9.ModeRegular|0644, "")
		n.Synth, n.SynthSz = true, 1<<20
		srv := p9.NewServer(fs)
		p := rawpeer.New(srv, altTransport())
		s := &sess{P: p, Srv: srv}
		if s.P.RPC(wire.Tattach, u(0), u(wire.NOFID), "", "", u(wire.NOUID)).Errno() != 0 || s.walk(0, 1, "b").Errno() != 0 || s.open(1, 0).Errno() != 0 {
			c.Inconclusive("C13: un-negotiated setup failed")
			p.Close()
			continue
		}
		rd := wire.Encode(wire.Tread, 50, u(1), u(0), u(16))
		tv := wire.Encode(wire.Tversion, wire.NOTAG, ms, v7)
		p.Expect(rd)
		p.Expect(tv)
		from := p.NReplies()
		if i%2 == 0 {
			p.SendRaw(append(append([]byte{}, rd...), tv...))
		} else {
			p.SendRaw(append(append([]byte{}, tv...), rd...))
		}
		det := map[string]any{"msize": ms, "version_first": i%2 == 1}
		_, ok1, o1, d1 := p.WaitTag(50, from)
		rv, ok2, o2, d2 := p.WaitTag(wire.NOTAG, from)
		if !ok1 || !ok2 {
			if !ok1 {
				hang(c, o1, d1, "C13:srv:first-read-vs-version:request-unanswered", det)
			} else {
				hang(c, o2, d2, "C13:srv:first-read-vs-version:request-unanswered", det)
			}
			p.Close()
			continue
		}
		if rv.Msg.Type != wire.Rversion || rv.Msg.F[0].(uint64) != ms {
			c.Inconclusive(fmt.Sprintf("C13: Tversion msize=%d answered %v", ms, rv.Msg))
			p.Close()
			continue
		}
		bad := false
		for _, cnt := range []uint64{ms - 11, ms, 65536, 1 << 20} {
			res := s.read(1, 3, cnt)
			if !res.OK {
				hang(c, res.Out, res.Dump, "C13:srv:first-read-vs-version:Tread-unanswered", det)
				bad = true
				break
			}
			if uint64(len(res.Raw)) > ms {
				det["count"], det["frame"] = cnt, len(res.Raw)
				c.Violation("C13:srv:Rread-exceeds-msize:after-first-Tread-raced-first-Tversion", det)
				bad = true
				break
			}
			if res.Msg.Type == wire.Rread {
				if d := res.Msg.F[0].([]byte); uint64(len(d)) != minU64(cnt, ms-11) {
					det["count"], det["got"] = cnt, len(d)
					c.Violation("C13:srv:Rread-shorter-than-msize-allows:after-first-Tread-raced-first-Tversion", det)
					bad = true
					break
				}
			}
		}
		_ = bad
		c.Case(fmt.Sprintf("first-read-vs-version:%d:%v", ms, i%2 == 1), true)
		c.Count("first_read_vs_version_rounds", 1)
		p.Close()
	}
}
