// Package checks holds one file per property; each registers an ev.Spec.
package checks

import (
	"fmt"
	"time"

	"github.com/hugelgupf/p9/linux"
	"github.com/hugelgupf/p9/p9"

	"verif/internal/ev"
	"verif/internal/quiesce"
)

func shards(q, t int) func(string) int {
	return func(tier string) int {
		if tier == "thorough" {
			return t
		}
		return q
	}
}

func timeout(q, t time.Duration) func(string) time.Duration {
	return func(tier string) time.Duration {
		if tier == "thorough" {
			return t
		}
		return q
	}
}

func raceIn(tiers ...string) func(string) bool {
	return func(tier string) bool {
		for _, t := range tiers {
			if t == tier {
				return true
			}
		}
		return false
	}
}

// noAttach is an Attacher for checks that never attach.
type noAttach struct{}

func (noAttach) Attach() (p9.File, error) { return nil, linux.ENOSYS }

// hang reports a quiescence outcome: Stuck is a violation (with the dump as
// witness), Timeout is inconclusive.
func hang(c *ev.Ctx, out quiesce.Outcome, dump []quiesce.G, sig string, what any) bool {
	defer func() {
		if out != quiesce.CondMet {
			hungFlag = true
		}
	}()
	switch out {
	case quiesce.Stuck:
		c.Violation(sig, map[string]any{"what": what, "all_goroutines_parked": true, "p9_stacks": quiesce.P9Stacks(dump)})
	case quiesce.Timeout:
		c.Inconclusive(fmt.Sprintf("%s: watchdog fired with runnable goroutines: %v", sig, what))
	case quiesce.Spinning:
		// library goroutines stayed runnable and burnt CPU for the whole
		// watchdog period while the awaited event never came: livelock
		c.Violation(sig+":livelock", map[string]any{"what": what, "library_goroutines_spinning": true, "p9_stacks": quiesce.P9Stacks(dump)})
		c.Abort("livelock observed: " + sig)
	}
	return out != quiesce.CondMet
}

// hungFlag is set whenever hang() saw a Stuck/Timeout outcome; scenarios that
// would touch the (possibly deadlocked) server's own locks afterwards reset it
// at their start and test it before doing so. Shards run one scenario at a time.
var hungFlag bool

func u(x uint64) uint64 { return x }

const (
	mib4 = 4 << 20
)

// wd is the per-wait watchdog. Its firing is never a verdict by itself: the
// wait is then classified as livelock (library goroutines runnable and burning
// CPU throughout) or inconclusive.
const wd = 25 * time.Second
