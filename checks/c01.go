package checks

import (
	"bytes"
	"fmt"
	"reflect"
	"strings"
	"time"

	"github.com/hugelgupf/p9/p9"

	"verif/internal/ev"
	"verif/internal/quiesce"
	"verif/internal/rawpeer"
	"verif/internal/recfs"
	"verif/internal/wire"
)

func init() {
	ev.Register(&ev.Spec{
		ID: "C01", Level: "exploration",
		Rule:    "three views must agree for every frame: the values a caller passed, the bytes on the wire as parsed by an independent reference codec (internal/wire, written from the protocol documents), and the values the receiving side reconstructed. (1) real client <-> tap <-> real server over a recording backend at versions 0..7: for every client method the request frame must decode (strictly, no trailing bytes) to exactly the arguments in the specified field order and be byte-identical to the reference encoding, the reply frame must be byte-identical to the reference encoding of the backend's results (generated over full integer ranges, arbitrary-byte strings, lists), and the caller must get those results back; (2) raw peer -> real server -> recording backend: every one of the 2^14 AttrMask and 2^9 SetAttrMask patterns, strings of 0/1/255/256/4095/32767/32768/65535 arbitrary bytes in every string position, walks of 0/1/2/16/200 components, payloads around the msize bound, sentinels NOTAG/NOFID/NoUID; the string and walk sections run over net.Pipe and over an AF_UNIX socket pair (vectorised receive path), with a ~1 MB Twalk that no socket buffer holds; the only rewriting allowed is permissions & 07777 and whole directory entries within the requested count. Non-trivial: not all fields zero/empty; distinct by (type, shape class).",
		Assume:  []string{"internal/wire is the reference (no code shared with p9)", "checks/tap.go wMask/wSetMask/wAttr state the field-to-bit mapping from Linux 9p.h"},
		Shards:  shards(8, 16),
		Timeout: timeout(8*time.Minute, 60*time.Minute),
		Run:     func(c *ev.Ctx) { runTransparency(c, "C01"); c01Raw(c) },
	})
}

// rawRec is a raw session over a recording backend with a fixed fid layout:
// 0 root, 1 dir, 2 file open RW, 3 dir open RO, 4 symlink, 5 file.
type rawRec struct {
	rf  *recfs.FS
	p   *rawpeer.Peer
	h   map[uint64]int // fid -> backend handle
	s   *sess
	bad bool
}

func newRawRec(c *ev.Ctx, seed uint64, msize uint32) *rawRec {
	return newRawRecOn(c, seed, msize, false)
}

func newRawRecOn(c *ev.Ctx, seed uint64, msize uint32, sock bool) *rawRec {
	r := &rawRec{rf: recfs.New(seed), h: map[uint64]int{}}
	r.rf.WGA = 1
	srv := p9.NewServer(r.rf)
	var o *rawpeer.Options
	if sock {
		o = sockOpts()
	}
	s, vr := newSessOn(srv, msize, v7, o)
	r.p, r.s = s.P, s
	ok := vr.OK && s.attach(0, "").Errno() == 0
	bind := func(fid uint64, name string) {
		mark := r.rf.Len()
		if s.walk(0, fid, name).Errno() != 0 {
			ok = false
		}
		for _, cl := range r.rf.Since(mark) {
			if cl.NewH != 0 {
				r.h[fid] = cl.NewH
			}
		}
	}
	for _, cl := range r.rf.Since(0) {
		if cl.Method == "Attach" {
			r.h[0] = cl.NewH
		}
	}
	bind(1, "d1")
	bind(2, "f2")
	bind(3, "d3")
	bind(4, "l4")
	bind(5, "f5")
	ok = ok && s.open(2, 2).Errno() == 0 && s.open(3, 0).Errno() == 0
	if !ok {
		c.Violation("C01:raw:valid-request-refused-over-a-backend-that-accepts-everything:setup", map[string]any{"backend_calls": callList(r.rf.Since(0))})
		s.P.Close()
		return nil
	}
	return r
}

// rawCase sends one request and compares backend arguments and reply bytes.
func (r *rawRec) rawCase(c *ev.Ctx, t uint8, vals []any, method string, h int, args []any, reply func(cl *recfs.Call) (uint8, []any)) {
	c.Begin(fmt.Sprintf("C01 raw %s", wire.Msg{Type: t, F: vals}.String()))
	mark := r.rf.Len()
	res := r.p.RPC(t, vals...)
	key := wire.ShapeClass(t, vals)
	c.Case("raw:"+key, !wire.Trivial(vals))
	det := map[string]any{"request": wire.Msg{Type: t, F: vals}.String()}
	if !res.OK {
		if res.Out == quiesce.CondMet {
			c.Violation("C01:raw:connection-ended:"+wire.TypeName(t), det)
		} else {
			hang(c, res.Out, res.Dump, "C01:raw:request-unanswered:"+wire.TypeName(t), det)
		}
		r.bad = true
		return
	}
	det["reply"] = res.Msg.String()
	var call *recfs.Call
	for _, cl := range r.rf.Since(mark) {
		if cl.Method == method && call == nil {
			call = cl
		}
	}
	if call == nil {
		c.Violation("C01:raw:request-did-not-reach-backend:"+wire.TypeName(t), det)
		return
	}
	if call.H != h || !reflect.DeepEqual(normArgs(call.Args), normArgs(args)) {
		det["backend"], det["sent"] = cutS(fmt.Sprint(call.Args), 300), cutS(fmt.Sprint(args...), 300)
		c.Violation("C01:raw:receiver-reconstructed-different-values:"+wire.TypeName(t), det)
		return
	}
	rt, rv := reply(call)
	ref := wire.Encode(rt, res.Msg.Tag, rv...)
	if !bytes.Equal(ref, res.Raw) {
		det["reference"] = wire.Msg{Type: rt, F: rv}.String()
		c.Violation("C01:raw:reply-bytes-differ-from-reference-encoding:"+wire.TypeName(rt), det)
	}
	c.Count("raw_frames_compared", 1)
}

func c01Raw(c *ev.Ctx) {
	r := c.Rand("c01raw")
	// (a) exhaustive mask patterns
	if c.Mine(1) {
		rr := newRawRec(c, 11, 1<<16)
		if rr != nil {
			for b := uint64(0); b < 1<<14 && !rr.bad; b++ {
				hi := uint64(0)
				if b%3 == 0 {
					hi = r.U64() &^ 0x3fff // undefined high bits must not disturb the defined ones
				}
				rr.rawCase(c, wire.Tgetattr, []any{u(1), b | hi}, "GetAttr", rr.h[1], []any{maskFromBits(b)}, func(cl *recfs.Call) (uint8, []any) {
					return wire.Rgetattr, append([]any{wMask(cl.Rets[1].(p9.AttrMask)), wQID(cl.Rets[0].(p9.QID))}, wAttr(cl.Rets[2].(p9.Attr))...)
				})
			}
			c.Count("attrmask_patterns", 1<<14)
			rr.p.Close()
		}
	}
	if c.Mine(2) {
		rr := newRawRec(c, 12, 1<<16)
		if rr != nil {
			g := &wire.Gen{R: r}
			for b := uint64(0); b < 1<<9 && !rr.bad; b++ {
				mode, uid, gid, size := g.Int(32), g.Int(32), g.Int(32), g.Int(64)
				t1, t2, t3, t4 := g.Int(64), g.Int(64), g.Int(64), g.Int(64)
				rr.rawCase(c, wire.Tsetattr, []any{u(5), b, mode, uid, gid, size, t1, t2, t3, t4}, "SetAttr", rr.h[5],
					[]any{setMaskFromBits(b), p9.SetAttr{Permissions: p9.FileMode(mode & 07777), UID: p9.UID(uid), GID: p9.GID(gid), Size: size, ATimeSeconds: t1, ATimeNanoSeconds: t2, MTimeSeconds: t3, MTimeNanoSeconds: t4}},
					func(cl *recfs.Call) (uint8, []any) { return wire.Rsetattr, nil })
			}
			c.Count("setattrmask_patterns", 1<<9)
			rr.p.Close()
		}
	}
	// (b) strings of boundary lengths in every string position, long walks, payload bounds
	lens := []int{0, 1, 255, 256, 4095, 32767, 32768, 65535}
	mk := func(n int, safe bool) string {
		g := &wire.Gen{R: r, SafeNames: safe}
		b := g.Bytes(n)
		if safe {
			for i := range b {
				if b[i] == '/' {
					b[i] = '_'
				}
			}
			if n == 0 {
				return "x"
			}
			if s := string(b); s == "." || s == ".." {
				b[0] = 'z'
			}
		}
		return string(b)
	}
	idx := 2
	for li := 0; li < 2*len(lens); li++ {
		n, sock := lens[li%len(lens)], li >= len(lens)
		idx++
		if !c.Mine(idx) {
			continue
		}
		rr := newRawRecOn(c, uint64(100+n), 1<<20, sock)
		if rr == nil {
			continue
		}
		g := &wire.Gen{R: r}
		qidR := func(t uint8) func(cl *recfs.Call) (uint8, []any) {
			return func(cl *recfs.Call) (uint8, []any) { return t, []any{wQID(cl.Rets[0].(p9.QID))} }
		}
		name := mk(n, true)
		tgt := mk(n, false)
		perm, gid, uid := g.Int(32), g.Int(32), g.Int(32)
		rr.rawCase(c, wire.Tmkdir, []any{u(1), name, perm, gid}, "Mkdir", rr.h[1], []any{name, p9.FileMode(perm & 07777), p9.NoUID, p9.GID(gid)}, qidR(wire.Rmkdir))
		rr.rawCase(c, wire.Tumkdir, []any{u(1), name, perm, gid, uid}, "Mkdir", rr.h[1], []any{name, p9.FileMode(perm & 07777), p9.UID(uid), p9.GID(gid)}, qidR(wire.Rumkdir))
		rr.rawCase(c, wire.Tsymlink, []any{u(1), name, tgt, gid}, "Symlink", rr.h[1], []any{tgt, name, p9.NoUID, p9.GID(gid)}, qidR(wire.Rsymlink))
		rr.rawCase(c, wire.Tusymlink, []any{u(1), name, tgt, gid, uid}, "Symlink", rr.h[1], []any{tgt, name, p9.UID(uid), p9.GID(gid)}, qidR(wire.Rusymlink))
		mode, maj, min := g.Int(32), g.Int(32), g.Int(32)
		rr.rawCase(c, wire.Tmknod, []any{u(1), name, mode, maj, min, gid}, "Mknod", rr.h[1], []any{name, p9.FileMode(mode), uint32(maj), uint32(min), p9.NoUID, p9.GID(gid)}, qidR(wire.Rmknod))
		rr.rawCase(c, wire.Tumknod, []any{u(1), name, mode, maj, min, gid, uid}, "Mknod", rr.h[1], []any{name, p9.FileMode(mode), uint32(maj), uint32(min), p9.UID(uid), p9.GID(gid)}, qidR(wire.Rumknod))
		empty := func(t uint8) func(cl *recfs.Call) (uint8, []any) {
			return func(cl *recfs.Call) (uint8, []any) { return t, nil }
		}
		rr.rawCase(c, wire.Tlink, []any{u(1), u(5), name}, "Link", rr.h[1], []any{name}, empty(wire.Rlink))
		fl := g.Int(32)
		rr.rawCase(c, wire.Tunlinkat, []any{u(1), name, fl}, "UnlinkAt", rr.h[1], []any{name, uint32(fl)}, empty(wire.Runlinkat))
		name2 := mk(n, true)
		rr.rawCase(c, wire.Trenameat, []any{u(1), name, u(0), name2}, "RenameAt", rr.h[1], []any{name, name2}, empty(wire.Rrenameat))
		start, length, pid := g.Int(64), g.Int(64), g.Int(32)
		lt, lf := g.Int(8), g.Int(32)
		rr.rawCase(c, wire.Tlock, []any{u(2), lt, lf, start, length, pid, tgt}, "Lock", rr.h[2], []any{int(int32(uint32(pid))), p9.LockType(lt), p9.LockFlags(lf), start, length, tgt},
			func(cl *recfs.Call) (uint8, []any) { return wire.Rlock, []any{uint64(cl.Rets[0].(p9.LockStatus))} })
		if n > 0 {
			rr.rawCase(c, wire.Txattrwalk, []any{u(5), u(40), tgt}, "GetXattr", rr.h[5], []any{tgt},
				func(cl *recfs.Call) (uint8, []any) { return wire.Rxattrwalk, []any{uint64(len(cl.Rets[0].([]byte)))} })
			rr.s.clunk(40)
		}
		// payloads of n and around the msize bound
		for _, pn := range []int{n, 1<<20 - 24, 1<<20 - 23} {
			data := r.Bytes(pn)
			off := g.Int(63)
			rr.rawCase(c, wire.Twrite, []any{u(2), off, data}, "WriteAt", rr.h[2], []any{data, int64(off)},
				func(cl *recfs.Call) (uint8, []any) { return wire.Rwrite, []any{uint64(cl.Rets[0].(int))} })
			cnt := uint64(pn)
			if cnt > 1<<20-11 {
				cnt = 1<<20 - 11
			}
			rr.rawCase(c, wire.Tread, []any{u(2), off, cnt}, "ReadAt", rr.h[2], []any{int(cnt), int64(off)},
				func(cl *recfs.Call) (uint8, []any) { return wire.Rread, []any{cl.Rets[0].([]byte)} })
		}
		// create rebinding: a fresh directory fid each time
		rr.s.walk(0, 6, "d6")
		flags := g.Int(32)
		rr.rawCase(c, wire.Tlcreate, []any{u(6), name, flags, perm, gid}, "Create", lastH(rr), []any{name, p9.OpenFlags(flags), p9.FileMode(perm & 07777), p9.NoUID, p9.GID(gid)},
			func(cl *recfs.Call) (uint8, []any) {
				return wire.Rlcreate, []any{wQID(cl.Rets[0].(p9.QID)), uint64(cl.Rets[1].(uint32))}
			})
		rr.s.walk(0, 6, "d6")
		rr.rawCase(c, wire.Tucreate, []any{u(6), name, flags, perm, gid, uid}, "Create", lastH(rr), []any{name, p9.OpenFlags(flags), p9.FileMode(perm & 07777), p9.UID(uid), p9.GID(gid)},
			func(cl *recfs.Call) (uint8, []any) {
				return wire.Rucreate, []any{wQID(cl.Rets[0].(p9.QID)), uint64(cl.Rets[1].(uint32))}
			})
		rr.p.Close()
	}
	// (c) walks of many components
	// (15 components of 65534 bytes: a frame of ~1 MB, far beyond a socket buffer)
	wn := []int{0, 1, 2, 16, 200, -15}
	for wi := 0; wi < 2*len(wn); wi++ {
		n, sock := wn[wi%len(wn)], wi >= len(wn)
		idx++
		if !c.Mine(idx) {
			continue
		}
		rr := newRawRecOn(c, uint64(900+n), 1<<20, sock)
		if rr == nil {
			continue
		}
		long := n < 0
		if long {
			n = -n
		}
		for _, wga := range []bool{false, true} {
			names := []string{}
			for i := 0; i < n; i++ {
				if long {
					names = append(names, "d"+mk(65534, true))
				} else {
					names = append(names, "d"+mk(1+r.Intn(20), true))
				}
			}
			t := uint8(wire.Twalk)
			if wga {
				t = wire.Twalkgetattr
			}
			mark := rr.rf.Len()
			res := rr.p.RPC(t, u(1), u(50), names)
			c.Case(fmt.Sprintf("raw:walk:%d:%v:long=%v:sock=%v", n, wga, long, sock), n > 0)
			if !res.OK {
				hang(c, res.Out, res.Dump, "C01:raw:walk-unanswered", n)
				break
			}
			var qids []wire.QID
			var seen []string
			var last *recfs.Call
			for _, cl := range rr.rf.Since(mark) {
				if cl.Method == "Walk" || cl.Method == "WalkGetAttr" {
					seen = append(seen, cl.Args[0].([]string)...)
					qids = append(qids, wQIDs(cl.Rets[0].([]p9.QID))...)
					last = cl
				}
			}
			if strings.Join(seen, "\x00") != strings.Join(names, "\x00") {
				c.Violation("C01:raw:receiver-reconstructed-different-values:"+wire.TypeName(t), map[string]any{"components": n})
				continue
			}
			if qids == nil {
				qids = []wire.QID{}
			}
			var ref []byte
			if wga && last != nil {
				ref = wire.Encode(wire.Rwalkgetattr, res.Msg.Tag, append(append([]any{wMask(last.Rets[1].(p9.AttrMask))}, wAttr(last.Rets[2].(p9.Attr))...), qids)...)
			} else if !wga {
				ref = wire.Encode(wire.Rwalk, res.Msg.Tag, qids)
			}
			if ref != nil && !bytes.Equal(ref, res.Raw) {
				c.Violation("C01:raw:reply-bytes-differ-from-reference-encoding:"+wire.TypeName(t+1), map[string]any{"components": n, "reply": res.Msg.String()})
			}
			rr.s.clunk(50)
			c.Count("raw_frames_compared", 1)
		}
		rr.p.Close()
	}
	// (d) messages without a backend call: fixed replies
	if c.Mine(idx + 1) {
		rr := newRawRec(c, 5, 1<<16)
		if rr != nil {
			fixed := []struct {
				t    uint8
				vals []any
				rt   uint8
				rv   []any
			}{
				{wire.Tflush, []any{u(wire.NOTAG)}, wire.Rflush, nil},
				{wire.Tflush, []any{u(0)}, wire.Rflush, nil},
				{wire.Tauth, []any{u(wire.NOFID), "u", "a", u(wire.NOUID)}, wire.Rlerror, []any{u(ENOSYS)}},
				{wire.Tgetattr, []any{u(wire.NOFID), u(1)}, wire.Rlerror, []any{u(EBADF)}},
				{wire.Tversion, []any{u(1 << 16), "9P2000.L.Google.3"}, wire.Rversion, []any{u(1 << 16), "9P2000.L.Google.3"}},
				{wire.Tversion, []any{u(1<<32 - 1), "9P2000.L"}, wire.Rversion, []any{u(4 << 20), "9P2000.L"}},
			}
			for _, f := range fixed {
				res := rr.p.RPC(f.t, f.vals...)
				c.Case("raw:fixed:"+wire.ShapeClass(f.t, f.vals), true)
				if !res.OK {
					hang(c, res.Out, res.Dump, "C01:raw:request-unanswered:"+wire.TypeName(f.t), nil)
					break
				}
				if ref := wire.Encode(f.rt, res.Msg.Tag, f.rv...); !bytes.Equal(ref, res.Raw) {
					c.Violation("C01:raw:reply-bytes-differ-from-reference-encoding:"+wire.TypeName(f.rt), map[string]any{"request": wire.Msg{Type: f.t, F: f.vals}.String(), "reply": res.Msg.String()})
				}
			}
			rr.p.Close()
		}
	}
	c.Sample(map[string]any{"route": "raw->server->recfs", "string_lengths": lens, "walk_components": []int{0, 1, 2, 16, 200}})
	_ = time.Second
}

// lastH returns the most recently created backend handle.
func lastH(r *rawRec) int {
	cs := r.rf.Since(0)
	for i := len(cs) - 1; i >= 0; i-- {
		if cs[i].NewH != 0 {
			return cs[i].NewH
		}
	}
	return 0
}
