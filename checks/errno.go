package checks

import (
	"errors"
	"io"
	"os"
	"syscall"

	"github.com/hugelgupf/p9/linux"
)

// errnoSet is the harness's own statement of "the equivalent Linux errno":
// the concrete errno found through the wrapped chain wins (linux.Errno or
// syscall.Errno; if the chain holds both kinds either is accepted), else the
// os.Err* sentinels (ErrPermission: EACCES or EPERM), else EIO.
func errnoSet(err error) []int64 {
	if err == nil {
		return nil
	}
	var out []int64
	var le linux.Errno
	if errors.As(err, &le) {
		out = append(out, int64(le))
	}
	var se syscall.Errno
	if errors.As(err, &se) {
		out = append(out, int64(se))
	}
	if len(out) > 0 {
		return out
	}
	switch {
	case errors.Is(err, os.ErrNotExist):
		return []int64{ENOENT}
	case errors.Is(err, os.ErrExist):
		return []int64{EEXIST}
	case errors.Is(err, os.ErrPermission):
		return []int64{EACCES, EPERM}
	case errors.Is(err, os.ErrInvalid):
		return []int64{EINVAL}
	}
	return []int64{EIO}
}

func isEOF(err error) bool { return errors.Is(err, io.EOF) }

func inSet(s []int64, x int64) bool {
	for _, v := range s {
		if v == x {
			return true
		}
	}
	return false
}
