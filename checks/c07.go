package checks

import (
	"fmt"
	"strings"
	"time"

	"github.com/hugelgupf/p9/p9"

	"verif/internal/ev"
	"verif/internal/memfs"
	"verif/internal/quiesce"
	"verif/internal/rawpeer"
	"verif/internal/wire"
)

func init() {
	ev.Register(&ev.Spec{
		ID: "C07", Level: "exploration",
		Rule:    "pairwise rendezvous matrix: every ordered pair (A, B) of 25 backend-reaching operations (among them a two-component walk parked in its second step and a walk parked in the GetAttr on the file it walked to) x path relation (same fid, two fids on one path, parent, child, sibling, unrelated, other connection): A is parked at a gate inside its backend call, B is issued, and the harness waits until B has entered the backend, was answered, or the whole process is observed parked (B blocked inside p9); two thirds of the cells run with a history behind A's fid (its entry was renamed into another directory after the fid was bound; B's fid bound before or after the move; or an earlier Tunlinkat of A's entry was refused by the backend; or B's fid is clunked and bound anew while A is parked; or A's entry was renamed onto itself through two fids of its directory before B's fid was bound); the backend's online overlap monitor (interval intersection on a logical clock, conflict relation taken from the File contract) and the per-handle Open counter are the oracle; plus j <= 4 concurrent Tlopen on one fid; plus a Tlcreate queued behind an unlinkat / Tremove / rename-away of its name, then created fid vs walked fid on the new file. Non-trivial: both calls reached the backend or B was observed blocked; distinct by (opA, opB, relation, outcome).",
		Assume:  []string{"memfs computes each call's receiver path from Renamed notifications", "hard links are kept out of the workload", "one scenario at a time per shard process so that 'process parked' is meaningful"},
		Shards:  shards(8, 16),
		Timeout: timeout(8*time.Minute, 45*time.Minute),
		Run: func(c *ev.Ctx) {
			runMatrix(c, "C07")
			c07DoubleOpen(c)
			c07CreateBehindUnlink(c)
			c07SimultaneousFirstWalks(c)
		},
	})
}

type mcell struct {
	a, b   cop
	ta, tb ctarget
	rel    string
}

// matrixCells enumerates (A, B, relation) with concrete targets.
func matrixCells(thorough bool) []mcell {
	ops := concOps()
	var cells []mcell
	for _, a := range ops {
		for _, ta := range []ctarget{tgtD, tgtF, tgtL} {
			if !a.fits(ta) {
				continue
			}
			if ta.link && a.kind != 'l' {
				continue
			}
			for _, b := range ops {
				add := func(tb ctarget, rel string) {
					if !b.fits(tb) {
						return
					}
					cells = append(cells, mcell{a, b, ta, tb, rel})
				}
				// same fid only when both can use one fid state
				if a.stateFor(ta) == b.stateFor(ta) || b.state == '*' || a.state == '*' {
					if b.fits(ta) && (a.state == '*' || b.state == '*' || a.state == b.state) {
						sa := a.stateFor(ta)
						if b.state != '*' {
							sa = b.stateFor(ta)
						}
						if a.state == '*' || a.stateFor(ta) == sa {
							cells = append(cells, mcell{a, b, ta, ta, "same-fid"})
						}
					}
				}
				add(ta, "same-path")
				add(ta, "other-conn")
				switch {
				case ta.path == tgtD.path:
					add(tgtF, "child")
					add(tgtDB, "child-dir")
					add(tgtR, "parent")
					add(tgtUD, "unrelated")
					add(tgtUF, "unrelated")
				case ta.path == tgtF.path:
					add(tgtD, "parent")
					add(tgtH, "sibling")
					add(tgtUF, "unrelated")
					add(tgtUD, "unrelated")
				default:
					add(tgtD, "parent")
					add(tgtUF, "unrelated")
				}
			}
		}
	}
	// attach: its GetAttr on the fresh root is a read-class call on "/"
	attach := cop{"attach", memfs.ClassRead, "GetAttr", '*', '*', false, func(p *rawpeer.Peer, tag uint16, fid, aux uint64, ch string) {
		p.Send(wire.Tattach, tag, u(900+uint64(tag)), u(wire.NOFID), "", "", u(wire.NOUID))
	}}
	byName := map[string]cop{}
	for _, o := range ops {
		byName[o.name] = o
	}
	for _, rel := range []string{"same-path", "other-conn"} {
		cells = append(cells, mcell{byName["setattr"], attach, tgtR, tgtR, rel})
		cells = append(cells, mcell{byName["renameat"], attach, tgtD, tgtR, rel})
		cells = append(cells, mcell{byName["create"], attach, tgtR, tgtR, rel})
	}
	return cells
}

// contractCalls: the classified backend calls a request makes (the ones the
// File contract speaks about), as memfs.Call values carrying method, class and
// path. A walk makes several: Walk on each directory it passes and GetAttr on
// each file it reaches (the backend here has no WalkGetAttr).
func contractCalls(o cop, t ctarget) []*memfs.Call {
	j := func(p, n string) string { return strings.TrimSuffix(p, "/") + "/" + n }
	rd := func(m, p string) *memfs.Call { return &memfs.Call{Method: m, Class: memfs.ClassRead, Path: p} }
	switch o.name {
	case "walk", "walk-ga":
		return []*memfs.Call{rd("Walk", t.path), rd("GetAttr", j(t.path, t.child))}
	case "walk2":
		return []*memfs.Call{rd("Walk", t.path), rd("GetAttr", j(t.path, "b")), rd("Walk", j(t.path, "b")), rd("GetAttr", j(j(t.path, "b"), "f"))}
	case "rename", "remove":
		return []*memfs.Call{{Method: o.method, Class: o.class, Path: parentOf(t.path), Name: baseOf(t.path)}}
	}
	return []*memfs.Call{{Method: o.method, Class: o.class, Path: t.path, Name: t.child}}
}

// contractConflict: does the File contract order a call of request B after a
// call of request A (or forbid their overlap)?
func contractConflict(a cop, ta ctarget, b cop, tb ctarget) bool {
	for _, x := range contractCalls(a, ta) {
		for _, y := range contractCalls(b, tb) {
			if memfsConflict(x, y) {
				return true
			}
		}
	}
	return false
}

func parentOf(p string) string {
	for i := len(p) - 1; i > 0; i-- {
		if p[i] == '/' {
			return p[:i]
		}
	}
	return "/"
}
func baseOf(p string) string {
	for i := len(p) - 1; i >= 0; i-- {
		if p[i] == '/' {
			return p[i+1:]
		}
	}
	return p
}

// memfsConflict mirrors the relation of the property text.
func memfsConflict(x, y *memfs.Call) bool {
	if x.Class == memfs.ClassNone || y.Class == memfs.ClassNone {
		return false
	}
	if x.Class == memfs.ClassGlob || y.Class == memfs.ClassGlob {
		return true
	}
	if x.Path == y.Path && (x.Class == memfs.ClassWrite || y.Class == memfs.ClassWrite) {
		return true
	}
	j := func(p, n string) string {
		if p == "/" {
			return "/" + n
		}
		return p + "/" + n
	}
	if x.Method == "UnlinkAt" && y.Path == j(x.Path, x.Name) {
		return true
	}
	if y.Method == "UnlinkAt" && x.Path == j(y.Path, y.Name) {
		return true
	}
	return false
}

func runMatrix(c *ev.Ctx, prop string) {
	cells := matrixCells(c.Thorough())
	reps := c.Sz(3, 30)
	for rep := 0; rep < reps; rep++ {
		for i, cell := range cells {
			if !c.Mine(i + rep) {
				continue
			}
			desc := fmt.Sprintf("%s matrix A=%s@%s B=%s@%s rel=%s", prop, cell.a.name, cell.ta.path, cell.b.name, cell.tb.path, cell.rel)
			c.Begin(desc)
			w, ok := newConcWorld(2)
			if !ok {
				c.Inconclusive("matrix world setup failed")
				w.close()
				continue
			}
			// every third pass gives A's fid a history: its entry was moved
			// into another directory after the fid was bound
			hist := ""
			switch (i + rep) % 3 {
			case 1:
				hist = "moved"
			case 2:
				if c.Thorough() || i%2 == 0 {
					hist = "moved-both"
				} else {
					hist = "refused-unlink"
				}
			}
			if c.Thorough() && (i+rep)%5 == 4 {
				hist = "refused-unlink"
			}
			if (i+rep)%7 == 3 || (cell.a.name == "walk-ga" && (i+rep)%2 == 0) {
				hist = "rebind"
			}
			if (i+rep)%11 == 5 {
				hist = "self-rename"
			}
			if cell.ta.path == "/" {
				hist = ""
			}
			out, ok := rendezvousAfter(c, w, cell.a, cell.ta, cell.b, cell.tb, cell.rel, hist)
			relKey := cell.rel
			if hist != "" {
				relKey += "+" + hist
			}
			if !out.parkedA {
				c.Case(fmt.Sprintf("%s|%s|%s|not-parked", cell.a.name, cell.b.name, relKey), false)
				w.close()
				continue
			}
			key := fmt.Sprintf("%s@%s|%s@%s|%s|%s", cell.a.name, cell.ta.path, cell.b.name, cell.tb.path, relKey, out.bOutcome)
			c.Case(key, out.bOutcome != "answered" && out.bOutcome != "inconclusive")
			c.Count("rendezvous_established", 1)
			c.Count("B_"+out.bOutcome, 1)
			c.SetAdd("outcome_signatures", fmt.Sprintf("%s|%s|%s|%s", cell.a.name, cell.b.name, relKey, out.bOutcome))
			if out.bOutcome == "inconclusive" {
				c.Inconclusive("rendezvous: neither entered, answered nor parked: " + desc)
			}
			conflict := contractConflict(cell.a, out.ta, cell.b, out.tb)
			det := map[string]any{"A": cell.a.name + "@" + cell.ta.path, "B": cell.b.name + "@" + cell.tb.path, "relation": relKey, "B_outcome": out.bOutcome, "A_parked_in": out.aCall.String()}
			switch prop {
			case "C07":
				for _, o := range out.overlaps {
					d := map[string]any{"overlap": o.Desc}
					for k, v := range det {
						d[k] = v
					}
					c.Violation(fmt.Sprintf("C07:overlap:%s(%s)x%s(%s):%s", cell.a.name, o.A, cell.b.name, o.B, relKey), d)
				}
				for _, l := range out.lifecycle {
					if len(l) > 6 && l[:6] == "opened" {
						c.Violation("C07:Open-invoked-twice-on-one-File:"+cell.a.name+"x"+cell.b.name+":"+relKey, det)
					}
				}
				if conflict && out.bOutcome == "blocked" {
					c.Count("conflict_pairs_observed_blocked_while_parked", 1)
				}
				if conflict && out.bOutcome == "entered" && len(out.overlaps) == 0 {
					// B entered for a non-conflicting preliminary call only; fine.
					c.Count("conflict_pairs_entered_without_forbidden_overlap", 1)
				}
			case "C06":
				mustNot := false
				why := ""
				switch {
				case cell.b.name == "statfs" || cell.b.name == "lock":
					mustNot, why = !cell.a.global || true, "unclassified-method"
				case cell.rel == "unrelated" && !cell.a.global && !cell.b.global && cell.a.class != memfs.ClassGlob && cell.b.class != memfs.ClassGlob:
					mustNot, why = true, "unrelated-paths"
				case (cell.rel == "same-path" || cell.rel == "same-fid" || cell.rel == "other-conn") && cell.a.class == memfs.ClassRead && cell.b.class == memfs.ClassRead:
					mustNot, why = true, "read-read"
				}
				classified := func(o cop) bool { return o.class == memfs.ClassRead || o.class == memfs.ClassWrite }
				precise := false
				if !mustNot && classified(cell.a) && classified(cell.b) && !conflict {
					// the statement itself: the contract does not order B's call
					// after A's, whatever the relation of the two paths
					mustNot, why, precise = true, "not-ordered-by-the-File-contract", true
				}
				if cell.rel == "same-fid" && (cell.a.name == "clunk" || cell.b.name == "clunk") {
					mustNot = false
				}
				if cell.rel == "same-fid" && cell.a.name == "open" && cell.b.name == "open" {
					// "Open is invoked at most once on a File": the second
					// Tlopen on the same fid has to see the outcome of the
					// first, so the contract does order it after A.
					mustNot = false
				}
				if mustNot && out.bOutcome == "blocked" {
					det["p9_stacks"] = quiesce.P9Stacks(out.bDump)
					rel := relKey
					if cell.rel == "other-conn" {
						rel = "other-connection" + relKey[len(cell.rel):]
					}
					sig := fmt.Sprintf("C06:head-of-line-blocking:%s-parked-delays-%s:%s:%s", cell.a.name, cell.b.name, why, rel)
					if precise {
						// the history behind the fids is in the details; two
						// call sites of p9 are named as such (known_findings.txt)
						sig = fmt.Sprintf("C06:head-of-line-blocking:%s-parked-delays-%s:%s:%s", cell.a.name, cell.b.name, why, cell.rel)
						// a write-class call on the directory that holds the
						// cloned entry (Tremove: UnlinkAt on its parent)
						wr := func(o cop, t ctarget, of ctarget) bool {
							dir := t.path
							if o.name == "remove" {
								dir = parentOf(t.path)
							}
							return o.class == memfs.ClassWrite && dir == parentOf(of.path) && of.path != "/"
						}
						switch {
						case cell.a.name == "clone" && wr(cell.b, out.tb, out.ta):
							sig = "C06:head-of-line-blocking:" + why + ":clone-read-locks-the-parent-directory:clone-parked-delays-write-on-parent"
						case cell.b.name == "clone" && wr(cell.a, out.ta, out.tb):
							sig = "C06:head-of-line-blocking:" + why + ":clone-read-locks-the-parent-directory:clone-delayed-by-write-on-parent"
						}
					}
					c.Violation(sig, det)
				}
				if mustNot && (out.bOutcome == "entered" || out.bOutcome == "answered") {
					c.Count("independent_requests_completed_while_A_parked", 1)
				}
			}
			if c.WantSample() && i%17 == 0 {
				c.Sample(det)
			}
			_ = ok
			w.close()
		}
	}
}

// c07DoubleOpen: j concurrent Tlopen on one fid, the first parked in Open.
func c07DoubleOpen(c *ev.Ctx) {
	for j := 2; j <= 4; j++ {
		for _, tgt := range []ctarget{tgtF, tgtD} {
			if !c.Mine(j) {
				continue
			}
			w, ok := newConcWorld(1)
			if !ok {
				c.Inconclusive("double-open setup")
				continue
			}
			cc := w.conns[0]
			fid, ok := cc.fidAt(tgt.path, 'u', tgt.dir)
			if !ok {
				w.close()
				continue
			}
			c.Begin(fmt.Sprintf("C07 double open j=%d %s", j, tgt.path))
			gate := w.fs.Hold(memfs.Match{Method: "Open"}, 0)
			from := cc.p.NReplies()
			for k := 0; k < j; k++ {
				cc.p.Send(12, uint16(600+k), fid, u(0)) // Tlopen
			}
			// wait until nothing moves: all j are parked in Open or refused
			quiesce.WaitUntil(func() bool { return len(gate.Parked()) >= j }, 30*time.Second)
			parked := len(gate.Parked())
			gate.Release()
			for k := 0; k < j; k++ {
				if _, ok, o, d := cc.p.WaitTag(uint16(600+k), from); !ok {
					hang(c, o, d, "C07:double-open:unanswered", j)
				}
			}
			c.Case(fmt.Sprintf("double-open:%d:%s:parked%d", j, tgt.path, parked), true)
			for _, l := range w.fs.LifecycleViolations(false) {
				if len(l) > 6 && l[:6] == "opened" {
					c.Violation("C07:Open-invoked-twice-on-one-File:concurrent-Tlopen", map[string]any{"concurrent_opens": j, "calls_parked_in_Open": parked, "path": tgt.path})
				}
			}
			w.close()
		}
	}
}

// c07SimultaneousFirstWalks: K connections walk [d, fN] to a name nobody walked
// to before, all released at the same instant from a gate in the first
// component's Walk, so that they create the shared per-path state together.
// Afterwards SetAttr through one of the fids is parked and GetAttr is issued
// through all the others: every pair is on one path, so none may enter.
func c07SimultaneousFirstWalks(c *ev.Ctx) {
	const K = 8
	rounds := c.Sz(1200, 64000) // sharded
	fs := memfs.New()
	fs.NoWalkGetAttr = true
	for i := 0; i < rounds; i++ {
		fs.MkPath(fmt.Sprintf("/d/f%04d", i), 0100644, "x")
	}
	srv := p9.NewServer(fs)
	var conns []*sess
	for k := 0; k < K; k++ {
		s, vr := newSessOn(srv, 1<<16, v7, nil) // pipes: thousands of "blocked" decisions (see newConcWorld)
		if !vr.OK || s.attach(0, "").Errno() != 0 {
			c.Inconclusive("C07 first-walks setup")
			return
		}
		conns = append(conns, s)
	}
	defer func() {
		for _, s := range conns {
			s.P.Close()
		}
	}()
	for round := 0; round < rounds; round++ {
		if !c.Mine(round) {
			continue
		}
		name := fmt.Sprintf("f%04d", round)
		path := "/d/" + name
		c.Begin("C07 simultaneous first walks " + name)
		g := fs.Hold(memfs.Match{Method: "Walk", Name: "d"}, K)
		from := make([]int, K)
		for k, s := range conns {
			from[k] = s.P.NReplies()
			s.P.Send(wire.Twalk, 700, u(0), u(1), []string{"d", name})
		}
		if o, d := g.WaitParked(K); o != quiesce.CondMet {
			g.Release()
			hang(c, o, d, "C07:first-walks:walks-not-served-concurrently", len(g.Parked()))
			return
		}
		g.Release()
		ok := true
		for k, s := range conns {
			r, got, o, d := s.P.WaitTag(700, from[k])
			if !got {
				hang(c, o, d, "C07:first-walks:walk-unanswered", nil)
				return
			}
			if r.Msg.Type != wire.Rwalk {
				ok = false
			}
		}
		if !ok {
			c.Inconclusive("C07 first-walks: a walk failed")
			continue
		}
		fs.Overlaps()
		for writer := 0; writer < 2; writer++ {
			gs := fs.Hold(memfs.Match{Method: "SetAttr", Path: path}, 1)
			w := conns[(round+writer*3)%K]
			wf := w.P.NReplies()
			w.P.Send(wire.Tsetattr, 701, u(1), u(1), u(0600), u(0), u(0), u(0), u(0), u(0), u(0), u(0))
			if o, _ := gs.WaitParked(1); o != quiesce.CondMet {
				gs.Release()
				continue
			}
			before := fs.TotalCalls()
			rf := make([]int, K)
			for k, s := range conns {
				if s == w {
					continue
				}
				rf[k] = s.P.NReplies()
				s.P.Send(wire.Tgetattr, 702, u(1), u(0x3fff))
			}
			// all readers must end up parked inside p9; wait for quiet (or for one to get through)
			quiesce.WaitUntil(func() bool { return fs.TotalCalls() > before }, wd)
			entered := fs.TotalCalls() - before
			gs.Release()
			w.P.WaitTag(701, wf)
			for k, s := range conns {
				if s != w {
					s.P.WaitTag(702, rf[k])
				}
			}
			for _, o := range fs.Overlaps() {
				c.Violation("C07:overlap:fids-walked-simultaneously-to-one-new-name-do-not-exclude-each-other:"+o.A+"x"+o.B, map[string]any{"overlap": o.Desc, "round": round, "walkers": K, "readers_that_entered_while_SetAttr_parked": entered})
			}
		}
		c.Case(fmt.Sprintf("first-walks:%d", round%16), true)
		c.Count("simultaneous_first_walk_rounds", 1)
		for _, s := range conns {
			s.clunk(1)
		}
	}
}

// c07CreateBehindUnlink: a Tlcreate of name n is received while a Tunlinkat (or
// Tremove, or a rename away) of the existing entry n is inside the backend, and
// succeeds once that is over. The fid it bound and a fid walked to the new
// file afterwards are two fids on one path: a write-class call through one and
// a read-class call through the other exclude each other.
func c07CreateBehindUnlink(c *ev.Ctx) {
	for i, how := range []string{"unlinkat", "remove", "renameat-away"} {
		if !c.Mine(i + 11) {
			continue
		}
		c.Begin("C07 create behind " + how)
		w, ok := newConcWorld(2)
		if !ok {
			c.Inconclusive("create-behind world")
			w.close()
			continue
		}
		ca, cb := w.conns[0], w.conns[1]
		fd1, ok1 := ca.fidAt("/a", 'u', true)
		fd2, ok2 := ca.fidAt("/a", 'u', true)
		fg, ok3 := ca.fidAt("/a/g", 'u', false)
		if !ok1 || !ok2 || !ok3 {
			c.Inconclusive("create-behind setup")
			w.close()
			continue
		}
		method := "UnlinkAt"
		if how == "renameat-away" {
			method = "RenameAt"
		}
		g := w.fs.Hold(memfs.Match{Method: method}, 1)
		from := ca.p.NReplies()
		switch how {
		case "unlinkat":
			ca.p.Send(wire.Tunlinkat, 600, fd1, "g", u(0))
		case "remove":
			ca.p.Send(wire.Tremove, 600, fg)
		default:
			ca.p.Send(wire.Trenameat, 600, fd1, "g", u(801), "gone")
		}
		if o, _ := g.WaitParked(1); o != quiesce.CondMet {
			g.Release()
			c.Case("create-behind:"+how+":not-parked", false)
			w.close()
			continue
		}
		ca.p.Send(wire.Tlcreate, 601, fd2, "g", u(2), u(0644), u(0))
		quiesce.WaitUntil(func() bool { return ca.p.HasReplyFrom(601, from) != nil }, wd) // it queues
		g.Release()
		r0, okA, _, _ := ca.p.WaitTag(600, from)
		r1, okB, o, d := ca.p.WaitTag(601, from)
		if !okA || !okB {
			hang(c, o, d, "C06:request-never-answered:create-behind-"+how, nil)
			w.close()
			continue
		}
		if r0.Msg.Type == wire.Rlerror || r1.Msg.Type != wire.Rlcreate {
			c.Case("create-behind:"+how+":refused", false)
			w.close()
			continue
		}
		fx, okx := cb.fidAt("/a/g", 'u', false)
		if !okx {
			c.Inconclusive("create-behind: walk to the created file failed")
			w.close()
			continue
		}
		w.fs.Overlaps()
		// a read-class call through the created fid is held in the backend; a
		// write-class call through the walked fid arrives
		g2 := w.fs.Hold(memfs.Match{Method: "WriteAt", Path: "/a/g"}, 1)
		fromA, fromB := ca.p.NReplies(), cb.p.NReplies()
		ca.p.Send(wire.Twrite, 602, fd2, u(0), []byte("zz"))
		if o, _ := g2.WaitParked(1); o != quiesce.CondMet {
			g2.Release()
			c.Case("create-behind:"+how+":write-not-parked", false)
			w.close()
			continue
		}
		cb.p.Send(wire.Tsetattr, 603, fx, u(1), u(0600), u(0), u(0), u(0), u(0), u(0), u(0), u(0))
		quiesce.WaitUntil(func() bool { return cb.p.HasReplyFrom(603, fromB) != nil }, wd)
		g2.Release()
		ca.p.WaitTag(602, fromA)
		cb.p.WaitTag(603, fromB)
		for _, ov := range w.fs.Overlaps() {
			c.Violation("C07:overlap:created-fid-and-walked-fid-do-not-exclude-each-other:"+how, map[string]any{"overlap": ov.Desc})
			break
		}
		c.Case("create-behind:"+how, true)
		c.Count("create_behind_rounds", 1)
		w.close()
	}
}
