package checks

import (
	"bytes"
	"errors"
	"fmt"
	"io"
	"io/fs"
	"os"
	"reflect"
	"strings"
	"syscall"
	"time"

	"github.com/hugelgupf/p9/linux"
	"github.com/hugelgupf/p9/p9"

	"verif/internal/ev"
	"verif/internal/quiesce"
	"verif/internal/recfs"
	"verif/internal/wire"
)

func init() {
	ev.Register(&ev.Spec{
		ID: "C03", Level: "exploration",
		Rule:    "real client <-> tap <-> real server over a recording backend, at every negotiated version 0..7 (the tap rewrites the version string of Tversion): every one of the 24 issuing client methods (+ SetXattr/RemoveXattr, which must stay local) is called with generated arguments (flags incl. unknown bits, modes with setuid/setgid/sticky and type bits, uid/gid sentinels, 64-bit offsets/sizes/times, every lock parameter, names and targets of arbitrary bytes) on handles derived by attach, walk (1-4 components), clone and create; the backend's call log delta must be exactly the specified call(s) on the handle the client File was derived from with equal arguments (after the documented rewriting), the caller must get the backend's results unchanged, errors as the errno found by an independent reading of the error chain (27 error shapes incl. error trees - errors.Join, multi-%w, a joined errno inside a PathError - x methods, Open (followed by a successful retry) and Close included; a handle is used again after an UnlinkAt / RenameAt naming its entry was refused), and only message types the version defines may cross the tap. Non-trivial: the call reached the backend (or is specified not to) with a non-zero result; distinct by (method, version class, derivation, result shape).",
		Assume:  []string{"recfs records arguments by deep copy at call time", "errnoSet (checks/errno.go) is the reference errno reading", "chunking of large I/O is C11's subject: single-chunk sizes here"},
		Shards:  shards(8, 16),
		Timeout: timeout(8*time.Minute, 60*time.Minute),
		Run:     func(c *ev.Ctx) { runTransparency(c, "C03") },
	})
}

// tw is one transparency world.
type tw struct {
	c     *ev.Ctx
	prop  string
	rf    *recfs.FS
	tp    *tap
	cl    *p9.Client
	ver   uint32
	r     *ev.Rand
	g     *wire.Gen
	fid   map[p9.File]uint64
	hnd   map[p9.File]int
	par   map[p9.File]p9.File // parent File for rename/remove
	name  map[p9.File]string
	root  p9.File
	hd    chan struct{}
	what  string
	files []p9.File
}

func newTW(c *ev.Ctx, prop string, ver uint32, seed uint64, wga int) *tw {
	w := &tw{c: c, prop: prop, rf: recfs.New(seed), ver: ver, r: ev.NewRand(seed), fid: map[p9.File]uint64{}, hnd: map[p9.File]int{}, par: map[p9.File]p9.File{}, name: map[p9.File]string{}}
	w.rf.EOFWithEntries = true
	w.rf.WGA = wga
	w.g = &wire.Gen{R: w.r, Budget: 400, Small: true, SafeNames: true}
	srv := p9.NewServer(w.rf)
	w.tp = newTap(int(ver))
	w.hd = make(chan struct{})
	go func() { srv.Handle(w.tp.sEnd, w.tp.sEnd); close(w.hd) }()
	var err error
	// msize: mostly 64 KiB; every third world a small one, with xattr values and
	// name lists several times longer (the client has to fetch them in pieces)
	ms := uint32(1 << 16)
	switch seed % 6 {
	case 2:
		ms, w.rf.XattrMax = 4096, 11000
	case 5:
		ms, w.rf.XattrMax = 8192, 40000
	case 0:
		w.rf.XattrMax = 65536 // at the default size only values at the very top are too long for one reply
	}
	ok := ev.Watch(wd, func() { w.cl, err = p9.NewClient(w.tp.cEnd, p9.WithMessageSize(ms)) })
	if !ok || err != nil || w.cl.Version() != ver {
		c.Inconclusive(fmt.Sprintf("%s: NewClient at version %d: %v", prop, ver, err))
		w.tp.close()
		return nil
	}
	return w
}

func (w *tw) close() {
	w.tp.close()
	quiesce.Await(w.hd, wd)
}

// is reports whether an assertion belongs to the property being run.
func (w *tw) bad(owner, sig string, det map[string]any) {
	if owner != w.prop {
		return
	}
	det["version"] = w.ver
	det["call"] = w.what
	w.c.Violation(owner+":"+sig, det)
}

type obs struct {
	frames []tapFrame
	calls  []*recfs.Call
	hung   bool
}

// around runs fn and returns what crossed the tap and reached the backend.
func (w *tw) around(what string, fn func()) obs {
	w.what = what
	w.c.Begin(fmt.Sprintf("%s v%d %s", w.prop, w.ver, what))
	f0, c0 := w.tp.n(), w.rf.Len()
	done := make(chan struct{})
	go func() { fn(); close(done) }()
	if o, d := quiesce.Await(done, wd); o != quiesce.CondMet {
		hang(w.c, o, d, w.prop+":client-call-hangs:"+firstWord(what), map[string]any{"version": w.ver})
		return obs{hung: true}
	}
	o := obs{frames: w.tp.since(f0), calls: w.rf.Since(c0)}
	// wire sanity for every frame (C01) and version gating (C03)
	for _, f := range o.frames {
		if f.err != nil {
			w.bad("C01", "frame-not-decodable-by-reference-codec:"+wire.TypeName(f.msg.Type), map[string]any{"err": f.err.Error(), "frame": hexCut(f.raw)})
		} else if f.trailing != 0 {
			w.bad("C01", "frame-has-trailing-bytes:"+wire.TypeName(f.msg.Type), map[string]any{"trailing": f.trailing, "frame": hexCut(f.raw)})
		}
		if wire.MinVersion(f.msg.Type) > w.ver {
			w.bad("C03", "message-type-not-defined-at-negotiated-version:"+wire.TypeName(f.msg.Type), map[string]any{"negotiated": w.ver})
		}
		if f.toServer && f.msg.Tag == wire.NOTAG && f.msg.Type != wire.Tversion {
			w.bad("C01", "NOTAG-used", map[string]any{"frame": f.msg.String()})
		}
	}
	return o
}

// real filters bookkeeping calls.
func realCalls(cs []*recfs.Call) []*recfs.Call {
	var out []*recfs.Call
	for _, c := range cs {
		if c.Method == "Close" || c.Method == "Renamed" {
			continue
		}
		out = append(out, c)
	}
	return out
}

func callList(cs []*recfs.Call) []string {
	var l []string
	for _, c := range cs {
		l = append(l, cutS(c.String(), 160))
	}
	return l
}

// wantT asserts the single request frame of type t carries exactly vals.
func (w *tw) wantT(o obs, t uint8, vals ...any) *tapFrame {
	var got *tapFrame
	n := 0
	for i := range o.frames {
		if o.frames[i].toServer {
			n++
			if got == nil && o.frames[i].msg.Type == t {
				got = &o.frames[i]
			}
		}
	}
	if got == nil {
		var ts []string
		for _, f := range o.frames {
			if f.toServer {
				ts = append(ts, wire.TypeName(f.msg.Type))
			}
		}
		w.bad("C01", "specified-request-not-sent:"+wire.TypeName(t), map[string]any{"sent": ts})
		w.bad("C03", "specified-request-not-sent:"+wire.TypeName(t), map[string]any{"sent": ts})
		return nil
	}
	if got.err == nil {
		a, b := wire.Normalize(t, got.msg.F), wire.Normalize(t, vals)
		if !reflect.DeepEqual(a, b) {
			w.bad("C01", "request-fields-differ-from-arguments:"+wire.TypeName(t), map[string]any{"on_wire": wire.Msg{Type: t, F: got.msg.F}.String(), "specified": wire.Msg{Type: t, F: vals}.String()})
		}
		// byte-exact against the reference encoding (except permission
		// fields, which the sender may or may not have masked already)
		ref := wire.Encode(t, got.msg.Tag, got.msg.F...)
		if !bytes.Equal(ref, got.raw) {
			w.bad("C01", "request-bytes-differ-from-reference-encoding:"+wire.TypeName(t), map[string]any{"frame": hexCut(got.raw), "reference": hexCut(ref)})
		}
	}
	return got
}

// wantR asserts the reply to frame tf is exactly the reference encoding of vals.
func (w *tw) wantR(o obs, tf *tapFrame, t uint8, vals ...any) {
	if tf == nil {
		return
	}
	for _, f := range o.frames {
		if !f.toServer && f.msg.Tag == tf.msg.Tag {
			ref := wire.Encode(t, f.msg.Tag, vals...)
			if !bytes.Equal(ref, f.raw) {
				got := f.msg.String()
				w.bad("C01", "reply-bytes-differ-from-reference-encoding-of-backend-results:"+wire.TypeName(t), map[string]any{"on_wire": got, "reference": wire.Msg{Type: t, F: vals}.String(), "frame": hexCut(f.raw), "ref_frame": hexCut(ref)})
			}
			return
		}
	}
	w.bad("C01", "reply-missing:"+wire.TypeName(t), map[string]any{})
}

// wantCall asserts the real backend calls are exactly one call of method on
// handle h with args.
func (w *tw) wantCall(o obs, method string, h int, args ...any) *recfs.Call {
	rc := realCalls(o.calls)
	if len(rc) != 1 || rc[0].Method != method {
		w.bad("C03", "backend-did-not-see-exactly-the-corresponding-call:"+method, map[string]any{"backend_calls": callList(o.calls), "want_handle": h})
		return nil
	}
	c := rc[0]
	if c.H != h {
		w.bad("C03", "operation-reached-a-different-File:"+method, map[string]any{"want_handle": h, "got_handle": c.H, "backend_calls": callList(o.calls)})
	}
	if !reflect.DeepEqual(normArgs(c.Args), normArgs(args)) {
		w.bad("C03", "backend-arguments-differ:"+method, map[string]any{"backend": fmt.Sprint(c.Args), "caller": fmt.Sprint(args...)})
	}
	return c
}

func normArgs(a []any) []any {
	out := make([]any, len(a))
	for i, x := range a {
		switch v := x.(type) {
		case []string:
			if len(v) == 0 {
				out[i] = []string{}
				continue
			}
		case []byte:
			if len(v) == 0 {
				out[i] = []byte{}
				continue
			}
		}
		out[i] = x
	}
	return out
}

// wantErr asserts the caller's error against the backend's.
func (w *tw) wantErr(method string, got error, backend error) {
	if backend == nil {
		if got != nil {
			w.bad("C03", "call-fails-although-backend-succeeded:"+method, map[string]any{"err": got.Error()})
		}
		return
	}
	want := errnoSet(backend)
	var le linux.Errno
	if got == nil || !errors.As(got, &le) || !inSet(want, int64(le)) {
		w.bad("C03", fmt.Sprintf("backend-error-not-returned-as-its-errno:%s", errShape(backend)), map[string]any{"method": method, "backend_error": fmt.Sprintf("%T %v", backend, backend), "acceptable_errnos": want, "caller_got": fmt.Sprint(got)})
	}
}

func errShape(err error) string {
	var pe *fs.PathError
	switch {
	case errors.As(err, &pe):
		return "PathError"
	}
	switch err.(type) {
	case linux.Errno:
		return "linux.Errno"
	case syscall.Errno:
		return fmt.Sprintf("syscall.Errno(%d)", int(err.(syscall.Errno)))
	}
	switch err {
	case os.ErrNotExist, os.ErrExist, os.ErrPermission, os.ErrInvalid:
		return "os." + strings.ReplaceAll(err.Error(), " ", "-")
	}
	if errors.Unwrap(err) != nil {
		return "wrapped"
	}
	if _, ok := err.(interface{ Unwrap() []error }); ok {
		return "joined"
	}
	return "opaque"
}

func c03Errors() []error {
	return []error{linux.ENOSPC, linux.EPERM, syscall.EPERM, syscall.ENOTEMPTY, syscall.EACCES, syscall.ENOENT, syscall.EEXIST, os.ErrNotExist, os.ErrExist, os.ErrPermission, os.ErrInvalid,
		fmt.Errorf("w: %w", linux.EROFS), fmt.Errorf("w: %w", syscall.EPERM), &fs.PathError{Op: "open", Path: "/x", Err: syscall.ENOTEMPTY}, &fs.PathError{Op: "open", Path: "/x", Err: syscall.EPERM},
		errors.Join(errors.New("a"), linux.EMLINK), errors.New("opaque"), fmt.Errorf("deep: %w", fmt.Errorf("deeper: %w", syscall.EXDEV)), io.ErrUnexpectedEOF, linux.Errno(4095), syscall.Errno(200),
		// error trees: the errno sits below a node with several children
		errors.Join(errors.New("ctx"), syscall.EROFS), fmt.Errorf("%w: %w", errors.New("op"), syscall.ENOTEMPTY), fmt.Errorf("%w / %w", linux.ENOTTY, errors.New("tail")),
		fmt.Errorf("x: %w", errors.Join(errors.New("a"), syscall.EBUSY)), &fs.PathError{Op: "close", Path: "/y", Err: errors.Join(syscall.ENOSPC)}, errors.Join(errors.New("only text"), errors.New("more text"))}
}

// derive binds a client File by walking names from parent.
func (w *tw) derive(parent p9.File, names ...string) p9.File {
	var f p9.File
	var err error
	o := w.around("setup-walk", func() { _, f, err = parent.Walk(names) })
	if o.hung || err != nil {
		return nil
	}
	for _, fr := range o.frames {
		if fr.toServer && fr.msg.Type == wire.Twalk && fr.err == nil {
			w.fid[f] = fr.msg.F[1].(uint64)
		}
	}
	for _, c := range o.calls {
		if c.NewH != 0 {
			w.hnd[f] = c.NewH
		}
	}
	if len(names) == 1 {
		w.par[f], w.name[f] = parent, names[0]
	}
	w.files = append(w.files, f)
	return f
}

func (w *tw) attach() bool {
	var err error
	o := w.around("Attach", func() { w.root, err = w.cl.Attach("") })
	if o.hung || err != nil {
		w.c.Inconclusive(fmt.Sprintf("%s attach: %v", w.prop, err))
		return false
	}
	var tf *tapFrame
	for i, fr := range o.frames {
		if fr.toServer && fr.msg.Type == wire.Tattach && fr.err == nil {
			w.fid[w.root] = fr.msg.F[0].(uint64)
			tf = &o.frames[i]
		}
	}
	if tf != nil {
		w.wantT(o, wire.Tattach, w.fid[w.root], u(wire.NOFID), "", "", u(wire.NOUID))
	}
	rc := realCalls(o.calls)
	if len(rc) != 2 || rc[0].Method != "Attach" || rc[1].Method != "GetAttr" || rc[1].H != rc[0].NewH {
		w.bad("C03", "attach-backend-calls", map[string]any{"backend_calls": callList(o.calls)})
		return false
	}
	w.hnd[w.root] = rc[0].NewH
	w.wantR(o, tf, wire.Rattach, wQID(rc[1].Rets[0].(p9.QID)))
	return true
}

func runTransparency(c *ev.Ctx, prop string) {
	r := c.Rand(prop + "transparency")
	rounds := c.Sz(400, 20000)
	idx := 0
	for ver := uint32(0); ver <= 7; ver++ {
		for round := 0; round < rounds; round++ {
			idx++
			if !c.Mine(idx) {
				continue
			}
			seed := r.Fork(uint64(idx)).U64()
			w := newTW(c, prop, ver, seed, round%3)
			if w == nil {
				continue
			}
			if w.attach() {
				w.exercise(round)
			}
			w.close()
		}
	}
}

func (w *tw) count(method string, nz bool) {
	vc := "v<2"
	switch {
	case w.ver >= 3:
		vc = "v>=3"
	case w.ver == 2:
		vc = "v2"
	}
	w.c.Case(fmt.Sprintf("%s:%s:%d", method, vc, w.r.Intn(4)), nz)
	w.c.Count("client_calls_checked", 1)
}

func (w *tw) exercise(round int) {
	g, r := w.g, w.r
	errs := c03Errors()
	d1 := w.derive(w.root, "d1")
	f1 := w.derive(w.root, "f1")
	l1 := w.derive(w.root, "l1")
	fo := w.derive(w.root, "fo")
	do := w.derive(w.root, "do")
	deep := w.derive(w.root, "da", "db", "dc", "f4")
	if d1 == nil || f1 == nil || l1 == nil || fo == nil || do == nil || deep == nil {
		w.c.Inconclusive(w.prop + ": setup walks failed")
		return
	}
	// pick an error to inject for this call (or none)
	inject := func(method string) error {
		if r.Chance(30) {
			e := errs[r.Intn(len(errs))]
			w.rf.FailNext(method, e)
			return e
		}
		return nil
	}

	// ---- Open ----
	for _, f := range []p9.File{fo, do} {
		flags := p9.OpenFlags(g.Int(32))
		if f == do {
			flags &^= 3 // directories open read-only
		} else {
			flags = flags&^3 | 2
		}
		var q p9.QID
		var iou uint32
		var err error
		if e := inject("Open"); e != nil {
			// a refused Open: its errno reaches the caller, and the handle can
			// be opened afterwards as if nothing had happened
			o := w.around("Open", func() { _, _, err = f.Open(flags) })
			if o.hung {
				return
			}
			w.wantT(o, wire.Tlopen, w.fid[f], uint64(flags))
			w.wantCall(o, "Open", w.hnd[f], flags)
			w.wantErr("Open", err, e)
			w.count("Open", true)
		}
		o := w.around("Open", func() { q, iou, err = f.Open(flags) })
		if o.hung {
			return
		}
		tf := w.wantT(o, wire.Tlopen, w.fid[f], uint64(flags))
		if c := w.wantCall(o, "Open", w.hnd[f], flags); c != nil && c.Err == nil {
			w.wantR(o, tf, wire.Rlopen, wQID(c.Rets[0].(p9.QID)), uint64(c.Rets[1].(uint32)))
			if q != c.Rets[0].(p9.QID) || iou != c.Rets[1].(uint32) {
				w.bad("C03", "result-changed:Open", map[string]any{"backend": fmt.Sprint(c.Rets), "caller": fmt.Sprint(q, iou)})
				w.bad("C01", "reply-values-not-reconstructed:Rlopen", map[string]any{"backend": fmt.Sprint(c.Rets), "caller": fmt.Sprint(q, iou)})
			}
		}
		w.wantErr("Open", err, nil)
		w.count("Open", true)
	}

	// ---- GetAttr ----
	for i := 0; i < 3; i++ {
		f := []p9.File{d1, f1, deep, fo}[r.Intn(4)]
		mask := maskFromBits(g.Int(14))
		be := inject("GetAttr")
		var q p9.QID
		var m p9.AttrMask
		var a p9.Attr
		var err error
		o := w.around("GetAttr", func() { q, m, a, err = f.GetAttr(mask) })
		if o.hung {
			return
		}
		tf := w.wantT(o, wire.Tgetattr, w.fid[f], wMask(mask))
		if c := w.wantCall(o, "GetAttr", w.hnd[f], mask); c != nil && c.Err == nil {
			bq, bm, ba := c.Rets[0].(p9.QID), c.Rets[1].(p9.AttrMask), c.Rets[2].(p9.Attr)
			w.wantR(o, tf, wire.Rgetattr, append([]any{wMask(bm), wQID(bq)}, wAttr(ba)...)...)
			if q != bq || m != bm || a != ba {
				w.bad("C03", "result-changed:GetAttr", map[string]any{"backend": fmt.Sprint(bq, bm, ba), "caller": fmt.Sprint(q, m, a)})
				w.bad("C01", "reply-values-not-reconstructed:Rgetattr", map[string]any{"backend": fmt.Sprint(bq, bm, ba), "caller": fmt.Sprint(q, m, a)})
			}
		}
		w.wantErr("GetAttr", err, be)
		w.count("GetAttr", true)
	}

	// ---- SetAttr ----
	{
		f := f1
		valid := setMaskFromBits(g.Int(9))
		sa := p9.SetAttr{Permissions: p9.FileMode(g.Int(32)), UID: p9.UID(g.Int(32)), GID: p9.GID(g.Int(32)), Size: g.Int(64), ATimeSeconds: g.Int(64), ATimeNanoSeconds: g.Int(64), MTimeSeconds: g.Int(64), MTimeNanoSeconds: g.Int(64)}
		be := inject("SetAttr")
		var err error
		o := w.around("SetAttr", func() { err = f.SetAttr(valid, sa) })
		if o.hung {
			return
		}
		tf := w.wantT(o, wire.Tsetattr, w.fid[f], wSetMask(valid), uint64(sa.Permissions), uint64(sa.UID), uint64(sa.GID), sa.Size, sa.ATimeSeconds, sa.ATimeNanoSeconds, sa.MTimeSeconds, sa.MTimeNanoSeconds)
		exp := sa
		exp.Permissions &= 07777
		if c := w.wantCall(o, "SetAttr", w.hnd[f], valid, exp); c != nil && c.Err == nil {
			w.wantR(o, tf, wire.Rsetattr)
		}
		w.wantErr("SetAttr", err, be)
		w.count("SetAttr", true)
	}

	// ---- StatFS, FSync, Readlink, Lock ----
	{
		be := inject("StatFS")
		var st p9.FSStat
		var err error
		o := w.around("StatFS", func() { st, err = d1.StatFS() })
		if o.hung {
			return
		}
		tf := w.wantT(o, wire.Tstatfs, w.fid[d1])
		if c := w.wantCall(o, "StatFS", w.hnd[d1]); c != nil && c.Err == nil {
			w.wantR(o, tf, wire.Rstatfs, wStat(c.Rets[0].(p9.FSStat))...)
			if st != c.Rets[0].(p9.FSStat) {
				w.bad("C03", "result-changed:StatFS", map[string]any{"backend": fmt.Sprint(c.Rets[0]), "caller": fmt.Sprint(st)})
				w.bad("C01", "reply-values-not-reconstructed:Rstatfs", map[string]any{"backend": fmt.Sprint(c.Rets[0]), "caller": fmt.Sprint(st)})
			}
		}
		w.wantErr("StatFS", err, be)
		w.count("StatFS", true)
	}
	{
		be := inject("FSync")
		var err error
		o := w.around("FSync", func() { err = fo.FSync() })
		if o.hung {
			return
		}
		tf := w.wantT(o, wire.Tfsync, w.fid[fo])
		if c := w.wantCall(o, "FSync", w.hnd[fo]); c != nil && c.Err == nil {
			w.wantR(o, tf, wire.Rfsync)
		}
		w.wantErr("FSync", err, be)
		w.count("FSync", true)
	}
	{
		be := inject("Readlink")
		var t string
		var err error
		o := w.around("Readlink", func() { t, err = l1.Readlink() })
		if o.hung {
			return
		}
		tf := w.wantT(o, wire.Treadlink, w.fid[l1])
		if c := w.wantCall(o, "Readlink", w.hnd[l1]); c != nil && c.Err == nil {
			w.wantR(o, tf, wire.Rreadlink, c.Rets[0].(string))
			if t != c.Rets[0].(string) {
				w.bad("C03", "result-changed:Readlink", map[string]any{"backend": cutS(c.Rets[0].(string), 60), "caller": cutS(t, 60)})
				w.bad("C01", "reply-values-not-reconstructed:Rreadlink", map[string]any{})
			}
		}
		w.wantErr("Readlink", err, be)
		w.count("Readlink", true)
	}
	{
		pid := int(int32(g.Int(32)))
		lt := p9.LockType(g.Int(8))
		lf := p9.LockFlags(g.Int(32))
		start, length := g.Int(64), g.Int(64)
		client := (&wire.Gen{R: r, Small: true}).Str(100)
		be := inject("Lock")
		var st p9.LockStatus
		var err error
		o := w.around("Lock", func() { st, err = fo.Lock(pid, lt, lf, start, length, client) })
		if o.hung {
			return
		}
		tf := w.wantT(o, wire.Tlock, w.fid[fo], uint64(lt), uint64(lf), start, length, uint64(uint32(pid)), client)
		if c := w.wantCall(o, "Lock", w.hnd[fo], pid, lt, lf, start, length, client); c != nil && c.Err == nil {
			w.wantR(o, tf, wire.Rlock, uint64(c.Rets[0].(p9.LockStatus)))
			if st != c.Rets[0].(p9.LockStatus) {
				w.bad("C03", "result-changed:Lock", map[string]any{"backend": c.Rets[0], "caller": st})
			}
		}
		w.wantErr("Lock", err, be)
		w.count("Lock", true)
	}

	// ---- ReadAt / WriteAt (single chunk) ----
	for i := 0; i < 2; i++ {
		n := []int{0, 1, 7, 100, 3000}[r.Intn(5)]
		off := int64(g.Int(63))
		be := inject("ReadAt")
		short := -1
		if be == nil && n > 1 && r.Chance(30) {
			short = r.Intn(n)
			w.rf.ShortNext("ReadAt", short)
		}
		p := make([]byte, n)
		var got int
		var err error
		o := w.around("ReadAt", func() { got, err = fo.ReadAt(p, off) })
		if o.hung {
			return
		}
		tf := w.wantT(o, wire.Tread, w.fid[fo], uint64(off), uint64(n))
		if c := w.wantCall(o, "ReadAt", w.hnd[fo], n, off); c != nil && c.Err == nil {
			data := c.Rets[0].([]byte)
			w.wantR(o, tf, wire.Rread, data)
			if got != len(data) || !bytes.Equal(p[:got], data) {
				w.bad("C03", "result-changed:ReadAt", map[string]any{"backend_n": len(data), "caller_n": got})
				w.bad("C01", "payload-not-reconstructed:Rread", map[string]any{"backend_n": len(data), "caller_n": got})
			}
			if len(data) == 0 && n > 0 {
				if err != io.EOF {
					w.bad("C03", "empty-read-not-reported-as-EOF", map[string]any{"err": fmt.Sprint(err)})
				}
			} else if err != nil {
				w.bad("C03", "call-fails-although-backend-succeeded:ReadAt", map[string]any{"err": err.Error()})
			}
		} else if be != nil {
			w.wantErr("ReadAt", err, be)
		}
		w.count("ReadAt", n > 0)
	}
	for i := 0; i < 2; i++ {
		n := []int{0, 1, 9, 200, 3000}[r.Intn(5)] // below the smallest payload size in use (3584): one chunk
		off := int64(g.Int(63))
		data := r.Bytes(n)
		be := inject("WriteAt")
		var got int
		var err error
		o := w.around("WriteAt", func() { got, err = fo.WriteAt(data, off) })
		if o.hung {
			return
		}
		tf := w.wantT(o, wire.Twrite, w.fid[fo], uint64(off), data)
		if c := w.wantCall(o, "WriteAt", w.hnd[fo], data, off); c != nil && c.Err == nil {
			w.wantR(o, tf, wire.Rwrite, uint64(c.Rets[0].(int)))
			if got != c.Rets[0].(int) {
				w.bad("C03", "result-changed:WriteAt", map[string]any{"backend": c.Rets[0], "caller": got})
			}
		}
		w.wantErr("WriteAt", err, be)
		w.count("WriteAt", n > 0)
	}

	// ---- Readdir ----
	{
		off, cnt := g.Int(64), uint32(24+r.Intn(330)) // often less than what the backend returns: exercises the whole-entry cut
		be := inject("Readdir")
		var ents p9.Dirents
		var err error
		o := w.around("Readdir", func() { ents, err = do.Readdir(off, cnt) })
		if o.hung {
			return
		}
		tf := w.wantT(o, wire.Treaddir, w.fid[do], off, uint64(cnt))
		if c := w.wantCall(o, "Readdir", w.hnd[do], off, cnt); c != nil && c.Err == nil {
			be := c.Rets[0].(p9.Dirents)
			// documented rewriting: only whole entries within the requested byte count
			var fit p9.Dirents
			used := 0
			for _, e := range be {
				if used+wire.DirentSize(e.Name) > int(cnt) {
					break
				}
				used += wire.DirentSize(e.Name)
				fit = append(fit, e)
			}
			w.wantR(o, tf, wire.Rreaddir, wire.EncodeDirents(wDirents(fit)))
			if len(ents) != len(fit) || (len(fit) > 0 && !reflect.DeepEqual([]p9.Dirent(ents), []p9.Dirent(fit))) {
				w.bad("C03", "result-changed:Readdir", map[string]any{"backend_entries": len(be), "fit": len(fit), "caller_entries": len(ents)})
				w.bad("C01", "entries-not-reconstructed:Rreaddir", map[string]any{"fit": len(fit), "caller_entries": len(ents)})
			}
		}
		w.wantErr("Readdir", err, be)
		w.count("Readdir", true)
	}

	// ---- creation family on d1 ----
	nouid := func(x p9.UID) p9.UID {
		if w.ver < 3 {
			return p9.NoUID
		}
		return x
	}
	nogid := func(x p9.GID) p9.GID {
		if w.ver < 3 {
			return p9.NoGID
		}
		return x
	}
	{
		name := g.Str(60)
		perm := p9.FileMode(g.Int(32))
		uid, gid := p9.UID(g.Int(32)), p9.GID(g.Int(32))
		be := inject("Mkdir")
		var q p9.QID
		var err error
		o := w.around("Mkdir", func() { q, err = d1.Mkdir(name, perm, uid, gid) })
		if o.hung {
			return
		}
		var tf *tapFrame
		rt := uint8(wire.Rmkdir)
		if w.ver >= 3 {
			tf = w.wantT(o, wire.Tumkdir, w.fid[d1], name, uint64(perm), uint64(gid), uint64(uid))
			rt = wire.Rumkdir
		} else {
			tf = w.wantT(o, wire.Tmkdir, w.fid[d1], name, uint64(perm), u(wire.NOUID))
		}
		if c := w.wantCall(o, "Mkdir", w.hnd[d1], name, perm&07777, nouid(uid), nogid(gid)); c != nil && c.Err == nil {
			w.wantR(o, tf, rt, wQID(c.Rets[0].(p9.QID)))
			if q != c.Rets[0].(p9.QID) {
				w.bad("C03", "result-changed:Mkdir", map[string]any{})
			}
		}
		w.wantErr("Mkdir", err, be)
		w.count("Mkdir", true)
	}
	{
		target := (&wire.Gen{R: r, Small: true}).Str(80) // arbitrary bytes, '/' allowed
		name := g.Str(40)
		uid, gid := p9.UID(g.Int(32)), p9.GID(g.Int(32))
		be := inject("Symlink")
		var q p9.QID
		var err error
		o := w.around("Symlink", func() { q, err = d1.Symlink(target, name, uid, gid) })
		if o.hung {
			return
		}
		var tf *tapFrame
		rt := uint8(wire.Rsymlink)
		if w.ver >= 3 {
			tf = w.wantT(o, wire.Tusymlink, w.fid[d1], name, target, uint64(gid), uint64(uid))
			rt = wire.Rusymlink
		} else {
			tf = w.wantT(o, wire.Tsymlink, w.fid[d1], name, target, u(wire.NOUID))
		}
		if c := w.wantCall(o, "Symlink", w.hnd[d1], target, name, nouid(uid), nogid(gid)); c != nil && c.Err == nil {
			w.wantR(o, tf, rt, wQID(c.Rets[0].(p9.QID)))
			if q != c.Rets[0].(p9.QID) {
				w.bad("C03", "result-changed:Symlink", map[string]any{})
			}
		}
		w.wantErr("Symlink", err, be)
		w.count("Symlink", true)
	}
	{
		name := g.Str(40)
		mode := p9.FileMode(g.Int(32))
		major, minor := uint32(g.Int(32)), uint32(g.Int(32))
		uid, gid := p9.UID(g.Int(32)), p9.GID(g.Int(32))
		be := inject("Mknod")
		var q p9.QID
		var err error
		o := w.around("Mknod", func() { q, err = d1.Mknod(name, mode, major, minor, uid, gid) })
		if o.hung {
			return
		}
		var tf *tapFrame
		rt := uint8(wire.Rmknod)
		if w.ver >= 3 {
			tf = w.wantT(o, wire.Tumknod, w.fid[d1], name, uint64(mode), uint64(major), uint64(minor), uint64(gid), uint64(uid))
			rt = wire.Rumknod
		} else {
			tf = w.wantT(o, wire.Tmknod, w.fid[d1], name, uint64(mode), uint64(major), uint64(minor), u(wire.NOUID))
		}
		if c := w.wantCall(o, "Mknod", w.hnd[d1], name, mode, major, minor, nouid(uid), nogid(gid)); c != nil && c.Err == nil {
			w.wantR(o, tf, rt, wQID(c.Rets[0].(p9.QID)))
			if q != c.Rets[0].(p9.QID) {
				w.bad("C03", "result-changed:Mknod", map[string]any{})
			}
		}
		w.wantErr("Mknod", err, be)
		w.count("Mknod", true)
	}
	{
		name := g.Str(40)
		be := inject("Link")
		var err error
		o := w.around("Link", func() { err = d1.Link(f1, name) })
		if o.hung {
			return
		}
		tf := w.wantT(o, wire.Tlink, w.fid[d1], w.fid[f1], name)
		if c := w.wantCall(o, "Link", w.hnd[d1], name); c != nil {
			if c.H2 != w.hnd[f1] {
				w.bad("C03", "operation-reached-a-different-File:Link-target", map[string]any{"want": w.hnd[f1], "got": c.H2})
			}
			if c.Err == nil {
				w.wantR(o, tf, wire.Rlink)
			}
		}
		w.wantErr("Link", err, be)
		w.count("Link", true)
	}
	{
		name := g.Str(40)
		flags := uint32(g.Int(32))
		be := inject("UnlinkAt")
		var err error
		o := w.around("UnlinkAt", func() { err = d1.UnlinkAt(name, flags) })
		if o.hung {
			return
		}
		tf := w.wantT(o, wire.Tunlinkat, w.fid[d1], name, uint64(flags))
		if c := w.wantCall(o, "UnlinkAt", w.hnd[d1], name, flags); c != nil && c.Err == nil {
			w.wantR(o, tf, wire.Runlinkat)
		}
		w.wantErr("UnlinkAt", err, be)
		w.count("UnlinkAt", true)
	}
	{
		on, nn := g.Str(40), g.Str(40)
		be := inject("RenameAt")
		var err error
		o := w.around("RenameAt", func() { err = d1.RenameAt(on, w.root, nn) })
		if o.hung {
			return
		}
		tf := w.wantT(o, wire.Trenameat, w.fid[d1], on, w.fid[w.root], nn)
		if c := w.wantCall(o, "RenameAt", w.hnd[d1], on, nn); c != nil {
			if c.H2 != w.hnd[w.root] {
				w.bad("C03", "operation-reached-a-different-File:RenameAt-newdir", map[string]any{"want": w.hnd[w.root], "got": c.H2})
			}
			if c.Err == nil {
				w.wantR(o, tf, wire.Rrenameat)
			}
		}
		w.wantErr("RenameAt", err, be)
		w.count("RenameAt", true)
	}

	// ---- Walk / WalkGetAttr with 0..4 components ----
	for i := 0; i < 3; i++ {
		n := r.Intn(5)
		var names []string
		for k := 0; k < n; k++ {
			nm := g.Str(30)
			if k < n-1 {
				nm = "d" + nm // intermediate components must be directories
			}
			names = append(names, nm)
		}
		wga := i == 2
		var qids []p9.QID
		var nf p9.File
		var m p9.AttrMask
		var a p9.Attr
		var err error
		what := "Walk"
		if wga {
			what = "WalkGetAttr"
		}
		o := w.around(what, func() {
			if wga {
				qids, nf, m, a, err = d1.WalkGetAttr(names)
			} else {
				qids, nf, err = d1.Walk(names)
			}
		})
		if o.hung {
			return
		}
		if err != nil {
			w.bad("C03", "call-fails-although-backend-succeeded:"+what, map[string]any{"err": err.Error(), "names": fmt.Sprint(names)})
			continue
		}
		wn := names
		if wn == nil {
			wn = []string{}
		}
		var tf *tapFrame
		if wga && w.ver >= 2 {
			tf = w.wantT(o, wire.Twalkgetattr, w.fid[d1], lastNewfidT(o, wire.Twalkgetattr), wn)
		} else {
			tf = w.wantT(o, wire.Twalk, w.fid[d1], lastNewfidT(o, wire.Twalk), wn)
		}
		// backend: one step per component, each on the File the previous step returned
		rc := realCalls(o.calls)
		cur := w.hnd[d1]
		k := 0
		var bq []p9.QID
		var lastAttr *recfs.Call
		okSteps := true
		steps := n
		if n == 0 {
			steps = 1 // the clone
		}
		for s := 0; s < steps && okSteps; s++ {
			if k >= len(rc) {
				okSteps = false
				break
			}
			c := rc[k]
			var want []string
			if n > 0 {
				want = []string{names[s]}
			}
			if (c.Method != "Walk" && c.Method != "WalkGetAttr") || c.H != cur || !reflect.DeepEqual(normArgs(c.Args), normArgs([]any{append([]string{}, want...)})) {
				okSteps = false
				break
			}
			k++
			bq = append(bq, c.Rets[0].([]p9.QID)...)
			cur = c.NewH
			if c.Method == "WalkGetAttr" {
				lastAttr = c
			} else if k < len(rc) && rc[k].Method == "GetAttr" && rc[k].H == cur {
				lastAttr = rc[k]
				k++
			} else if n > 0 || (wga && w.ver >= 2) {
				okSteps = false
			}
		}
		// below version 2 WalkGetAttr is Walk followed by GetAttr on the result
		if wga && w.ver < 2 && okSteps && k < len(rc) && rc[k].Method == "GetAttr" && rc[k].H == cur {
			lastAttr = rc[k]
			k++
		}
		if !okSteps || k != len(rc) {
			w.bad("C03", "walk-not-performed-one-component-at-a-time-on-the-returned-Files", map[string]any{"names": fmt.Sprint(names), "backend_calls": callList(o.calls)})
			continue
		}
		if !reflect.DeepEqual(wQIDs(qids), wQIDs(bq)) {
			w.bad("C03", "result-changed:"+what, map[string]any{"backend": fmt.Sprint(bq), "caller": fmt.Sprint(qids)})
		}
		if wga && lastAttr != nil {
			var bm p9.AttrMask
			var ba p9.Attr
			if lastAttr.Method == "WalkGetAttr" {
				bm, ba = lastAttr.Rets[1].(p9.AttrMask), lastAttr.Rets[2].(p9.Attr)
			} else {
				bm, ba = lastAttr.Rets[1].(p9.AttrMask), lastAttr.Rets[2].(p9.Attr)
			}
			if m != bm || a != ba {
				w.bad("C03", "result-changed:WalkGetAttr-attributes", map[string]any{"backend": fmt.Sprint(bm, ba), "caller": fmt.Sprint(m, a)})
			}
			if w.ver >= 2 {
				w.wantR(o, tf, wire.Rwalkgetattr, append(append([]any{wMask(bm)}, wAttr(ba)...), wQIDs(bq))...)
			}
		}
		if !wga {
			w.wantR(o, tf, wire.Rwalk, wQIDs(bq))
		}
		w.hnd[nf] = cur
		if tf != nil && tf.err == nil {
			w.fid[nf] = tf.msg.F[1].(uint64)
		}
		w.files = append(w.files, nf)
		w.count(what, n > 0)
		// the derived File reaches the File the walk returned
		var q2 p9.QID
		o2 := w.around("GetAttr-after-"+what, func() { q2, _, _, err = nf.GetAttr(p9.AttrMaskAll) })
		if !o2.hung {
			if c := w.wantCall(o2, "GetAttr", cur, p9.AttrMaskAll); c != nil && c.Err == nil && q2 != c.Rets[0].(p9.QID) {
				w.bad("C03", "result-changed:GetAttr", map[string]any{})
			}
		}
	}

	// ---- Create (rebinding) ----
	{
		dc := w.derive(w.root, "dcreate")
		if dc == nil {
			return
		}
		name := g.Str(40)
		flags := p9.OpenFlags(g.Int(32))&^3 | 2 // read-write, so that the follow-up write is allowed
		perm := p9.FileMode(g.Int(32))
		uid, gid := p9.UID(g.Int(32)), p9.GID(g.Int(32))
		var nf p9.File
		var q p9.QID
		var iou uint32
		var err error
		o := w.around("Create", func() { nf, q, iou, err = dc.Create(name, flags, perm, uid, gid) })
		if o.hung {
			return
		}
		var tf *tapFrame
		rt := uint8(wire.Rlcreate)
		if w.ver >= 3 {
			tf = w.wantT(o, wire.Tucreate, w.fid[dc], name, uint64(flags), uint64(perm), uint64(gid), uint64(uid))
			rt = wire.Rucreate
		} else {
			tf = w.wantT(o, wire.Tlcreate, w.fid[dc], name, uint64(flags), uint64(perm), u(wire.NOUID))
		}
		if c := w.wantCall(o, "Create", w.hnd[dc], name, flags, perm&07777, nouid(uid), nogid(gid)); c != nil && c.Err == nil {
			w.wantR(o, tf, rt, wQID(c.Rets[0].(p9.QID)), uint64(c.Rets[1].(uint32)))
			if q != c.Rets[0].(p9.QID) || iou != c.Rets[1].(uint32) {
				w.bad("C03", "result-changed:Create", map[string]any{})
			}
			// the returned File now denotes the created, open file
			data := r.Bytes(5)
			o2 := w.around("WriteAt-after-Create", func() { _, err = nf.WriteAt(data, 3) })
			if !o2.hung {
				w.wantCall(o2, "WriteAt", c.NewH, data, int64(3))
			}
		}
		w.wantErr("Create", err, nil)
		w.count("Create", true)
	}

	// ---- Rename and Remove: act on the parent under the current name ----
	{
		fr := w.derive(w.root, "frename")
		dt := w.derive(w.root, "dtarget")
		if fr == nil || dt == nil {
			return
		}
		nn := g.Str(40)
		be := inject("RenameAt")
		var err error
		o := w.around("Rename", func() { err = fr.Rename(dt, nn) })
		if o.hung {
			return
		}
		tf := w.wantT(o, wire.Trename, w.fid[fr], w.fid[dt], nn)
		cur := "frename"
		if c := w.wantCall(o, "RenameAt", w.hnd[w.root], cur, nn); c != nil {
			if c.H2 != w.hnd[dt] {
				w.bad("C03", "operation-reached-a-different-File:Rename-newdir", map[string]any{})
			}
			if c.Err == nil {
				w.wantR(o, tf, wire.Rrename)
				cur = nn
				// the backend File is told its new parent and name
				told := false
				for _, x := range o.calls {
					if x.Method == "Renamed" && x.H == w.hnd[fr] && x.H2 == w.hnd[dt] && reflect.DeepEqual(x.Args, []any{nn}) {
						told = true
					}
				}
				if !told {
					w.bad("C03", "renamed-File-not-told-its-new-name", map[string]any{"backend_calls": callList(o.calls)})
				}
			}
		}
		w.wantErr("Rename", err, be)
		w.count("Rename", true)
		// Remove: UnlinkAt on the (possibly new) parent under the current name
		parent := w.hnd[w.root]
		if cur == nn {
			parent = w.hnd[dt]
		}
		be = inject("UnlinkAt")
		o = w.around("Remove", func() {
			type remover interface{ Remove() error }
			err = fr.(remover).Remove()
		})
		if o.hung {
			return
		}
		tf = w.wantT(o, wire.Tremove, w.fid[fr])
		if c := w.wantCall(o, "UnlinkAt", parent, cur, uint32(0)); c != nil && c.Err == nil {
			w.wantR(o, tf, wire.Rremove)
		}
		w.wantErr("Remove", err, be)
		w.count("Remove", true)
	}

	// ---- xattr ----
	{
		name := "user." + g.Str(20)
		be := inject("GetXattr")
		var val []byte
		var err error
		o := w.around("GetXattr", func() { val, err = f1.GetXattr(name) })
		if o.hung {
			return
		}
		w.wantT(o, wire.Txattrwalk, w.fid[f1], lastNewfidT(o, wire.Txattrwalk), name)
		var gx *recfs.Call
		for _, c := range realCalls(o.calls) {
			switch {
			case c.Method == "GetXattr" && gx == nil:
				gx = c
			case c.Method == "Walk" && len(c.Args[0].([]string)) == 0 && c.H == w.hnd[f1]:
				// the xattr fid's own copy of the File
			default:
				w.bad("C03", "unexpected-backend-call-during-GetXattr", map[string]any{"backend_calls": callList(o.calls)})
			}
		}
		if gx == nil || gx.H != w.hnd[f1] || !reflect.DeepEqual(gx.Args, []any{name}) {
			w.bad("C03", "backend-did-not-see-exactly-the-corresponding-call:GetXattr", map[string]any{"backend_calls": callList(o.calls)})
		} else if gx.Err == nil && !bytes.Equal(val, gx.Rets[0].([]byte)) {
			w.bad("C03", "result-changed:GetXattr", map[string]any{"backend_len": len(gx.Rets[0].([]byte)), "caller_len": len(val)})
		}
		w.wantErr("GetXattr", err, be)
		w.count("GetXattr", true)
	}
	{
		be := inject("ListXattrs")
		var l []string
		var err error
		o := w.around("ListXattrs", func() { l, err = f1.ListXattrs() })
		if o.hung {
			return
		}
		w.wantT(o, wire.Txattrwalk, w.fid[f1], lastNewfidT(o, wire.Txattrwalk), "")
		var lx *recfs.Call
		for _, c := range realCalls(o.calls) {
			if c.Method == "ListXattrs" {
				lx = c
			}
		}
		if lx == nil || lx.H != w.hnd[f1] {
			w.bad("C03", "backend-did-not-see-exactly-the-corresponding-call:ListXattrs", map[string]any{"backend_calls": callList(o.calls)})
		} else if lx.Err == nil && !reflect.DeepEqual(normArgs([]any{l}), normArgs([]any{lx.Rets[0].([]string)})) {
			w.bad("C03", "result-changed:ListXattrs", map[string]any{"backend": fmt.Sprint(lx.Rets[0]), "caller": fmt.Sprint(l)})
		}
		w.wantErr("ListXattrs", err, be)
		w.count("ListXattrs", true)
	}
	{
		var e1, e2 error
		o := w.around("SetXattr/RemoveXattr", func() {
			e1 = f1.SetXattr("user.x", []byte("v"), 0)
			e2 = f1.RemoveXattr("user.x")
		})
		if o.hung {
			return
		}
		if len(o.frames) != 0 || len(o.calls) != 0 {
			w.bad("C03", "SetXattr/RemoveXattr-not-local", map[string]any{"frames": len(o.frames)})
		}
		var le linux.Errno
		if !errors.As(e1, &le) || le != linux.ENOSYS || !errors.As(e2, &le) || le != linux.ENOSYS {
			w.bad("C03", "SetXattr/RemoveXattr-not-ENOSYS", map[string]any{"set": fmt.Sprint(e1), "remove": fmt.Sprint(e2)})
		}
		w.count("SetXattr", false)
	}

	// ---- a handle keeps reaching its File after requests naming its entry were refused ----
	if hx := w.derive(d1, "hx"); hx != nil {
		for _, refused := range []string{"UnlinkAt", "RenameAt"} {
			w.rf.FailNext(refused, linux.ENOTEMPTY)
			var err error
			o := w.around(refused, func() {
				if refused == "UnlinkAt" {
					err = d1.UnlinkAt("hx", 0)
				} else {
					err = d1.RenameAt("hx", d1, "hy")
				}
			})
			if o.hung {
				return
			}
			w.wantErr(refused, err, linux.ENOTEMPTY)
			valid := p9.SetAttrMask{Permissions: true}
			sa := p9.SetAttr{Permissions: 0640}
			o = w.around("SetAttr", func() { err = hx.SetAttr(valid, sa) })
			if o.hung {
				return
			}
			w.wantCall(o, "SetAttr", w.hnd[hx], valid, sa)
			w.wantErr("SetAttr", err, nil)
			w.count("SetAttr-after-refused-"+refused, true)
		}
	}

	// ---- Close ----
	{
		var err error
		ce := inject("Close")
		o := w.around("Close", func() { err = deep.Close() })
		if o.hung {
			return
		}
		tf := w.wantT(o, wire.Tclunk, w.fid[deep])
		closed := false
		for _, c := range o.calls {
			if c.Method == "Close" && c.H == w.hnd[deep] {
				closed = true
			}
		}
		if !closed {
			w.bad("C03", "backend-did-not-see-exactly-the-corresponding-call:Close", map[string]any{"backend_calls": callList(o.calls)})
		}
		if ce == nil {
			w.wantR(o, tf, wire.Rclunk)
		}
		w.wantErr("Close", err, ce)
		w.count("Close", true)
	}
	// ---- a closed File as an ARGUMENT ----
	// deep is closed; its fid number is free and (the pool hands numbers back
	// last in, first out) goes to the very next handle. A closed handle denotes
	// no server-side File any more: an operation given it must fail, not be
	// carried out on whatever File now owns the number.
	for _, how := range []string{"Link", "RenameAt", "Rename"} {
		nm := "dz" // a directory takes the number: the target of the renames
		if how == "Link" {
			nm = "hz" // a file: the target of the link
		}
		other := w.derive(d1, nm)
		if other == nil {
			break
		}
		var err error
		o := w.around(how+"(closed File)", func() {
			switch how {
			case "RenameAt":
				err = d1.RenameAt("hx", deep, "moved")
			case "Rename":
				if hy := w.derive(d1, "hy"); hy != nil {
					err = hy.Rename(deep, "moved")
				} else {
					err = errors.New("setup")
				}
			default:
				err = d1.Link(deep, "lnk")
			}
		})
		if o.hung {
			return
		}
		bad := err == nil
		for _, cl := range realCalls(o.calls) {
			if cl.Method == "RenameAt" || cl.Method == "Link" {
				bad = true
			}
		}
		if bad {
			w.bad("C03", "closed-File-argument-carried-out-on-another-File:"+how, map[string]any{"err": fmt.Sprint(err), "backend_calls": callList(o.calls), "closed_fid": w.fid[deep], "fid_of_the_new_handle": w.fid[other]})
		}
		w.count(how+"-closed-argument", true)
		// give the number back for the next round
		o = w.around("Close", func() { other.Close() })
		if o.hung {
			return
		}
	}
	if w.c.WantSample() {
		w.c.Sample(map[string]any{"version": w.ver, "walk_getattr_mode": w.rf.WGA, "backend_calls_recorded": w.rf.Len(), "frames_tapped": w.tp.n()})
	}
}

// lastNewfidT returns the newfid field of the first request of type t in o.
func lastNewfidT(o obs, t uint8) uint64 {
	for _, f := range o.frames {
		if f.toServer && f.msg.Type == t && f.err == nil {
			return f.msg.F[1].(uint64)
		}
	}
	return 0
}

var _ = time.Second
