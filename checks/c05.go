package checks

import (
	"bytes"
	"fmt"
	"io"
	"runtime"
	"strings"
	"time"

	"github.com/hugelgupf/p9/p9"

	"verif/internal/ev"
	"verif/internal/memfs"
	"verif/internal/quiesce"
	"verif/internal/rawpeer"
	"verif/internal/wire"
	"verif/internal/xport"
)

func init() {
	ev.Register(&ev.Spec{
		ID: "C05", Level: "exploration",
		Rule:    "lifecycle monitor of the instrumented backend (per handle: Close count, calls begun after Close began, Close begun during a call) + return of Server.Handle + goroutine-leak check + path-tree reference count (verif hook), over: (1) PRNG request sequences ending by disconnect; (2) cut points: the byte stream of scripted sessions replayed truncated at every frame boundary +-1 and every 7th offset (thorough: every offset) followed by EOF; (3) 1-8 requests parked inside the backend when the connection is cut, gates released in every order (k<=4) or PRNG order: every handler exit must precede every teardown Close and the return of Handle (logical clock); (4) a clunk racing a parked operation on the same fid; (5) a connection ending while another connection is parked in RenameAt / Renamed / UnlinkAt / Close for entries the dying connection holds (same-directory and cross-directory renames); (7) bursts on one fid number: thousands of [bind fid 1, use it, unbind it by Tclunk / Tremove / a walk onto it, use it twice more] sent in a few large writes with no pause, lifecycle monitors on (the windows before any backend call: fid table, reference counts). (8) a Tremove queued behind a rename of its own entry that is parked in RenameAt (through another fid of the directory, same or other connection, same or other target directory, or Trename), the directory fid the entry was walked from already clunked. (9) requests whose backend GetAttr succeeds without reporting the mode (attach, named attach, walk, walkgetattr): refused, and the File obtained for them closed like any other. Non-trivial: >= 2 handles handed out and >= 1 bound fid or in-flight request at the end; distinct by event-order signature.",
		Assume:  []string{"memfs counters are updated under the backend's own event lock", "hangs decided by process quiescence"},
		Shards:  shards(8, 16),
		Timeout: timeout(8*time.Minute, 60*time.Minute),
		Run:     runC05,
	})
}

// c05Final checks everything that must hold once every connection ended.
func c05Final(c *ev.Ctx, fs *memfs.FS, srv *p9.Server, what string, det map[string]any) {
	for _, v := range fs.LifecycleViolations(true) {
		d := map[string]any{"scenario": what}
		for k, x := range det {
			d[k] = x
		}
		c.Violation("C05:"+v+":"+scenarioClass(what), d)
	}
	if n := fs.Active(); len(n) > 0 {
		c.Violation("C05:backend-call-still-running-after-Handle-returned:"+scenarioClass(what), map[string]any{"call": n[0].String()})
	}
	if srv != nil && !hungFlag {
		_, refs := p9.VerifTreeStats(srv)
		if refs != 0 {
			d := map[string]any{"scenario": what, "refs_left": refs}
			for k, x := range det {
				d[k] = x
			}
			c.Violation("C05:path-tree-references-left-after-all-connections-ended:"+scenarioClass(what), d)
		}
	}
	leaked := quiesce.Leaked(2*time.Second, func(g quiesce.G) bool { return g.Has("p9.(*connState)") || g.Has("p9.(*Server)") })
	if len(leaked) > 0 {
		c.Violation("C05:goroutine-left-behind:"+scenarioClass(what), map[string]any{"scenario": what, "stacks": quiesce.P9Stacks(leaked)})
	}
	c.Count("handles_accounted", int64(len(fs.Handles())))
}

func scenarioClass(s string) string {
	if strings.HasPrefix(s, "burst") {
		return "burst"
	}
	if i := strings.IndexByte(s, ' '); i > 0 {
		return s[:i]
	}
	return s
}

// (6) a rename notifies the files below the renamed entry while another
// connection, being torn down, is parked inside Close of one of them.
func c05RenameDuringClose(c *ev.Ctx) {
	for i, variant := range []string{"subtree-rename", "ancestor-rename", "unlink-then-nothing"} {
		if !c.Mine(i + 2) {
			continue
		}
		hungFlag = false
		c.Begin("C05 rename during parked Close " + variant)
		w, ok := newConcWorld(2)
		if !ok {
			c.Inconclusive("rename-during-close world")
			w.close()
			continue
		}
		ca, cb := w.conns[0], w.conns[1]
		ca.fidAt("/a/b", 'u', true)
		ca.fidAt("/a/b/f", 'u', false)
		da, _ := cb.fidAt("/a", 'u', true)
		du, _ := cb.fidAt("/d", 'u', true)
		g := w.fs.Hold(memfs.Match{Method: "Close", Path: "/a/b/f"}, 1)
		ca.p.C.Close() // teardown of A begins; it parks inside Close(/a/b/f)
		if o, _ := g.WaitParked(1); o != quiesce.CondMet {
			g.Release()
			c.Case("rename-during-close:"+variant+":not-parked", false)
			w.close()
			continue
		}
		from := cb.p.NReplies()
		switch variant {
		case "subtree-rename":
			cb.p.Send(wire.Trenameat, 90, da, "b", du, "b2")
		case "ancestor-rename":
			cb.p.Send(wire.Trenameat, 90, u(0), "a", du, "a2")
		default:
			cb.p.Send(wire.Tgetattr, 90, da, u(0x3fff))
		}
		quiesce.WaitUntil(func() bool { return cb.p.HasReplyFrom(90, from) != nil }, 20*time.Second)
		g.Release()
		det := map[string]any{"scenario": variant}
		if _, ok, o, d := cb.p.WaitTag(90, from); !ok {
			hang(c, o, d, "C05:rename-never-answered:rename-during-close:"+variant, det)
		}
		out, dump := quiesce.Await(ca.p.HandleDone, wd)
		hang(c, out, dump, "C05:Handle-does-not-return:rename-during-close:"+variant, det)
		ca.p.Close()
		out, dump = cb.p.Close()
		hang(c, out, dump, "C05:Handle-does-not-return:rename-during-close-survivor:"+variant, det)
		c05Final(c, w.fs, w.srv, "rename-during-close "+variant, det)
		c.Case("rename-during-close:"+variant, true)
	}
}

func runC05(c *ev.Ctx) {
	c05RenameDuringClose(c)
	c05RemoveDuringRename(c)
	c05AttachWithoutMode(c)
	c05Sequences(c)
	c05CutPoints(c)
	c05InFlight(c)
	c05ClunkRace(c)
	c05TeardownRace(c)
	c05Burst(c)
}

// (1) random sequences, then disconnect with fids still bound.
func c05Sequences(c *ev.Ctx) {
	r := c.Rand("c05seq")
	n := c.Sz(1500, 80000)
	for si := 0; si < n; si++ {
		if !c.Mine(si) {
			continue
		}
		rr := r.Fork(uint64(si))
		fs := fixture()
		fs.AltWalkGetAttr = rr.Bool()
		fs.Recursive = rr.Bool()
		st := newStepper(c, "C05", fs, 2)
		st.quiet = true
		g := &seqGen{r: rr, fs: fs, w: st.w, nconn: 2, rename: 40, maxfid: 6}
		steps := 40 + rr.Intn(c.Sz(120, 600))
		hungFlag = false
		c.Begin(fmt.Sprintf("C05 sequence %d", si))
		for k := 0; k < steps && !st.dead; k++ {
			conn, a := g.next()
			if st.w.Judge(conn, wire.Msg{Type: a.t, F: a.vals}).DontCare {
				continue
			}
			st.step(conn, a.t, a.vals...)
			// touch every small fid: a File closed too early while a fid still
			// refers to it shows up at once as a call after Close
			st.probe(g.maxfid, false)
		}
		bound := len(st.w.Conns[0]) + len(st.w.Conns[1])
		// end the connections in a seed-chosen order
		order := []int{0, 1}
		if rr.Bool() {
			order = []int{1, 0}
		}
		for _, i := range order {
			out, dump := st.peers[i].Close()
			hang(c, out, dump, "C05:Handle-does-not-return:sequence", map[string]any{"trace": st.tail()})
		}
		c05Final(c, fs, st.srv, "sequence", map[string]any{"trace": st.tail(), "fids_bound_at_disconnect": bound})
		c.Case(fmt.Sprintf("seq:%d:%d", si, bound), len(fs.Handles()) >= 2 && bound >= 1)
		c.SetAdd("lifecycle_signatures", lifeSig(fs))
		if c.WantSample() && si%11 == 0 {
			c.Sample(map[string]any{"scenario": "sequence", "steps": len(st.trace), "handles": len(fs.Handles()), "fids_bound_at_disconnect": bound})
		}
	}
}

func lifeSig(fs *memfs.FS) string {
	m := map[string]int{}
	for _, h := range fs.Handles() {
		m[h.CreatedBy]++
	}
	return fmt.Sprint(m)
}

type recWriter struct {
	buf bytes.Buffer
}

// c05Script is a scripted session exercising walks, replacement, create
// rebinding, xattr fids, rename/unlink of referenced entries.
func c05Script(k int) []areq {
	nf := u(wire.NOFID)
	base := []areq{R(wire.Tversion, u(1<<16), v7), R(wire.Tattach, u(0), nf, "u", "", u(wire.NOUID))}
	switch k % 3 {
	case 0:
		return append(base, R(wire.Twalk, u(0), u(1), []string{"a", "b", "f"}), R(wire.Twalk, u(0), u(2), []string{"a"}), R(wire.Twalk, u(0), u(1), []string{"f"}), R(wire.Tlopen, u(1), u(2)),
			R(wire.Twrite, u(1), u(0), []byte("hello")), R(wire.Txattrwalk, u(1), u(3), "user.x"), R(wire.Tread, u(3), u(0), u(11)), R(wire.Tlcreate, u(2), "new", u(2), u(0644), u(0)),
			R(wire.Twalk, u(0), u(4), []string{"a", "g"}), R(wire.Trenameat, u(0), "a", u(0), "z"), R(wire.Tgetattr, u(4), u(0x3fff)), R(wire.Tclunk, u(3)), R(wire.Tremove, u(4)))
	case 1:
		return append(base, R(wire.Twalk, u(0), u(1), []string{"a", "zz", "f"}), R(wire.Twalk, u(0), u(1), []string{"a", "b"}), R(wire.Twalk, u(1), u(2), []string{}), R(wire.Twalk, u(1), u(3), []string{"f"}),
			R(wire.Tunlinkat, u(1), "f", u(0)), R(wire.Tgetattr, u(3), u(0x3fff)), R(wire.Twalk, u(2), u(2), []string{}), R(wire.Txattrcreate, u(2), "user.n", u(2), u(0)), R(wire.Twrite, u(2), u(0), []byte("ab")),
			R(wire.Tclunk, u(2)), R(wire.Tmkdir, u(1), "nd", u(0755), u(0)), R(wire.Twalk, u(1), u(5), []string{"nd"}), R(wire.Trename, u(5), u(0), "top"))
	default:
		return append(base, R(wire.Tattach, u(1), nf, "u", "a/b", u(wire.NOUID)), R(wire.Twalkgetattr, u(1), u(2), []string{"f"}), R(wire.Tlopen, u(2), u(0)), R(wire.Tread, u(2), u(0), u(100)),
			R(wire.Twalk, u(0), u(3), []string{"d"}), R(wire.Tlopen, u(3), u(0)), R(wire.Treaddir, u(3), u(0), u(4096)), R(wire.Tattach, u(3), nf, "u", "", u(wire.NOUID)), R(wire.Tlink, u(1), u(2), "ln"),
			R(wire.Tsymlink, u(1), "s", "t", u(0)), R(wire.Twalk, u(1), u(4), []string{"s"}), R(wire.Treadlink, u(4)), R(wire.Tflush, u(77)))
	}
}

// (2) cut points.
func c05CutPoints(c *ev.Ctx) {
	idx := 0
	for k := 0; k < 3; k++ {
		script := c05Script(k)
		var stream []byte
		var bounds []int
		for i, a := range script {
			tag := uint16(i + 1)
			if a.t == wire.Tversion {
				tag = wire.NOTAG
			}
			stream = append(stream, wire.Encode(a.t, tag, a.vals...)...)
			bounds = append(bounds, len(stream))
		}
		var cuts []int
		if c.Thorough() {
			for i := 0; i <= len(stream); i++ {
				cuts = append(cuts, i)
			}
		} else {
			seen := map[int]bool{}
			add := func(i int) {
				if i >= 0 && i <= len(stream) && !seen[i] {
					seen[i] = true
					cuts = append(cuts, i)
				}
			}
			add(0)
			for _, b := range bounds {
				add(b - 1)
				add(b)
				add(b + 1)
				add(b + 7)
			}
			for i := 0; i < len(stream); i += 7 {
				add(i)
			}
		}
		for _, cut := range cuts {
			idx++
			if !c.Mine(idx) {
				continue
			}
			hungFlag = false
			c.Begin(fmt.Sprintf("C05 cut script=%d at=%d of %d", k, cut, len(stream)))
			fs := fixture()
			srv := p9.NewServer(fs)
			var cr *xport.CutReader
			p := rawpeer.New(srv, &rawpeer.Options{WrapReader: func(r io.ReadCloser) io.ReadCloser {
				cr = xport.NewCutReader(r)
				return cr
			}})
			cr.SetEOF(int64(cut), false)
			if cut > 0 {
				p.SendRaw(stream[:cut])
			} else {
				p.C.Close()
			}
			out, dump := quiesce.Await(p.HandleDone, wd)
			det := map[string]any{"script": k, "cut_at": cut, "stream_bytes": len(stream)}
			if out != quiesce.CondMet {
				hang(c, out, dump, "C05:Handle-does-not-return:cut", det)
			}
			p.Close()
			c05Final(c, fs, srv, "cut", det)
			c.Case(fmt.Sprintf("cut:%d:%d", k, cut), len(fs.Handles()) >= 2)
			c.Count("cut_points", 1)
		}
		c.Sample(map[string]any{"scenario": "cut", "script": k, "stream_bytes": len(stream), "cut_points": len(cuts)})
	}
}

// (3) requests parked in the backend when the connection is cut.
func c05InFlight(c *ev.Ctx) {
	r := c.Rand("c05inflight")
	idx := 0
	for _, k := range []int{1, 2, 3, 4, 6, 8} {
		var orders [][]int
		if k <= 4 {
			orders = perms(k)
		} else {
			for i := 0; i < 6; i++ {
				orders = append(orders, r.Perm(k))
			}
		}
		for _, order := range orders {
			for _, how := range []string{"close", "eof"} {
				idx++
				if !c.Mine(idx) {
					continue
				}
				hungFlag = false
				c.Begin(fmt.Sprintf("C05 inflight k=%d order=%v how=%s", k, order, how))
				fs, p, ok := stormWorld(c, 0, false)
				fs.NoLog = false
				if !ok {
					c.Inconclusive("inflight setup")
					p.Close()
					continue
				}
				var gates []*memfs.Gate
				for j := 0; j < k; j++ {
					gates = append(gates, fs.Hold(memfs.Match{Method: "ReadAt", Path: fmt.Sprintf("/r%d", j)}, 1))
					p.Send(wire.Tread, uint16(10+j), u(uint64(20+j)), u(0), u(4))
				}
				for j := 0; j < k; j++ {
					gates[j].WaitParked(1)
				}
				p.Flush()
				p.C.Close() // cut the connection while k handlers are inside the backend
				// Handle must not return (nor any teardown Close begin) while handlers run
				quiesce.WaitUntil(func() bool { return false }, 5*time.Second)
				select {
				case <-p.HandleDone:
					c.Violation("C05:Handle-returns-while-handlers-are-running", map[string]any{"parked": k})
				default:
				}
				for _, j := range order {
					gates[j].Release()
				}
				out, dump := quiesce.Await(p.HandleDone, wd)
				det := map[string]any{"parked": k, "release_order": order}
				if out != quiesce.CondMet {
					hang(c, out, dump, "C05:Handle-does-not-return:inflight", det)
				}
				// ordering on the logical clock
				var lastExit, firstClose int64
				for _, cl := range fs.Calls(0) {
					if cl.Method == "ReadAt" && cl.Exit > lastExit {
						lastExit = cl.Exit
					}
					if cl.Method == "Close" && strings.HasPrefix(cl.Path, "/r") && (firstClose == 0 || cl.Enter < firstClose) {
						firstClose = cl.Enter
					}
				}
				if firstClose != 0 && firstClose < lastExit {
					c.Violation("C05:teardown-Close-before-a-running-handler-finished", det)
				}
				if hs := p.HandleSeq(); hs != 0 && hs < lastExit {
					c.Violation("C05:Handle-returned-before-a-running-handler-finished", det)
				}
				p.Close()
				c05Final(c, fs, nil, "inflight", det)
				c.Case(fmt.Sprintf("inflight:%d:%v:%s", k, order, how), true)
				c.SetAdd("release_orders", fmt.Sprint(k, order))
			}
		}
	}
}

// (4) clunk racing a parked operation on the same fid.
func c05ClunkRace(c *ev.Ctx) {
	ops := []struct {
		name, method string
		send         func(p *rawpeer.Peer, fid uint64)
		state        byte
	}{
		{"read", "ReadAt", func(p *rawpeer.Peer, fid uint64) { p.Send(wire.Tread, 50, fid, u(0), u(4)) }, 'o'},
		{"write", "WriteAt", func(p *rawpeer.Peer, fid uint64) { p.Send(wire.Twrite, 50, fid, u(0), []byte("x")) }, 'o'},
		{"getattr", "GetAttr", func(p *rawpeer.Peer, fid uint64) { p.Send(wire.Tgetattr, 50, fid, u(0x3fff)) }, 'u'},
		{"setattr", "SetAttr", func(p *rawpeer.Peer, fid uint64) {
			p.Send(wire.Tsetattr, 50, fid, u(1), u(0600), u(0), u(0), u(0), u(0), u(0), u(0), u(0))
		}, 'u'},
		{"xattrwalk", "GetXattr", func(p *rawpeer.Peer, fid uint64) { p.Send(wire.Txattrwalk, 50, fid, u(77), "user.x") }, 'u'},
		{"clone", "Walk", func(p *rawpeer.Peer, fid uint64) { p.Send(wire.Twalk, 50, fid, u(78), []string{}) }, 'u'},
		{"open", "Open", func(p *rawpeer.Peer, fid uint64) { p.Send(wire.Tlopen, 50, fid, u(0)) }, 'u'},
		{"statfs", "StatFS", func(p *rawpeer.Peer, fid uint64) { p.Send(wire.Tstatfs, 50, fid) }, 'u'},
	}
	for i, op := range ops {
		for _, second := range []string{"clunk", "remove", "replace"} {
			if !c.Mine(i) {
				continue
			}
			hungFlag = false
			c.Begin("C05 clunk race " + op.name + " " + second)
			w, ok := newConcWorld(1)
			if !ok {
				c.Inconclusive("clunk race world")
				w.close()
				continue
			}
			cc := w.conns[0]
			fid, ok := cc.fidAt("/a/g", op.state, false)
			if !ok {
				w.close()
				continue
			}
			g := w.fs.Hold(memfs.Match{Method: op.method, Path: "/a/g"}, 1)
			from := cc.p.NReplies()
			op.send(cc.p, fid)
			if o, _ := g.WaitParked(1); o != quiesce.CondMet {
				g.Release()
				w.close()
				continue
			}
			switch second {
			case "clunk":
				cc.p.Send(wire.Tclunk, 51, fid)
			case "remove":
				cc.p.Send(wire.Tremove, 51, fid)
			case "replace":
				cc.p.Send(wire.Twalk, 51, u(0), fid, []string{"f"})
			}
			// the second request may be answered or may wait; either way Close
			// must not begin while the parked call is inside the backend
			quiesce.WaitUntil(func() bool { return cc.p.HasReplyFrom(51, from) != nil }, 20*time.Second)
			g.Release()
			cc.p.WaitTag(50, from)
			cc.p.WaitTag(51, from)
			for _, cn := range w.conns {
				out, dump := cn.p.Close()
				hang(c, out, dump, "C05:Handle-does-not-return:clunk-race", op.name)
			}
			c05Final(c, w.fs, w.srv, "clunk-race "+op.name+"+"+second, map[string]any{"parked_operation": op.name, "second_request": second})
			c.Case("clunk-race:"+op.name+":"+second, true)
		}
	}
}

// (5) a connection ends while another is parked in a rename / unlink callback
// for entries the dying connection holds.
func c05TeardownRace(c *ev.Ctx) {
	type scen struct {
		name   string
		gate   memfs.Match
		sendB  func(cb *concConn, da, du uint64)
		holdsA []string // paths connection A holds fids on
	}
	scens := []scen{
		{"same-dir-rename@RenameAt", memfs.Match{Method: "RenameAt"}, func(cb *concConn, da, du uint64) { cb.p.Send(wire.Trenameat, 90, da, "g", da, "g2") }, []string{"/a/g"}},
		{"same-dir-rename@Renamed", memfs.Match{Method: "Renamed"}, func(cb *concConn, da, du uint64) { cb.p.Send(wire.Trenameat, 90, da, "g", da, "g2") }, []string{"/a/g", "/a/g"}},
		{"cross-dir-rename@RenameAt", memfs.Match{Method: "RenameAt"}, func(cb *concConn, da, du uint64) { cb.p.Send(wire.Trenameat, 90, da, "g", du, "g2") }, []string{"/a/g"}},
		{"cross-dir-rename@Renamed", memfs.Match{Method: "Renamed"}, func(cb *concConn, da, du uint64) { cb.p.Send(wire.Trenameat, 90, da, "g", du, "g2") }, []string{"/a/g", "/a/g"}},
		{"subtree-rename@Renamed", memfs.Match{Method: "Renamed"}, func(cb *concConn, da, du uint64) { cb.p.Send(wire.Trenameat, 90, da, "b", du, "b2") }, []string{"/a/b", "/a/b/f"}},
		{"subtree-rename@RenameAt", memfs.Match{Method: "RenameAt"}, func(cb *concConn, da, du uint64) { cb.p.Send(wire.Trenameat, 90, da, "b", du, "b2") }, []string{"/a/b", "/a/b/f"}},
		{"rename-over-held-target@RenameAt", memfs.Match{Method: "RenameAt"}, func(cb *concConn, da, du uint64) { cb.p.Send(wire.Trenameat, 90, da, "g", da, "h") }, []string{"/a/h"}},
		{"unlink@UnlinkAt", memfs.Match{Method: "UnlinkAt"}, func(cb *concConn, da, du uint64) { cb.p.Send(wire.Tunlinkat, 90, da, "g", u(0)) }, []string{"/a/g"}},
	}
	idx := 0
	for _, sc := range scens {
		for _, own := range []bool{false, true} {
			idx++
			if !c.Mine(idx) {
				continue
			}
			hungFlag = false
			c.Begin("C05 teardown race " + sc.name)
			w, ok := newConcWorld(2)
			if !ok {
				c.Inconclusive("teardown race world")
				w.close()
				continue
			}
			ca, cb := w.conns[0], w.conns[1]
			for _, pth := range sc.holdsA {
				ca.fidAt(pth, 'u', false)
			}
			if own {
				// connection B holds a fid on the entry as well
				cb.fidAt(sc.holdsA[0], 'u', false)
			}
			da, ok1 := cb.fidAt("/a", 'u', true)
			du, ok2 := cb.fidAt("/d", 'u', true)
			if !ok1 || !ok2 {
				w.close()
				continue
			}
			g := w.fs.Hold(sc.gate, 1)
			from := cb.p.NReplies()
			sc.sendB(cb, da, du)
			if o, _ := g.WaitParked(1); o != quiesce.CondMet {
				g.Release()
				cb.p.WaitTag(90, from)
				c.Case("teardown-race:"+sc.name+":not-parked", false)
				w.close()
				continue
			}
			// connection A ends while B is parked in the callback
			ca.p.C.Close()
			quiesce.WaitUntil(func() bool {
				select {
				case <-ca.p.HandleDone:
					return true
				default:
					return false
				}
			}, 20*time.Second)
			g.Release()
			det := map[string]any{"scenario": sc.name, "B_also_holds_entry": own}
			if _, ok, o, d := cb.p.WaitTag(90, from); !ok {
				hang(c, o, d, "C05:rename-never-answered-after-other-connection-ended:"+sc.name, det)
			}
			outA, dumpA := quiesce.Await(ca.p.HandleDone, wd)
			hang(c, outA, dumpA, "C05:Handle-does-not-return:teardown-race:"+sc.name, det)
			// B keeps working afterwards
			if r := cb.p.RPC(wire.Tgetattr, da, u(0x3fff)); !r.OK {
				hang(c, r.Out, r.Dump, "C05:surviving-connection-not-served:"+sc.name, det)
			}
			ca.p.Close()
			outB, dumpB := cb.p.Close()
			hang(c, outB, dumpB, "C05:Handle-does-not-return:teardown-race-survivor:"+sc.name, det)
			c05Final(c, w.fs, w.srv, "teardown-race "+sc.name, det)
			c.Case(fmt.Sprintf("teardown-race:%s:%v", sc.name, own), true)
		}
	}
}

// (7) bursts on one fid number: thousands of repetitions of
// [bind fid 1, use it, unbind it, use it twice more] leave in a few large
// writes, with no pause anywhere. The server's goroutines look the fid up
// while others unbind it; whatever they find, a File is closed once, and only
// after the last request that found it has finished. No backend gate is used:
// the windows in question are before any backend call (fid table, reference
// counts), so the workload has to be fast rather than staged.
func c05Burst(c *ev.Ctx) {
	sessions := c.Sz(16, 400)
	reps := c.Sz(2500, 10000)
	// the shards share the cores; this workload needs real parallelism
	defer runtime.GOMAXPROCS(runtime.GOMAXPROCS(8))
	for si := 0; si < sessions; si++ {
		if !c.Mine(si) {
			continue
		}
		hungFlag = false
		c.Begin(fmt.Sprintf("C05 burst session %d", si))
		fs := memfs.New()
		fs.MkPath("/a/g", p9.ModeRegular|0644, "x")
		fs.NoLog = true
		srv := p9.NewServer(fs)
		s, vr := newSessOn(srv, 1<<16, v7, nil)
		if !vr.OK || s.attach(0, "").Errno() != 0 || s.walk(0, 2, "a").Errno() != 0 {
			c.Inconclusive("C05 burst setup")
			s.P.Close()
			continue
		}
		unbind := []uint8{wire.Tclunk, wire.Tremove, wire.Twalk}[si%3]
		var stream []byte
		nframes := 0
		for i := 0; i < reps; i++ {
			tag := uint16(10 + (i%1000)*6)
			switch si % 4 {
			case 0, 1:
				stream = append(stream, wire.Encode(wire.Twalk, tag, u(0), u(1), []string{})...) // clone of the root
			default:
				stream = append(stream, wire.Encode(wire.Twalk, tag, u(2), u(1), []string{"g"})...)
			}
			stream = append(stream, wire.Encode(wire.Tgetattr, tag+1, u(1), u(1))...)
			switch unbind {
			case wire.Tclunk:
				stream = append(stream, wire.Encode(wire.Tclunk, tag+2, u(1))...)
			case wire.Tremove:
				stream = append(stream, wire.Encode(wire.Tclunk, tag+2, u(1))...)
			default:
				stream = append(stream, wire.Encode(wire.Twalk, tag+2, u(2), u(1), []string{})...) // rebinds fid 1: the old File goes
			}
			stream = append(stream, wire.Encode(wire.Tgetattr, tag+3, u(1), u(1))...)
			stream = append(stream, wire.Encode(wire.Tgetattr, tag+4, u(1), u(1))...)
			nframes += 5
			if (i+1)%1000 == 0 || i == reps-1 {
				// tags repeat every 1000 repetitions: let the replies drain
				from := s.P.NReplies()
				s.P.SendRaw(stream)
				stream = nil
				want := from + nframes
				nframes = 0
				if out, dump := quiesce.WaitUntil(func() bool { return s.P.NReplies() >= want || s.P.ReadErr() != nil }, 4*wd); out != quiesce.CondMet {
					hang(c, out, dump, "C05:burst:requests-unanswered", map[string]any{"answered": s.P.NReplies() - from, "sent": want - from})
					break
				}
				if s.P.ReadErr() != nil {
					c.Violation("C05:burst:connection-ended", map[string]any{"err": s.P.ReadErr().Error()})
					break
				}
				if lv := fs.LifecycleViolations(false); len(lv) > 0 {
					break // reported below, with the final accounting
				}
			}
		}
		s.P.Monitor() // replies were not matched to requests (SendRaw): drop the monitor's complaints
		if !hungFlag {
			out, dump := s.P.Close()
			hang(c, out, dump, "C05:Handle-does-not-return:burst", nil)
			c05Final(c, fs, srv, "burst", map[string]any{"unbind_by": wire.TypeName(unbind), "repetitions": reps})
		}
		c.Case(fmt.Sprintf("burst:%s:%d", wire.TypeName(unbind), si%4), true)
		c.Count("burst_frames", int64(5*reps))
	}
}

// (8) a Tremove that arrives while a rename of the same entry is inside the
// backend. The directory fid the entry was walked from has been clunked: the
// File behind it lives only through the entry's parent reference, and the
// rename - made through another fid of the directory - re-parents the entry and
// drops it. Whatever the Tremove had looked at before it had to wait, it may not
// call UnlinkAt on that closed File.
func c05RemoveDuringRename(c *ev.Ctx) {
	for i, variant := range []string{"same-dir", "same-dir-other-conn", "cross-dir", "trename"} {
		if !c.Mine(i + 4) {
			continue
		}
		hungFlag = false
		c.Begin("C05 remove during parked rename " + variant)
		w, ok := newConcWorld(2)
		if !ok {
			c.Inconclusive("remove-during-rename world")
			w.close()
			continue
		}
		ca := w.conns[0]
		cb := ca
		if variant == "same-dir-other-conn" {
			cb = w.conns[1]
		}
		d1, ok1 := ca.fidAt("/a", 'u', true)
		ca.next++
		x := ca.next
		ok1 = ok1 && ca.s.walk(d1, x, "g").Errno() == 0 && ca.s.clunk(d1).Errno() == 0
		d3, ok2 := cb.fidAt("/a", 'u', true)
		var x2 uint64
		if variant == "trename" {
			// the rename is a Trename through a second fid on the entry
			x2, ok2 = cb.fidAt("/a/g", 'u', false)
		}
		if !ok1 || !ok2 {
			c.Inconclusive("remove-during-rename setup")
			w.close()
			continue
		}
		g := w.fs.Hold(memfs.Match{Method: "RenameAt"}, 1)
		fromB := cb.p.NReplies()
		switch variant {
		case "cross-dir":
			cb.p.Send(wire.Trenameat, 90, d3, "g", u(801), "g2")
		case "trename":
			cb.p.Send(wire.Trename, 90, x2, d3, "g2")
		default:
			cb.p.Send(wire.Trenameat, 90, d3, "g", d3, "g2")
		}
		if o, _ := g.WaitParked(1); o != quiesce.CondMet {
			g.Release()
			c.Case("remove-during-rename:"+variant+":not-parked", false)
			w.close()
			continue
		}
		fromA := ca.p.NReplies()
		ca.p.Send(wire.Tremove, 91, x)
		// the Tremove gets as far as it can (it waits for the rename)
		quiesce.WaitUntil(func() bool { return ca.p.HasReplyFrom(91, fromA) != nil }, 20*time.Second)
		g.Release()
		det := map[string]any{"scenario": variant}
		if _, ok, o, d := cb.p.WaitTag(90, fromB); !ok {
			hang(c, o, d, "C05:rename-never-answered:remove-during-rename:"+variant, det)
		}
		if _, ok, o, d := ca.p.WaitTag(91, fromA); !ok {
			hang(c, o, d, "C05:remove-never-answered:remove-during-rename:"+variant, det)
		}
		out, dump := ca.p.Close()
		hang(c, out, dump, "C05:Handle-does-not-return:remove-during-rename:"+variant, det)
		if cb != ca {
			out, dump = cb.p.Close()
			hang(c, out, dump, "C05:Handle-does-not-return:remove-during-rename:"+variant, det)
		}
		w.conns[1].p.Close()
		c05Final(c, w.fs, w.srv, "remove-during-rename "+variant, det)
		c.Case("remove-during-rename:"+variant, true)
	}
}

// (9) requests whose backend call SUCCEEDS but tells less than the server
// needs: a Tattach (named or not) or a walk whose GetAttr does not report the
// mode is refused by the server - and the File obtained for it is closed like
// any other.
func c05AttachWithoutMode(c *ev.Ctx) {
	for i, variant := range []string{"attach", "attach-named", "walk", "walkgetattr"} {
		if !c.Mine(i + 6) {
			continue
		}
		hungFlag = false
		c.Begin("C05 success without mode: " + variant)
		fs := concTree()
		srv := p9.NewServer(fs)
		s, vr := newSessOn(srv, 1<<16, v7, nil)
		if !vr.OK {
			c.Inconclusive("attach-without-mode setup")
			s.P.Close()
			continue
		}
		var res rawpeer.Result
		switch variant {
		case "attach":
			fs.SetNoMode(1)
			res = s.attach(0, "")
		case "attach-named":
			fs.SetNoMode(3)
			res = s.attach(0, "a/b")
		default:
			if s.attach(0, "").Errno() != 0 {
				c.Inconclusive("attach-without-mode setup")
				s.P.Close()
				continue
			}
			fs.SetNoMode(2)
			if variant == "walk" {
				res = s.walk(0, 1, "a", "b", "f")
			} else {
				res = s.walkgetattr(0, 1, "a", "b", "f")
			}
		}
		fs.SetNoMode(0)
		det := map[string]any{"scenario": variant, "reply": res.Msg.String()}
		if !res.OK {
			hang(c, res.Out, res.Dump, "C05:request-unanswered:success-without-mode:"+variant, det)
		}
		out, dump := s.P.Close()
		hang(c, out, dump, "C05:Handle-does-not-return:success-without-mode:"+variant, det)
		c05Final(c, fs, srv, "success-without-mode "+variant, det)
		c.Case("success-without-mode:"+variant, true)
	}
}
