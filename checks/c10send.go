package checks

import (
	"encoding/binary"
	"errors"
	"fmt"
	"net"
	"runtime"
	"strings"
	"sync"
	"sync/atomic"

	"github.com/hugelgupf/p9/p9"

	"verif/internal/ev"
	"verif/internal/fakesrv"
	"verif/internal/quiesce"
	"verif/internal/wire"
)

// failAfterConn is a transport whose Write may report an error although the
// peer received every byte (a deadline that expires as the last byte leaves, a
// tunnel that fails on its way back): legal for an io.Writer, and the client
// cannot tell it from a request that never left.
type failAfterConn struct {
	net.Conn
	mu      sync.Mutex
	need    int  // bytes still missing from the frame being written
	armed   bool // the next frame that completes: park, then fail
	parked  chan struct{}
	release chan struct{}
	rd      []string
}

func (f *failAfterConn) Read(b []byte) (int, error) {
	n, err := f.Conn.Read(b)
	f.mu.Lock()
	f.rd = append(f.rd, fmt.Sprintf("%d:%x", n, b[:n]))
	f.mu.Unlock()
	return n, err
}

func (f *failAfterConn) arm() {
	f.mu.Lock()
	f.armed, f.parked, f.release = true, make(chan struct{}), make(chan struct{})
	f.mu.Unlock()
}

func (f *failAfterConn) Write(b []byte) (int, error) {
	n, err := f.Conn.Write(b)
	f.mu.Lock()
	if f.need == 0 && len(b) >= 4 {
		f.need = int(binary.LittleEndian.Uint32(b))
	}
	f.need -= n
	fire := f.armed && f.need <= 0 && err == nil
	if f.need < 0 {
		f.need = 0
	}
	if fire {
		f.armed = false
	}
	parked, release := f.parked, f.release
	f.mu.Unlock()
	if fire {
		close(parked)
		<-release
		return n, errors.New("transport reports a failure (after delivery)")
	}
	return n, err
}

// (7) a send that fails after delivery. Caller B waits for its reply and holds
// the right to receive. Caller A's request reaches the server, but A's Write
// has not returned yet when the server's reply to A starts to arrive: B's
// receiver reads its header (A is registered) and waits for the body. Now A's
// Write returns an error and A withdraws its request. The rest of the reply
// arrives. Nothing may crash, B still gets its own reply, A gets an error, and
// a later call works.
func c10SendFailsAfterDelivery(c *ev.Ctx) {
	for round := 0; round < c.Sz(16, 60); round++ {
		if !c.Mine(round) {
			continue
		}
		c.Begin(fmt.Sprintf("C10 send fails after delivery round %d", round))
		fs := fakesrv.New(nil)
		auto := fakesrv.Auto(0, 7)
		fs.Handler = auto
		fc := &failAfterConn{Conn: fs.C}
		var cl *p9.Client
		var files []p9.File
		var fids []uint64
		var err error
		var root p9.File // stays referenced: a finalizer would send a Tclunk of its own
		ok := ev.Watch(wd, func() {
			cl, err = p9.NewClient(fc, p9.WithMessageSize(1<<16))
			if err != nil {
				return
			}
			if root, err = cl.Attach(""); err != nil {
				return
			}
			for i := 0; i < 3; i++ {
				var f p9.File
				if _, f, err = root.Walk([]string{fmt.Sprintf("f%d", i)}); err != nil {
					return
				}
				files = append(files, f)
				fids = append(fids, lastNewfid(fs))
			}
		})
		if !ok || err != nil {
			c.Inconclusive(fmt.Sprintf("C10 send-fails setup: %v", err))
			fs.Shutdown()
			continue
		}
		cc := &c10Client{fs: fs, cl: cl, root: root, files: files, fids: fids}
		var hmu sync.Mutex
		var restA, replyB []byte
		cut := 8 + round%20 // how much of A's reply arrives before A's Write returns: header + part of the body
		fs.Handler = func(s *fakesrv.Server, rq *fakesrv.Req) {
			if rq.Err == nil && rq.Msg.Type == wire.Tgetattr {
				fid := rq.Msg.F[0].(uint64)
				t, vals := fakesrv.Derived(rq.Msg, 1<<16)
				fr := wire.Encode(t, rq.Msg.Tag, vals...)
				hmu.Lock()
				defer hmu.Unlock()
				switch fid {
				case fids[0]: // B: held back
					replyB = fr
					return
				case fids[1]: // A: the first bytes now, the rest later
					s.SendRaw(fr[:cut])
					restA = fr[cut:]
					return
				}
			}
			auto(s, rq)
		}
		n0 := fs.NReqs()
		resB := make(chan string, 1)
		go func() { resB <- cc.do(0, c10call{kind: 'G'}) }()
		if o, d := fs.WaitReqs(n0 + 1); o != quiesce.CondMet {
			hang(c, o, d, "C10:send-fails:setup", nil)
			fs.Shutdown()
			continue
		}
		// B's Write has returned and B sits in its read before the trap is set
		quiesce.WaitUntil(func() bool { return false }, wd)
		fc.arm()
		resA := make(chan string, 1)
		go func() { resA <- cc.do(1, c10call{kind: 'G'}) }()
		<-fc.parked
		// B's receiver takes in what there is of A's reply
		quiesce.WaitUntil(func() bool { return false }, wd)
		close(fc.release)
		var a string
		if o, d := quiesce.WaitUntil(func() bool { return len(resA) > 0 }, wd); o != quiesce.CondMet {
			hang(c, o, d, "C10:send-fails:call-whose-send-failed-hangs", nil)
			fs.Shutdown()
			continue
		}
		a = <-resA
		hmu.Lock()
		fs.SendRaw(restA)
		fs.SendRaw(replyB)
		hmu.Unlock()
		done := make(chan struct{})
		var b string
		go func() { b = <-resB; close(done) }()
		if o, d := quiesce.Await(done, wd); o != quiesce.CondMet {
			hang(c, o, d, "C10:send-fails:waiting-call-never-returns", map[string]any{"cut": cut})
			fs.Shutdown()
			continue
		}
		det := map[string]any{"cut": cut, "A": a, "B": b}
		fc.mu.Lock()
		if len(fc.rd) > 12 {
			det["reads"] = fc.rd[len(fc.rd)-12:]
		}
		fc.mu.Unlock()
		if !strings.HasPrefix(a, "error:") {
			c.Violation("C10:send-fails:call-succeeds-although-its-send-reported-an-error", det)
		}
		if b != "" && !strings.HasPrefix(b, "error:") {
			c.Violation("C10:send-fails:other-call-affected", det)
		}
		// one more call: it gets its own reply or an error (the transport has
		// reported a failure: the connection may be called broken)
		done2 := make(chan struct{})
		var l string
		go func() { l = cc.do(2, c10call{kind: 'G'}); close(done2) }()
		if o, d := quiesce.Await(done2, wd); o != quiesce.CondMet {
			hang(c, o, d, "C10:send-fails:later-call-hangs", det)
		} else if l != "" && !strings.HasPrefix(l, "error:") {
			det["later"] = l
			c.Violation("C10:send-fails:later-call-affected", det)
		}
		c.Case(fmt.Sprintf("send-fails:%d", cut), true)
		c.Count("send_fails_after_delivery_rounds", 1)
		fs.Shutdown()
		runtime.KeepAlive(cc)
	}
}

// (8) several goroutines on ONE File. Every call differs from the others in
// its arguments (offset, count, mask), so each reply is recognisably the
// caller's own; what a call returned is looked at again once all calls of the
// round are over (a result that lives in an object shared with a later call
// changes after the fact).
func c10SharedFile(c *ev.Ctx) {
	defer runtime.GOMAXPROCS(runtime.GOMAXPROCS(8))
	for round := 0; round < c.Sz(16, 120); round++ {
		if !c.Mine(round) {
			continue
		}
		c.Begin(fmt.Sprintf("C10 shared File round %d", round))
		cc := c10Setup(c, 2, fakesrv.Auto(0, 7))
		if cc == nil {
			continue
		}
		const G, N = 6, 150
		f, fid := cc.files[0], cc.fids[0]
		type kept struct {
			ents []p9.Dirent
			off  uint64
			n    int
			buf  []byte
			roff uint64
		}
		bad := make([]string, G)
		keep := make([][]kept, G)
		var wg sync.WaitGroup
		for g := 0; g < G; g++ {
			wg.Add(1)
			go func(g int) {
				defer wg.Done()
				for i := 0; i < N && bad[g] == ""; i++ {
					off := uint64(g*1000 + i)
					switch (g + i) % 3 {
					case 0:
						n := 200 + 37*g + i%50
						d, err := f.Readdir(off, uint32(n))
						if err != nil {
							bad[g] = "error:" + err.Error()
							break
						}
						if s := direntsDiffer(d, fid, off, n); s != "" {
							bad[g] = s
							break
						}
						keep[g] = append(keep[g], kept{ents: d, off: off, n: n})
					case 1:
						n := 100 + 13*g + i%40
						buf := make([]byte, n)
						m, err := f.ReadAt(buf, int64(off))
						if err != nil || m != n || string(buf) != string(fakesrv.Pattern(fid, off, n)) {
							bad[g] = fmt.Sprintf("ReadAt(off %d, n %d) on the shared File returned foreign or wrong data (n=%d err=%v)", off, n, m, err)
							break
						}
						keep[g] = append(keep[g], kept{buf: buf, roff: off})
					case 2:
						if s := cc.do(0, c10call{kind: 'G', off: off}); s != "" {
							bad[g] = s
						}
					}
				}
			}(g)
		}
		done := make(chan struct{})
		go func() { wg.Wait(); close(done) }()
		if o, d := quiesce.Await(done, 2*wd); o != quiesce.CondMet {
			hang(c, o, d, "C10:shared-file:call-hangs", nil)
			cc.fs.Shutdown()
			continue
		}
		for g := range bad {
			if bad[g] != "" {
				c.Violation("C10:shared-file:call-returns-foreign-or-wrong-data", map[string]any{"goroutine": g, "what": bad[g]})
				break
			}
			for _, k := range keep[g] {
				if k.ents != nil {
					if s := direntsDiffer(k.ents, fid, k.off, k.n); s != "" {
						c.Violation("C10:shared-file:result-changed-after-the-call-returned", map[string]any{"goroutine": g, "what": s})
						bad[g] = s
						break
					}
				} else if string(k.buf) != string(fakesrv.Pattern(fid, k.roff, len(k.buf))) {
					c.Violation("C10:shared-file:result-changed-after-the-call-returned", map[string]any{"goroutine": g, "what": "ReadAt buffer"})
					bad[g] = "x"
					break
				}
			}
			if bad[g] != "" {
				break
			}
		}
		c.Case("shared-file", true)
		c.Count("shared_file_calls", G*N)
		cc.fs.Shutdown()
		runtime.KeepAlive(cc)
	}
}

func direntsDiffer(d []p9.Dirent, fid, off uint64, n int) string {
	_, vals := fakesrv.Derived(wire.Msg{Type: wire.Treaddir, F: []any{fid, off, uint64(n)}}, 1<<16)
	ents, _ := wire.DecodeDirents(vals[0].([]byte))
	if len(d) != len(ents) {
		return fmt.Sprintf("Readdir(off %d, count %d) on the shared File: %d entries, own reply has %d", off, n, len(d), len(ents))
	}
	for k := range d {
		if d[k].Name != ents[k].Name || d[k].QID.Path != ents[k].QID.Path || d[k].Offset != ents[k].Offset {
			return fmt.Sprintf("Readdir(off %d, count %d) on the shared File holds another request's entries", off, n)
		}
	}
	return ""
}

// (7b) the same transport failure, and the reply to the withdrawn request
// arrives LATE: after the next call has been made. The client has called the
// request "not sent"; if it hands the tag to the next call, that call is given
// the withdrawn request's reply - another call's data. Either the next call gets
// its own reply, or it fails.
func c10SendFailsLateReply(c *ev.Ctx) {
	for round := 0; round < c.Sz(16, 60); round++ {
		if !c.Mine(round + 1) {
			continue
		}
		c.Begin(fmt.Sprintf("C10 send fails, late reply meets the next call, round %d", round))
		fs := fakesrv.New(nil)
		auto := fakesrv.Auto(0, 7)
		fs.Handler = auto
		fc := &failAfterConn{Conn: fs.C}
		var cl *p9.Client
		var files []p9.File
		var fids []uint64
		var err error
		var root p9.File
		ok := ev.Watch(wd, func() {
			cl, err = p9.NewClient(fc, p9.WithMessageSize(1<<16))
			if err != nil {
				return
			}
			if root, err = cl.Attach(""); err != nil {
				return
			}
			for i := 0; i < 3; i++ {
				var f p9.File
				if _, f, err = root.Walk([]string{fmt.Sprintf("f%d", i)}); err != nil {
					return
				}
				files = append(files, f)
				fids = append(fids, lastNewfid(fs))
			}
		})
		if !ok || err != nil {
			c.Inconclusive(fmt.Sprintf("C10 send-fails setup: %v", err))
			fs.Shutdown()
			continue
		}
		cc := &c10Client{fs: fs, cl: cl, root: root, files: files, fids: fids}
		var hmu sync.Mutex
		var replyA, replyC []byte
		fs.Handler = func(s *fakesrv.Server, rq *fakesrv.Req) {
			if rq.Err == nil && rq.Msg.Type == wire.Tgetattr {
				fid := rq.Msg.F[0].(uint64)
				t, vals := fakesrv.Derived(rq.Msg, 1<<16)
				fr := wire.Encode(t, rq.Msg.Tag, vals...)
				hmu.Lock()
				defer hmu.Unlock()
				switch fid {
				case fids[1]:
					replyA = fr
					return
				case fids[2]:
					replyC = fr
					return
				}
			}
			auto(s, rq)
		}
		fc.arm()
		resA := make(chan string, 1)
		go func() { resA <- cc.do(1, c10call{kind: 'G'}) }()
		<-fc.parked
		close(fc.release)
		if o, d := quiesce.WaitUntil(func() bool { return len(resA) > 0 }, wd); o != quiesce.CondMet {
			hang(c, o, d, "C10:send-fails:call-whose-send-failed-hangs", nil)
			fs.Shutdown()
			continue
		}
		a := <-resA
		n0 := fs.NReqs()
		resC := make(chan string, 1)
		go func() { resC <- cc.do(2, c10call{kind: 'G', off: uint64(round)}) }()
		// C's request has arrived - or C has failed without sending
		quiesce.WaitUntil(func() bool { return fs.NReqs() > n0 || len(resC) > 0 }, wd)
		hmu.Lock()
		fs.SendRaw(replyA) // late
		if replyC != nil {
			fs.SendRaw(replyC)
		}
		hmu.Unlock()
		if o, d := quiesce.WaitUntil(func() bool { return len(resC) > 0 }, wd); o != quiesce.CondMet {
			hang(c, o, d, "C10:send-fails:next-call-hangs", nil)
			fs.Shutdown()
			continue
		}
		cr := <-resC
		det := map[string]any{"A": a, "C": cr}
		if !strings.HasPrefix(a, "error:") {
			c.Violation("C10:send-fails:call-succeeds-although-its-send-reported-an-error", det)
		}
		if cr != "" && !strings.HasPrefix(cr, "error:") {
			c.Violation("C10:send-fails:next-call-is-handed-the-reply-to-the-withdrawn-request", det)
		}
		c.Case("send-fails-late-reply", true)
		c.Count("send_fails_late_reply_rounds", 1)
		fs.Shutdown()
		runtime.KeepAlive(cc)
	}
}

// breakConn is a transport that can be made to hold every Write and then fail
// it, while the other direction fails too: a connection that breaks with
// callers in both halves of the client.
type breakConn struct {
	net.Conn
	mu    sync.Mutex
	hold  chan struct{} // non-nil: Writes wait for it to be closed, then fail
	nheld int32
}

func (b *breakConn) Write(p []byte) (int, error) {
	b.mu.Lock()
	h := b.hold
	b.mu.Unlock()
	if h != nil {
		atomic.AddInt32(&b.nheld, 1)
		<-h
		return 0, errors.New("injected: connection reset")
	}
	return b.Conn.Write(p)
}

// (9) a connection breaks under load - one caller is receiving, hundreds are
// registered and in or behind the send - and all of them fail, as they must.
// What they leave behind must not leak: the response objects are recycled
// through a process-wide pool, and a SECOND Client, on a healthy connection,
// afterwards makes its calls as if nothing had happened.
func c10BreakUnderLoad(c *ev.Ctx) {
	defer runtime.GOMAXPROCS(runtime.GOMAXPROCS(8))
	for round := 0; round < c.Sz(32, 200); round++ {
		if !c.Mine(round + 2) {
			continue
		}
		c.Begin(fmt.Sprintf("C10 break under load round %d", round))
		fs := fakesrv.New(nil)
		auto := fakesrv.Auto(0, 7)
		fs.Handler = auto
		bc := &breakConn{Conn: fs.C}
		var cl *p9.Client
		var root p9.File
		var files []p9.File
		var fids []uint64
		var err error
		ok := ev.Watch(wd, func() {
			if cl, err = p9.NewClient(bc, p9.WithMessageSize(1<<16)); err != nil {
				return
			}
			if root, err = cl.Attach(""); err != nil {
				return
			}
			for i := 0; i < 2; i++ {
				var f p9.File
				if _, f, err = root.Walk([]string{fmt.Sprintf("f%d", i)}); err != nil {
					return
				}
				files = append(files, f)
				fids = append(fids, lastNewfid(fs))
			}
		})
		if !ok || err != nil {
			c.Inconclusive(fmt.Sprintf("C10 break-under-load setup: %v", err))
			fs.Shutdown()
			continue
		}
		cc := &c10Client{fs: fs, cl: cl, root: root, files: files, fids: fids}
		fs.Handler = func(s *fakesrv.Server, rq *fakesrv.Req) {} // nothing is answered any more
		const N = 600
		var wg sync.WaitGroup
		results := make([]string, N+1)
		wg.Add(1)
		go func() { defer wg.Done(); results[N] = cc.do(0, c10call{kind: 'G'}) }() // the receiver
		n0 := fs.NReqs()
		fs.WaitReqs(n0 + 1)
		bc.mu.Lock()
		bc.hold = make(chan struct{})
		bc.mu.Unlock()
		for g := 0; g < N; g++ {
			wg.Add(1)
			go func(g int) { defer wg.Done(); results[g] = cc.do(1, c10call{kind: 'G', off: uint64(g)}) }(g)
		}
		quiesce.WaitUntil(func() bool { return false }, wd) // all of them registered, one in Write, the rest behind it
		fs.S.Close()                                        // the receiving direction fails ...
		close(bc.hold)                                      // ... and so does every send
		done := make(chan struct{})
		go func() { wg.Wait(); close(done) }()
		if o, d := quiesce.Await(done, 2*wd); o != quiesce.CondMet {
			hang(c, o, d, "C10:break-under-load:call-hangs-on-the-broken-connection", nil)
			fs.Shutdown()
			continue
		}
		for g, s := range results {
			if !strings.HasPrefix(s, "error:") {
				c.Violation("C10:break-under-load:call-does-not-fail-on-the-broken-connection", map[string]any{"call": g, "result": s})
				break
			}
		}
		fs.Shutdown()
		// the second, healthy client
		c2 := c10Setup(c, 3, fakesrv.Auto(0, 7))
		if c2 == nil {
			continue
		}
		bad := make([]string, 3)
		var wg2 sync.WaitGroup
		for g := 0; g < 3; g++ {
			wg2.Add(1)
			go func(g int) {
				defer wg2.Done()
				for i := 0; i < 200 && bad[g] == ""; i++ {
					bad[g] = c2.do(g, c10call{kind: []byte{'G', 'R', 'D'}[i%3], off: uint64(i), n: 100 + i})
				}
			}(g)
		}
		done2 := make(chan struct{})
		go func() { wg2.Wait(); close(done2) }()
		if o, d := quiesce.Await(done2, 2*wd); o != quiesce.CondMet {
			hang(c, o, d, "C10:break-under-load:call-hangs-on-a-healthy-connection-afterwards", nil)
		} else {
			for g, s := range bad {
				if s != "" {
					c.Violation("C10:break-under-load:another-client's-call-affected-afterwards", map[string]any{"goroutine": g, "what": s})
					break
				}
			}
		}
		c.Case("break-under-load", true)
		c.Count("break_under_load_rounds", 1)
		c2.fs.Shutdown()
		runtime.KeepAlive(cc)
		runtime.KeepAlive(c2)
	}
}

// halfConn writes, once armed, only the first bytes of the next Write, waits,
// and reports an error: a send that fails half way through a frame.
type halfWriteConn struct {
	net.Conn
	mu      sync.Mutex
	armed   bool
	parked  chan struct{}
	release chan struct{}
}

func (h *halfWriteConn) arm() {
	h.mu.Lock()
	h.armed, h.parked, h.release = true, make(chan struct{}), make(chan struct{})
	h.mu.Unlock()
}

func (h *halfWriteConn) Write(b []byte) (int, error) {
	h.mu.Lock()
	fire := h.armed
	h.armed = false
	parked, release := h.parked, h.release
	h.mu.Unlock()
	if !fire {
		return h.Conn.Write(b)
	}
	n, _ := h.Conn.Write(b[:len(b)/2])
	close(parked)
	<-release
	return n, errors.New("injected: write failed half way")
}

// (7c) a send fails half way through a frame while other calls are already
// queued behind it (registered, waiting for their turn to send). Whatever they
// would write now lands behind half a frame; the peer takes it for the rest of
// that frame and waits for more. The connection is broken for them too: every
// one of them returns an error - none writes, none waits for a reply that
// cannot come.
func c10SendFailsQueuedCalls(c *ev.Ctx) {
	for round := 0; round < c.Sz(8, 60); round++ {
		if !c.Mine(round + 3) {
			continue
		}
		c.Begin(fmt.Sprintf("C10 send fails, calls queued behind it, round %d", round))
		fs := fakesrv.New(nil)
		fs.Handler = fakesrv.Auto(0, 7)
		hc := &halfWriteConn{Conn: fs.C}
		var cl *p9.Client
		var root p9.File
		var files []p9.File
		var fids []uint64
		var err error
		ok := ev.Watch(wd, func() {
			if cl, err = p9.NewClient(hc, p9.WithMessageSize(1<<16)); err != nil {
				return
			}
			if root, err = cl.Attach(""); err != nil {
				return
			}
			for i := 0; i < 4; i++ {
				var f p9.File
				if _, f, err = root.Walk([]string{fmt.Sprintf("f%d", i)}); err != nil {
					return
				}
				files = append(files, f)
				fids = append(fids, lastNewfid(fs))
			}
		})
		if !ok || err != nil {
			c.Inconclusive(fmt.Sprintf("C10 queued-calls setup: %v", err))
			fs.Shutdown()
			continue
		}
		cc := &c10Client{fs: fs, cl: cl, root: root, files: files, fids: fids}
		hc.arm()
		resA := make(chan string, 1)
		go func() { resA <- cc.do(0, c10call{kind: 'G'}) }()
		<-hc.parked
		nq := 1 + round%3
		resQ := make(chan string, nq)
		for q := 0; q < nq; q++ {
			go func(q int) { resQ <- cc.do(1+q, c10call{kind: 'G', off: uint64(q)}) }(q)
		}
		quiesce.WaitUntil(func() bool { return false }, wd) // they are registered and wait for their turn
		close(hc.release)
		got := []string{}
		if o, d := quiesce.WaitUntil(func() bool { return len(resA) > 0 && len(resQ) == nq }, wd); o != quiesce.CondMet {
			hang(c, o, d, "C10:send-fails:call-queued-behind-the-failed-send-hangs", map[string]any{"queued": nq, "returned": len(resQ)})
			fs.Shutdown()
			continue
		}
		got = append(got, <-resA)
		for q := 0; q < nq; q++ {
			got = append(got, <-resQ)
		}
		for i, s := range got {
			if !strings.HasPrefix(s, "error:") {
				c.Violation("C10:send-fails:call-proceeds-on-the-broken-connection", map[string]any{"call": i, "result": s})
				break
			}
		}
		c.Case(fmt.Sprintf("send-fails-queued:%d", nq), true)
		c.Count("send_fails_queued_rounds", 1)
		fs.Shutdown()
		runtime.KeepAlive(cc)
	}
}

// (7d) the reply to a request arrives at the very moment its caller withdraws
// it (its send has just reported an error although the frame was delivered):
// the receiver has taken the request out of the pending table but not yet
// handed the reply over; the caller finds nothing to withdraw, returns, and its
// response object goes back to the process-wide pool - where the receiver then
// completes it. The next call that draws the object, on ANY Client, must not
// find a completion in it: it would return at once, "successfully", with a
// reply nobody sent. The window is a few instructions wide; the verifPoint
// hook "client:handleOne:before-deliver" holds the receiver in it.
func c10StaleCompletion(c *ev.Ctx) {
	defer runtime.GOMAXPROCS(runtime.GOMAXPROCS(1)) // one P: the pool hands the object to the next caller
	for round := 0; round < c.Sz(3, 20); round++ {
		if !c.Mine(round + 5) {
			continue
		}
		c.Begin(fmt.Sprintf("C10 stale completion round %d", round))
		// client 2 first: healthy, its server answers nothing after the setup
		c2 := c10Setup(c, 1, fakesrv.Auto(0, 7))
		if c2 == nil {
			continue
		}
		c2.fs.Handler = func(s *fakesrv.Server, rq *fakesrv.Req) {}
		fs := fakesrv.New(nil)
		auto := fakesrv.Auto(0, 7)
		fs.Handler = auto
		fc := &failAfterConn{Conn: fs.C}
		var cl *p9.Client
		var root p9.File
		var files []p9.File
		var fids []uint64
		var err error
		ok := ev.Watch(wd, func() {
			if cl, err = p9.NewClient(fc, p9.WithMessageSize(1<<16)); err != nil {
				return
			}
			if root, err = cl.Attach(""); err != nil {
				return
			}
			for i := 0; i < 2; i++ {
				var f p9.File
				if _, f, err = root.Walk([]string{fmt.Sprintf("f%d", i)}); err != nil {
					return
				}
				files = append(files, f)
				fids = append(fids, lastNewfid(fs))
			}
		})
		if !ok || err != nil {
			c.Inconclusive(fmt.Sprintf("C10 stale-completion setup: %v", err))
			fs.Shutdown()
			c2.fs.Shutdown()
			continue
		}
		cc := &c10Client{fs: fs, cl: cl, root: root, files: files, fids: fids}
		fs.Handler = func(s *fakesrv.Server, rq *fakesrv.Req) {
			if rq.Err == nil && rq.Msg.Type == wire.Tgetattr && rq.Msg.F[0].(uint64) == fids[0] {
				return // B: held back
			}
			auto(s, rq)
		}
		atPoint, resume := make(chan struct{}), make(chan struct{})
		var once sync.Once
		p9.VerifSetPoint(func(name string) {
			if name == "client:handleOne:before-deliver" {
				once.Do(func() { close(atPoint); <-resume })
			}
		})
		resB := make(chan string, 1)
		n0 := fs.NReqs()
		go func() { resB <- cc.do(0, c10call{kind: 'G'}) }()
		fs.WaitReqs(n0 + 1)
		quiesce.WaitUntil(func() bool { return false }, wd)
		fc.arm()
		resA := make(chan string, 1)
		go func() { resA <- cc.do(1, c10call{kind: 'G'}) }()
		<-fc.parked
		reached := false
		if o, _ := quiesce.Await(atPoint, wd); o == quiesce.CondMet {
			reached = true
		}
		close(fc.release) // A's Write reports its error; A withdraws and returns
		quiesce.WaitUntil(func() bool { return len(resA) > 0 }, wd)
		if reached {
			close(resume) // the receiver completes what it had taken out
		}
		p9.VerifSetPoint(nil)
		quiesce.WaitUntil(func() bool { return false }, wd)
		// the next call in the process: client 2, whose server stays silent
		res2 := make(chan string, 1)
		go func() { res2 <- c2.do(0, c10call{kind: 'G'}) }()
		quiesce.WaitUntil(func() bool { return len(res2) > 0 }, wd)
		if len(res2) > 0 {
			if s := <-res2; !strings.HasPrefix(s, "error:") {
				c.Violation("C10:stale-completion:call-returns-although-its-server-never-replied", map[string]any{"result": s, "hook_reached": reached})
			}
		}
		c.Case("stale-completion", reached)
		c.Count("stale_completion_rounds", 1)
		fs.Shutdown()
		c2.fs.Shutdown()
		runtime.KeepAlive(cc)
		runtime.KeepAlive(c2)
	}
}

// (10) the whole tag space, by history: every call that fails its wait on a
// still usable connection retires its tag (the server may yet answer it). After
// 65534 such failures there is no tag left: further calls fail - they do not go
// out under NOTAG, under a tag that is retired, or under one that is in flight.
func c10TagSpace(c *ev.Ctx) {
	if !c.Mine(7) {
		return
	}
	c.Begin("C10 tag space used up by retired tags")
	cc := c10Setup(c, 1, nil)
	if cc == nil {
		return
	}
	auto := fakesrv.Auto(0, 7)
	cc.fs.Handler = func(s *fakesrv.Server, rq *fakesrv.Req) {
		if rq.Err == nil && rq.Msg.Type == wire.Tgetattr {
			s.Reply(wire.Rreadlink, rq.Msg.Tag, "not what was asked") // a reply the client cannot accept; the connection stays usable
			return
		}
		auto(s, rq)
	}
	const total = 65534 + 40
	done := make(chan struct{})
	oks, sent0 := 0, cc.fs.NReqs()
	var tail []string
	go func() {
		defer close(done)
		for i := 0; i < total; i++ {
			s := cc.do(0, c10call{kind: 'G'})
			if !strings.HasPrefix(s, "error:") {
				oks++
			}
			if i >= total-3 {
				tail = append(tail, s)
			}
		}
	}()
	if o, d := quiesce.Await(done, 8*wd); o != quiesce.CondMet {
		hang(c, o, d, "C10:tag-space:call-hangs", nil)
		cc.fs.Shutdown()
		return
	}
	sent := cc.fs.NReqs() - sent0
	det := map[string]any{"calls": total, "requests_seen_by_the_server": sent, "last_results": tail}
	seen := map[string]bool{}
	for _, m := range cc.fs.Monitor() {
		if w := firstWord(m); strings.HasPrefix(w, "tag:") && !seen[w] {
			seen[w] = true
			c.Violation("C10:tag-space:"+w, map[string]any{"monitor": m, "calls": total})
		}
	}
	if oks > 0 {
		c.Violation("C10:tag-space:call-succeeds-on-a-reply-of-the-wrong-type", det)
	}
	if sent > 65534 {
		c.Violation("C10:tag-space:more-requests-sent-than-there-are-tags-to-retire", det)
	}
	c.Case("tag-space", sent >= 65000)
	c.Count("tag_space_calls", int64(total))
	cc.fs.Shutdown()
	runtime.KeepAlive(cc)
}
