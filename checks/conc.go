package checks

import (
	"fmt"
	"strings"
	"time"

	"github.com/hugelgupf/p9/linux"
	"github.com/hugelgupf/p9/p9"

	"verif/internal/ev"
	"verif/internal/memfs"
	"verif/internal/quiesce"
	"verif/internal/rawpeer"
	"verif/internal/wire"
)

// ---- shared engine for C06 / C07 / C14: rendezvous inside the backend ----

// cop is one backend-reaching operation.
type cop struct {
	name   string
	class  memfs.Class // class of the call it parks in
	method string      // backend method it parks in
	kind   byte        // target kind: 'd' dir, 'f' file, 'l' symlink, '*' any
	state  byte        // fid state needed: 'u' unopened, 'o' opened (RW for files, RO for dirs), '*' either
	global bool        // handler takes the server-wide lock (rename family, Tremove)
	// send issues the request on peer p for target fid; aux is a second fid
	// (a directory elsewhere) for rename/link; child is the name of an existing
	// child of the target directory.
	send func(p *rawpeer.Peer, tag uint16, fid, aux uint64, child string)
}

func concOps() []cop {
	return []cop{
		{"getattr", memfs.ClassRead, "GetAttr", '*', '*', false, func(p *rawpeer.Peer, tag uint16, fid, aux uint64, ch string) {
			p.Send(wire.Tgetattr, tag, fid, u(0x3fff))
		}},
		{"walk", memfs.ClassRead, "Walk", 'd', 'u', false, func(p *rawpeer.Peer, tag uint16, fid, aux uint64, ch string) {
			p.Send(wire.Twalk, tag, fid, u(900+uint64(tag)), []string{ch})
		}},
		// a two-component walk parked in its SECOND step: the call is made on
		// the File of the intermediate directory (child of the target)
		{"walk2", memfs.ClassRead, "Walk", 'd', 'u', false, func(p *rawpeer.Peer, tag uint16, fid, aux uint64, ch string) {
			p.Send(wire.Twalk, tag, fid, u(900+uint64(tag)), []string{"b", "f"})
		}},
		// a one-name walk parked in the GetAttr the server makes on the file it
		// just walked to (the backend has no WalkGetAttr here): a read-class call
		// on the CHILD's path, before the new fid is registered anywhere
		{"walk-ga", memfs.ClassRead, "GetAttr", 'd', 'u', false, func(p *rawpeer.Peer, tag uint16, fid, aux uint64, ch string) {
			p.Send(wire.Twalk, tag, fid, u(900+uint64(tag)), []string{ch})
		}},
		{"clone", memfs.ClassRead, "Walk", '*', 'u', false, func(p *rawpeer.Peer, tag uint16, fid, aux uint64, ch string) {
			p.Send(wire.Twalk, tag, fid, u(900+uint64(tag)), []string{})
		}},
		{"open", memfs.ClassRead, "Open", '*', 'u', false, func(p *rawpeer.Peer, tag uint16, fid, aux uint64, ch string) {
			p.Send(wire.Tlopen, tag, fid, u(0))
		}},
		{"read", memfs.ClassRead, "ReadAt", 'f', 'o', false, func(p *rawpeer.Peer, tag uint16, fid, aux uint64, ch string) {
			p.Send(wire.Tread, tag, fid, u(0), u(4))
		}},
		{"write", memfs.ClassRead, "WriteAt", 'f', 'o', false, func(p *rawpeer.Peer, tag uint16, fid, aux uint64, ch string) {
			p.Send(wire.Twrite, tag, fid, u(0), []byte("zz"))
		}},
		{"readdir", memfs.ClassRead, "Readdir", 'd', 'o', false, func(p *rawpeer.Peer, tag uint16, fid, aux uint64, ch string) {
			p.Send(wire.Treaddir, tag, fid, u(0), u(4096))
		}},
		{"fsync", memfs.ClassRead, "FSync", 'f', 'o', false, func(p *rawpeer.Peer, tag uint16, fid, aux uint64, ch string) {
			p.Send(wire.Tfsync, tag, fid)
		}},
		{"readlink", memfs.ClassRead, "Readlink", 'l', 'u', false, func(p *rawpeer.Peer, tag uint16, fid, aux uint64, ch string) {
			p.Send(wire.Treadlink, tag, fid)
		}},
		{"setattr", memfs.ClassWrite, "SetAttr", '*', '*', false, func(p *rawpeer.Peer, tag uint16, fid, aux uint64, ch string) {
			p.Send(wire.Tsetattr, tag, fid, u(1), u(0600), u(0), u(0), u(0), u(0), u(0), u(0), u(0))
		}},
		// the same with a timestamps-only mask (utimensat, touch): a SetAttr is
		// a write-class call whatever it sets
		{"setattr-times", memfs.ClassWrite, "SetAttr", '*', '*', false, func(p *rawpeer.Peer, tag uint16, fid, aux uint64, ch string) {
			p.Send(wire.Tsetattr, tag, fid, u(0x30), u(0), u(0), u(0), u(0), u(7), u(0), u(9), u(0))
		}},
		{"create", memfs.ClassWrite, "Create", 'd', 'u', false, func(p *rawpeer.Peer, tag uint16, fid, aux uint64, ch string) {
			p.Send(wire.Tlcreate, tag, fid, fmt.Sprintf("new%d", tag), u(2), u(0644), u(0))
		}},
		{"mkdir", memfs.ClassWrite, "Mkdir", 'd', 'u', false, func(p *rawpeer.Peer, tag uint16, fid, aux uint64, ch string) {
			p.Send(wire.Tmkdir, tag, fid, fmt.Sprintf("nd%d", tag), u(0755), u(0))
		}},
		{"symlink", memfs.ClassWrite, "Symlink", 'd', 'u', false, func(p *rawpeer.Peer, tag uint16, fid, aux uint64, ch string) {
			p.Send(wire.Tsymlink, tag, fid, fmt.Sprintf("ns%d", tag), "tgt", u(0))
		}},
		{"mknod", memfs.ClassWrite, "Mknod", 'd', 'u', false, func(p *rawpeer.Peer, tag uint16, fid, aux uint64, ch string) {
			p.Send(wire.Tmknod, tag, fid, fmt.Sprintf("nn%d", tag), u(0010644), u(0), u(0), u(0))
		}},
		{"link", memfs.ClassWrite, "Link", 'd', 'u', false, func(p *rawpeer.Peer, tag uint16, fid, aux uint64, ch string) {
			p.Send(wire.Tlink, tag, fid, u(800), fmt.Sprintf("nl%d", tag)) // fid 800: an unrelated file
		}},
		{"unlinkat", memfs.ClassWrite, "UnlinkAt", 'd', 'u', false, func(p *rawpeer.Peer, tag uint16, fid, aux uint64, ch string) {
			p.Send(wire.Tunlinkat, tag, fid, ch, u(0))
		}},
		{"renameat", memfs.ClassGlob, "RenameAt", 'd', 'u', true, func(p *rawpeer.Peer, tag uint16, fid, aux uint64, ch string) {
			p.Send(wire.Trenameat, tag, fid, ch, aux, fmt.Sprintf("mv%d", tag))
		}},
		{"rename", memfs.ClassGlob, "RenameAt", 'f', '*', true, func(p *rawpeer.Peer, tag uint16, fid, aux uint64, ch string) {
			p.Send(wire.Trename, tag, fid, aux, fmt.Sprintf("rn%d", tag))
		}},
		{"remove", memfs.ClassWrite, "UnlinkAt", 'f', '*', false, func(p *rawpeer.Peer, tag uint16, fid, aux uint64, ch string) {
			p.Send(wire.Tremove, tag, fid)
		}},
		{"statfs", memfs.ClassNone, "StatFS", '*', '*', false, func(p *rawpeer.Peer, tag uint16, fid, aux uint64, ch string) {
			p.Send(wire.Tstatfs, tag, fid)
		}},
		{"lock", memfs.ClassNone, "Lock", '*', '*', false, func(p *rawpeer.Peer, tag uint16, fid, aux uint64, ch string) {
			p.Send(wire.Tlock, tag, fid, u(1), u(0), u(0), u(10), u(7), "client")
		}},
		{"xattrwalk", memfs.ClassNone, "GetXattr", '*', '*', false, func(p *rawpeer.Peer, tag uint16, fid, aux uint64, ch string) {
			p.Send(wire.Txattrwalk, tag, fid, u(900+uint64(tag)), "user.x")
		}},
		{"clunk", memfs.ClassNone, "Close", '*', '*', false, func(p *rawpeer.Peer, tag uint16, fid, aux uint64, ch string) {
			p.Send(wire.Tclunk, tag, fid)
		}},
		// a walk onto an occupied fid number: the File of the replaced binding is
		// closed on the request's behalf (it parks in that Close)
		{"walk-replace", memfs.ClassNone, "Close", '*', 'u', false, func(p *rawpeer.Peer, tag uint16, fid, aux uint64, ch string) {
			p.Send(wire.Twalk, tag, u(0), fid, []string{"f"})
		}},
	}
}

// concTree: /a{b{f},g,h,k} /d{x} /f /l->a /u{v}
func concTree() *memfs.FS {
	fs := memfs.New()
	fs.MkPath("/a/b/f", p9.ModeRegular|0644, "abf")
	for _, n := range []string{"/a/g", "/a/h", "/a/k", "/d/x", "/f", "/u/v"} {
		x := fs.MkPath(n, p9.ModeRegular|0644, "data "+n)
		x.Xattr = map[string][]byte{"user.x": []byte("v")}
	}
	for _, n := range []string{"/a", "/d", "/u", "/a/b"} {
		fs.Lookup(n).Xattr = map[string][]byte{"user.x": []byte("v")}
	}
	fs.MkPath("/a/l", p9.ModeSymlink|0777, "g")
	fs.MkPath("/l", p9.ModeSymlink|0777, "a")
	fs.NoWalkGetAttr = true // the server uses Walk + GetAttr: both visible
	return fs
}

type concConn struct {
	p    *rawpeer.Peer
	s    *sess
	next uint64
}

// fidAt binds a fresh fid to path (and opens it if state == 'o').
func (cc *concConn) fidAt(path string, state byte, dir bool) (uint64, bool) {
	cc.next++
	fid := cc.next
	parts := strings.Split(strings.Trim(path, "/"), "/")
	if strings.Trim(path, "/") == "" {
		parts = nil
	}
	if cc.s.walk(0, fid, parts...).Errno() != 0 {
		return 0, false
	}
	if state == 'o' {
		fl := uint64(2)
		if dir {
			fl = 0
		}
		if cc.s.open(fid, fl).Errno() != 0 {
			return 0, false
		}
	}
	return fid, true
}

type concWorld struct {
	fs    *memfs.FS
	srv   *p9.Server
	conns []*concConn
}

func newConcWorld(nconn int) (*concWorld, bool) {
	w := &concWorld{fs: concTree()}
	w.srv = p9.NewServer(w.fs)
	for i := 0; i < nconn; i++ {
		// pipes only: these worlds decide "blocked inside p9" thousands of times,
		// and a picture with goroutines parked on the kernel takes a dozen
		// polling rounds longer to call (package quiesce); the transports are
		// not what the matrix is about
		s, vr := newSessOn(w.srv, 1<<16, v7, nil)
		if !vr.OK || s.attach(0, "").Errno() != 0 {
			return w, false
		}
		cc := &concConn{p: s.P, s: s, next: 10}
		// fid 800: an unrelated file for Tlink; fid 801: an unrelated directory for renames
		if s.walk(0, 800, "u", "v").Errno() != 0 || s.walk(0, 801, "u").Errno() != 0 {
			return w, false
		}
		w.conns = append(w.conns, cc)
	}
	return w, true
}

func (w *concWorld) close() {
	for _, c := range w.conns {
		c.p.Close()
	}
}

// target describes where an operation acts.
type ctarget struct {
	path  string
	dir   bool
	link  bool
	child string // an existing child (files only) for walk/unlinkat/renameat
}

var (
	tgtD  = ctarget{"/a", true, false, "g"}
	tgtF  = ctarget{"/a/g", false, false, ""}
	tgtH  = ctarget{"/a/h", false, false, ""}
	tgtUD = ctarget{"/d", true, false, "x"}
	tgtUF = ctarget{"/d/x", false, false, ""}
	tgtL  = ctarget{"/a/l", false, true, ""}
	tgtR  = ctarget{"/", true, false, "f"}
	tgtDB = ctarget{"/a/b", true, false, "f"} // the directory child of tgtD
)

func (o cop) fits(t ctarget) bool {
	if o.name == "walk2" && t.path != "/a" && !strings.HasSuffix(t.path, "/mv-a") {
		return false // needs the subtree b/f below its target
	}
	switch o.kind {
	case 'd':
		return t.dir
	case 'f':
		return !t.dir && !t.link
	case 'l':
		return t.link
	}
	return !t.link || o.name == "getattr" || o.name == "statfs" || o.name == "clone" || o.name == "setattr" || o.name == "setattr-times"
}

func (o cop) stateFor(t ctarget) byte {
	if o.state == '*' {
		return 'u'
	}
	return o.state
}

type rvOutcome struct {
	parkedA   bool
	bOutcome  string // "entered" | "answered" | "blocked" | "inconclusive"
	bDump     []quiesce.G
	overlaps  []memfs.Overlap
	lifecycle []string
	aReply    rawpeer.Result
	bReply    rawpeer.Result
	aCall     *memfs.Call
	bCalls    []*memfs.Call
	ta, tb    ctarget // the targets as they were when A and B ran (after the history)
}

// rendezvous parks A inside the backend, issues B, observes B, releases A.
func rendezvous(c *ev.Ctx, w *concWorld, a cop, ta ctarget, b cop, tb ctarget, rel string) (out rvOutcome, ok bool) {
	return rendezvousAfter(c, w, a, ta, b, tb, rel, "")
}

// movedTargets rewrites (ta, tb) for the history "A's entry was renamed into
// the directory /u as newName after A's fid had been bound".
func movedTargets(ta, tb ctarget, newName string) (ctarget, ctarget) {
	np := "/u/" + newName
	old := ta.path
	nta := ta
	nta.path = np
	ntb := tb
	switch {
	case tb.path == old:
		ntb.path = np
	case strings.HasPrefix(tb.path, old+"/"):
		ntb.path = np + tb.path[len(old):]
	case tb.dir && tb.path == parentOf(old):
		// B acts on the parent: the parent is /u now, the child has the new name
		ntb = ctarget{"/u", true, false, newName}
	case !tb.dir && parentOf(tb.path) == parentOf(old):
		// a sibling: /u/v is the moved entry's sibling now
		ntb = ctarget{"/u/v", false, false, ""}
	}
	return nta, ntb
}

// rendezvousAfter is rendezvous with a history behind A's fid: "" (none),
// "moved" (A's fid - and B's, for the same-fid relation - was bound before its
// entry was renamed into another directory; B's fid is bound afterwards, by
// a walk along the new path), "moved-both" (both fids bound before the move).
func rendezvousAfter(c *ev.Ctx, w *concWorld, a cop, ta ctarget, b cop, tb ctarget, rel, hist string) (out rvOutcome, ok bool) {
	ca := w.conns[0]
	cb := ca
	if rel == "other-conn" {
		cb = w.conns[1]
	}
	fa, ok1 := ca.fidAt(ta.path, a.stateFor(ta), ta.dir)
	var fb uint64
	ok2 := true
	bindB := func() {
		if rel == "same-fid" {
			fb = fa
		} else {
			fb, ok2 = cb.fidAt(tb.path, b.stateFor(tb), tb.dir)
		}
	}
	if hist != "moved" && hist != "self-rename" {
		bindB()
	}
	if hist == "self-rename" && ok1 {
		// an earlier Trenameat of A's entry onto itself, made through two
		// different fids of its directory: nothing moved, A's fid and the fid B
		// binds afterwards must still meet on one path node
		if ta.path == "/" {
			return out, false
		}
		pf1, okp := ca.fidAt(parentOf(ta.path), 'u', true)
		pf2, okq := ca.fidAt(parentOf(ta.path), 'u', true)
		if !okp || !okq {
			return out, false
		}
		rr := ca.s.renameat(pf1, baseOf(ta.path), pf2, baseOf(ta.path))
		if !rr.OK {
			hang(c, rr.Out, rr.Dump, "C06:request-never-answered:self-Trenameat", nil)
			return out, false
		}
		if rr.Errno() != 0 {
			return out, false
		}
		ca.s.clunk(pf1)
		ca.s.clunk(pf2)
		bindB()
	} else if hist == "refused-unlink" && ok1 && ok2 {
		// an earlier Tunlinkat of A's entry that the backend refused: nothing
		// changed, nothing may stay locked or fenced
		if ta.path == "/" {
			return out, false
		}
		pf, okp := ca.fidAt(parentOf(ta.path), 'u', true)
		if !okp {
			return out, false
		}
		w.fs.FaultAt(1, "UnlinkAt", linux.EPERM)
		ur := ca.s.unlinkat(pf, baseOf(ta.path))
		w.fs.ClearFaults()
		if !ur.OK {
			hang(c, ur.Out, ur.Dump, "C06:request-never-answered:refused-Tunlinkat", nil)
			return out, false
		}
		if ur.Errno() != EPERM {
			return out, false
		}
		ca.s.clunk(pf)
	} else if hist != "" && hist != "rebind" && ok1 && ok2 {
		if ta.path == "/" {
			return out, false
		}
		pf, okp := ca.fidAt(parentOf(ta.path), 'u', true)
		newName := "mv-" + baseOf(ta.path)
		if !okp || ca.s.renameat(pf, baseOf(ta.path), 801, newName).Errno() != 0 {
			return out, false
		}
		ca.s.clunk(pf)
		ta, tb = movedTargets(ta, tb, newName)
	}
	if hist == "moved" {
		bindB()
	}
	if !ok1 || !ok2 {
		return out, false
	}
	out.ta, out.tb = ta, tb
	w.fs.Overlaps()
	gate := w.fs.Hold(memfs.Match{Method: a.method, Fn: func(cl *memfs.Call) bool {
		switch a.name {
		case "rename", "remove":
			return true // acts on the parent directory
		case "clone":
			return cl.Args == "" && cl.Path == ta.path
		case "walk":
			return cl.Args != "" && cl.Path == ta.path
		case "walk2":
			return cl.Args != "" && cl.Path == ta.path+"/b"
		case "walk-ga":
			return cl.Path == strings.TrimSuffix(ta.path, "/")+"/"+ta.child
		}
		return cl.Path == ta.path
	}}, 1)
	defer gate.Release()
	tagA, tagB := uint16(500), uint16(501)
	fromA := ca.p.NReplies()
	a.send(ca.p, tagA, fa, 801, ta.child)
	po, _ := gate.WaitParked(1)
	if po != quiesce.CondMet {
		// A never reached the backend (rejected): not a rendezvous - but it
		// must have been answered
		gate.Release()
		if _, okA, oa, da := ca.p.WaitTag(tagA, fromA); !okA {
			hang(c, oa, da, "C06:request-never-answered:"+a.name, map[string]any{"A": a.name + "@" + ta.path, "history": hist})
		}
		return out, false
	}
	out.parkedA = true
	out.aCall = gate.Parked()[0]
	if hist == "rebind" && rel != "same-fid" {
		// while A is parked, B's fid - the only fid on its path - is clunked
		// and a fresh one is bound by a new walk: the path is the same, the
		// lock that orders B against A must be too
		cb.s.clunk(fb)
		nfb, okb := cb.fidAt(tb.path, b.stateFor(tb), tb.dir)
		if !okb {
			gate.Release()
			ca.p.WaitTag(tagA, fromA)
			return out, false
		}
		fb = nfb
	}
	callsBefore := w.fs.TotalCalls()
	fromB := cb.p.NReplies()
	b.send(cb.p, tagB, fb, 801, tb.child)
	st, dump := quiesce.WaitUntil(func() bool {
		if r := cb.p.HasReplyFrom(tagB, fromB); r != nil {
			return true
		}
		return w.fs.TotalCalls() > callsBefore
	}, 60*time.Second)
	switch st {
	case quiesce.CondMet:
		if w.fs.TotalCalls() > callsBefore {
			out.bOutcome = "entered"
		} else {
			out.bOutcome = "answered"
		}
	case quiesce.Stuck:
		out.bOutcome = "blocked"
		out.bDump = dump
	default:
		out.bOutcome = "inconclusive"
	}
	if out.bOutcome == "entered" {
		// let B run as far as it can while A is still parked (it may finish,
		// or block on a later lock): wait for its reply or for quiet
		quiesce.WaitUntil(func() bool { return cb.p.HasReplyFrom(tagB, fromB) != nil }, 60*time.Second)
	}
	gate.Release()
	ra, okA, oa, da := ca.p.WaitTag(tagA, fromA)
	rb, okB, ob, db := cb.p.WaitTag(tagB, fromB)
	if !okA {
		hang(c, oa, da, "C06:request-never-answered-after-release:"+a.name, map[string]any{"A": a.name, "B": b.name, "relation": rel})
	} else {
		out.aReply = rawpeer.Result{Msg: ra.Msg, OK: true}
	}
	if !okB {
		hang(c, ob, db, "C06:request-never-answered-after-release:"+b.name, map[string]any{"A": a.name, "B": b.name, "relation": rel})
	} else {
		out.bReply = rawpeer.Result{Msg: rb.Msg, OK: true}
	}
	out.overlaps = w.fs.Overlaps()
	for _, v := range w.fs.LifecycleViolations(false) {
		out.lifecycle = append(out.lifecycle, v)
	}
	return out, okA && okB
}
