package checks

import (
	"bytes"
	"encoding/binary"
	"encoding/hex"
	"fmt"
	"io"
	"runtime"
	"time"

	"github.com/hugelgupf/p9/p9"

	"verif/internal/ev"
	"verif/internal/fakesrv"
	"verif/internal/quiesce"
	"verif/internal/rawpeer"
	"verif/internal/wire"
)

func init() {
	ev.Register(&ev.Spec{
		ID: "C02", Level: "exploration",
		Rule:    "lock-step raw peer feeding a real server sequences that mix good frames with every class of bad frame: unknown type bytes, bodies truncated at every offset (size field adjusted: well-delimited but short), inflated list/string/payload counts, bit flips, R-types sent to the server, PRNG bodies, size fields 0/6/7/msize-1/msize/msize+1/4MiB/4MiB+1/2^31/2^32-1 before and after negotiation; after each frame an alignment probe must be answered correctly. The reference codec referees each frame (valid / well-delimited invalid / bad size). Allocation is measured (TotalAlloc delta) around bad-size and inflated-count frames. Client as receiver: the same byte classes as replies to a pending call; and a bad-size matrix (WithMessageSize option and announced msize from 64 KiB to 2^32-1, size fields 0/6/limit+1/4MiB+1/5MiB/announced/2^31/2^32-1 where limit = min(option, announced, 4 MiB)): the pending call fails, no body byte is taken, nothing of that size is allocated; then one more call is made: it fails too and takes none of the refused frame's body (fed byte by byte). Server bad-size configurations include a refused Tversion with a larger / smaller msize after the negotiation (it changes nothing). Non-trivial: the frame reaches decode or a rejection branch other than 'header short'; distinct by (type byte, class, outcome).",
		Assume:  []string{"reference codec decides validity", "net.Pipe write counts are the bytes the server consumed", "TotalAlloc delta in a process that runs one scenario at a time is a proxy for buffering (slack 16 MiB + msize: a 2-byte count may legitimately demand a 65535-element list, ~5.5 MB with slice growth)"},
		Shards:  shards(8, 16),
		Timeout: timeout(6*time.Minute, 45*time.Minute),
		Run:     runC02,
	})
}

type c02frame struct {
	raw   []byte
	class string
}

func hdr(size uint32, t uint8, tag uint16) []byte {
	b := make([]byte, 7)
	binary.LittleEndian.PutUint32(b, size)
	b[4] = t
	binary.LittleEndian.PutUint16(b[5:], tag)
	return b
}

// c02Frames generates bad and borderline frames from valid ones.
func c02Frames(r *ev.Rand, n int, msize uint32) []c02frame {
	var out []c02frame
	g := &wire.Gen{R: r, Budget: 300, Small: true}
	add := func(raw []byte, class string) { out = append(out, c02frame{raw, class}) }
	var ttypes []uint8
	for _, l := range wire.Layouts {
		ttypes = append(ttypes, l.Type)
	}
	unknown := []uint8{0, 1, 6, 10, 11, 28, 29, 54, 55, 106, 107, 112, 124, 125, 136, 200, 255}
	for i := 0; i < n; i++ {
		tag := uint16(1000 + r.Intn(20000))
		t := ev.Pick(r, ttypes)
		if t == wire.Tversion && r.Intn(4) != 0 {
			t = wire.Twalk
		}
		vals := g.Vals(t)
		if t == wire.Tversion { // keep msize stable so later expectations hold
			vals[0] = uint64(msize)
		}
		if t == wire.Tflush && uint16(vals[0].(uint64)) == tag {
			vals[0] = uint64(tag + 1)
		}
		body, _ := wire.EncodeBody(t, vals)
		switch r.Intn(10) {
		case 0: // unknown type byte with this body
			add(wire.Frame(ev.Pick(r, unknown), tag, body), "unknown-type")
		case 1: // truncated body, size adjusted (well-delimited, too short)
			if len(body) > 0 {
				k := r.Intn(len(body))
				add(wire.Frame(t, tag, body[:k]), "short-body")
			}
		case 2: // bit flip
			if len(body) > 0 {
				b := append([]byte(nil), body...)
				b[r.Intn(len(b))] ^= 1 << uint(r.Intn(8))
				add(wire.Frame(t, tag, b), "bit-flip")
			}
		case 3: // inflate a 16-bit count / length somewhere
			if len(body) >= 2 {
				b := append([]byte(nil), body...)
				k := r.Intn(len(b) - 1)
				binary.LittleEndian.PutUint16(b[k:], uint16(0xFFFF-r.Intn(4)))
				add(wire.Frame(t, tag, b), "inflated-count")
			}
		case 4: // random body
			add(wire.Frame(t, tag, r.Bytes(r.Intn(80))), "random-body")
		case 5: // trailing garbage
			add(wire.Frame(t, tag, append(append([]byte(nil), body...), r.Bytes(1+r.Intn(20))...)), "trailing-bytes")
		case 6: // valid as is
			add(wire.Frame(t, tag, body), "valid")
		case 7: // payload count mismatch
			pt := ev.Pick(r, []uint8{wire.Twrite, wire.Rread, wire.Rreaddir})
			pv := g.Vals(pt)
			pb, _ := wire.EncodeBody(pt, pv)
			off := len(pb) - len(pv[len(pv)-1].([]byte)) - 4
			binary.LittleEndian.PutUint32(pb[off:], uint32(r.U64()>>uint(32+r.Intn(31))))
			add(wire.Frame(pt, tag, pb), "payload-count-mismatch")
		case 8: // empty body for a type that needs one
			add(wire.Frame(t, tag, nil), "empty-body")
		case 9: // fully random frame with a consistent size field
			b := r.Bytes(r.Intn(60))
			add(wire.Frame(uint8(r.Intn(256)), tag, b), "random-frame")
		}
	}
	// every truncation offset of a few fixed frames
	for _, t := range []uint8{wire.Twalk, wire.Tattach, wire.Tsetattr, wire.Tlock, wire.Twrite, wire.Trenameat, wire.Tversion, wire.Tucreate} {
		vals := (&wire.Gen{R: r, Budget: 120, Small: true}).Vals(t)
		if t == wire.Tversion {
			vals[0] = uint64(msize)
		}
		body, _ := wire.EncodeBody(t, vals)
		for k := 0; k < len(body); k++ {
			add(wire.Frame(t, uint16(30000+k), body[:k]), "short-body")
		}
	}
	return out
}

// referee classifies a well-delimited frame with the reference codec.
func referee(raw []byte) (class string, m wire.Msg) {
	_, t, _ := wire.Header(raw)
	if wire.LayoutOf(t) == nil {
		return "unknown-type", wire.Msg{}
	}
	m, trailing, err := wire.Decode(raw)
	switch {
	case err != nil:
		return "invalid", m
	case trailing > 0:
		return "valid-with-trailing", m
	case !wire.IsT(t):
		return "valid-R-type", m
	}
	return "valid-T", m
}

func c02Server() (*p9.Server, func() int) {
	fs := fixture()
	return p9.NewServer(fs), fs.NCalls
}

func runC02(c *ev.Ctx) {
	c02Sequences(c)
	c02BadSizes(c)
	c02FirstAfterVersion(c)
	c02Client(c)
	c02ClientBadSizes(c)
	c02ClientAnnouncedSizes(c)
}

// c02FirstAfterVersion: the very first frame after Rversion must already obey
// the announced msize. The receiver that reads it was usually parked in its
// read *while* Tversion was being handled, so this is schedule-dependent
// (observed on 0.5 % of connections before the fix): many short connections.
func c02FirstAfterVersion(c *ev.Ctx) {
	n := c.Sz(8000, 200000)
	srv := p9.NewServer(noAttach{})
	for i := 0; i < n; i++ {
		if !c.Mine(i) {
			continue
		}
		ms := []uint32{4096, 8192, 65536}[i%3]
		sz := ms + 1 + uint32(i%900)
		p := rawpeer.New(srv, nil)
		if !p.Version(ms, v7).OK {
			c.Inconclusive("C02 first-after-version: version")
			p.Close()
			continue
		}
		if i%4 == 0 {
			runtime.Gosched()
		}
		p.Flush()
		w0 := p.Written()
		nrep := p.NReplies()
		p.SendRaw(hdr(sz, 255, 9))
		p.SendRaw(make([]byte, sz-7))
		out, dump := quiesce.Await(p.HandleDone, wd)
		c.Case(fmt.Sprintf("first-after-version:%d:%d", ms, i%8), true)
		if out != quiesce.CondMet {
			p.Flush()
			det := map[string]any{"announced_msize": ms, "size_field": sz, "body_bytes_accepted": p.Written() - w0 - 7, "replies": p.NReplies() - nrep}
			if out == quiesce.Stuck {
				c.Violation("C02:srv:first-frame-after-Rversion-not-held-to-the-announced-msize", det)
			} else {
				hang(c, out, dump, "C02:srv:first-frame-after-Rversion", det)
			}
		}
		c.Count("first_frames_after_version", 1)
		p.Close()
	}
}

func hexCut(b []byte) string {
	if len(b) > 96 {
		return hex.EncodeToString(b[:96]) + fmt.Sprintf("…(%d bytes)", len(b))
	}
	return hex.EncodeToString(b)
}

func c02Sequences(c *ev.Ctx) {
	r := c.Rand("c02seq")
	const msize = 1 << 16
	nseq := c.Sz(2400, 40000)
	for si := 0; si < nseq; si++ {
		if !c.Mine(si) {
			continue
		}
		rr := r.Fork(uint64(si))
		frames := c02Frames(rr, 25, msize)
		if si%4 != 0 {
			frames = frames[:25] // the truncation ladder only in every 4th sequence
		}
		srv, _ := c02Server()
		s, vr := newSess(srv, msize, v7)
		if !vr.OK {
			c.Inconclusive("C02 version failed")
			continue
		}
		s.attach(0, "")
		s.walk(0, 1, "f")
		s.open(1, 2)
		alive := true
		for fi, f := range frames {
			if !alive {
				break
			}
			c.Begin(fmt.Sprintf("C02 seq %d frame %d class=%s hex=%s", si, fi, f.class, hexCut(f.raw)))
			_, ft, ftag := wire.Header(f.raw)
			cls, ref := referee(f.raw)
			from := s.P.NReplies()
			s.P.SendFrame(f.raw)
			rep, ok, out, dump := s.P.At(from)
			key := fmt.Sprintf("%d:%s:%s", ft, f.class, cls)
			det := map[string]any{"class": f.class, "referee": cls, "frame": hexCut(f.raw), "type": wire.TypeName(ft)}
			if !ok {
				c.Case(key+":no-reply", true)
				if out == quiesce.CondMet {
					c.Violation("C02:srv:connection-ended-on-well-delimited-frame:"+cls, det)
				} else {
					hang(c, out, dump, "C02:srv:well-delimited-frame-unanswered:"+cls, det)
				}
				alive = false
				break
			}
			det["reply"] = rep.Msg.String()
			isErr := rep.Msg.Type == wire.Rlerror
			okTag := rep.Msg.Tag == ftag || (isErr && rep.Msg.Tag == wire.NOTAG)
			c.Case(key+":"+wire.TypeName(rep.Msg.Type), true)
			switch cls {
			case "unknown-type", "invalid", "valid-R-type":
				if !isErr {
					c.Violation("C02:srv:rejected-frame-not-answered-Rlerror:"+cls, det)
				}
			case "valid-T":
				if !isErr && rep.Msg.Type != ft+1 {
					c.Violation("C02:srv:wrong-reply-type", det)
				}
				if ref.Type == wire.Tversion && rep.Msg.Type != wire.Rversion {
					c.Violation("C02:srv:Tversion-not-answered-Rversion", det)
				}
			}
			if !okTag {
				c.Violation("C02:srv:reply-on-foreign-tag", det)
			}
			if rep.Msg.Tag == wire.NOTAG && ftag != wire.NOTAG {
				s.P.Forget(ftag, ft)
			}
			// alignment probe: a Tflush of an idle tag must come back as Rflush
			ptag := uint16(40000 + fi)
			pr := s.P.RPCTag(wire.Tflush, ptag, u(0xFFF0))
			if !pr.OK || pr.Msg.Type != wire.Rflush || pr.Msg.Tag != ptag {
				det["probe_reply"] = pr.Msg.String()
				if !pr.OK && pr.Out != quiesce.CondMet {
					hang(c, pr.Out, pr.Dump, "C02:srv:frames-after-rejected-frame-not-served:"+cls, det)
				} else {
					c.Violation("C02:srv:frames-after-rejected-frame-misparsed:"+cls, det)
				}
				alive = false
				break
			}
			c.Count("frames_refereed", 1)
			if c.WantSample() && fi%9 == 0 {
				c.Sample(map[string]any{"route": "server", "class": f.class, "referee": cls, "frame": hexCut(f.raw), "reply": rep.Msg.String()})
			}
		}
		for _, m := range s.P.Monitor() {
			fw := firstWord(m)
			if fw == "reply-stream:unsolicited-reply" || fw == "reply-stream:wrong-reply-type" {
				continue // judged above with the referee's knowledge (NOTAG replies)
			}
			c.Violation("C02:srv:reply-stream:"+fw, map[string]any{"monitor": m})
		}
		out, dump := s.P.Close()
		hang(c, out, dump, "C02:srv:Handle-does-not-return", si)
	}
}

func totalAlloc() uint64 {
	var ms runtime.MemStats
	runtime.ReadMemStats(&ms)
	return ms.TotalAlloc
}

// c02BadSizes: size fields below 7 or above msize end the connection without
// the body being read or buffered.
func c02BadSizes(c *ev.Ctx) {
	r := c.Rand("c02size")
	type cfg struct {
		negotiate uint32 // 0 = before negotiation (limit 4 MiB)
		refused   uint32 // msize of a refused Tversion sent afterwards (0 = none): it changes nothing
	}
	idx := 0
	for _, cf := range []cfg{{0, 0}, {4096, 0}, {1 << 16, 0}, {mib4, 0}, {8192, 16384}, {8192, 64}, {0, 4096}, {1 << 16, 1 << 20}, {1 << 16, mib4}} {
		limit := cf.negotiate
		if limit == 0 {
			limit = mib4
		}
		sizes := []uint32{0, 1, 6, limit + 1, limit + 2, mib4 + 1, 1 << 24, 1 << 31, 1<<32 - 1}
		oks := []uint32{7, 8, limit - 1, limit}
		for i := 0; i < c.Sz(3, 60); i++ {
			sizes = append(sizes, limit+1+uint32(r.U64()%uint64(1<<32-1-uint64(limit))))
		}
		for _, sz := range append(sizes, oks...) {
			for _, t := range []uint8{wire.Twrite, wire.Twalk, wire.Tversion, 255, wire.Rread} {
				idx++
				if !c.Mine(idx) {
					continue
				}
				bad := sz < 7 || sz > limit
				if !bad && t != wire.Twrite {
					continue
				}
				srv, ncalls := c02Server()
				p := rawpeer.New(srv, nil)
				if cf.negotiate != 0 {
					if !p.Version(cf.negotiate, v7).OK {
						c.Inconclusive("C02 version")
						continue
					}
				}
				if cf.refused != 0 {
					// a Tversion the server refuses ("unknown", msize 0) leaves
					// the limit in force where it was
					if rv := p.Version(cf.refused, "9P2000.u"); !rv.OK || rv.Msg.Type != wire.Rversion || rv.Msg.F[1].(string) != "unknown" {
						c.Inconclusive(fmt.Sprintf("C02 refused version: %v", rv.Msg))
						p.Close()
						continue
					}
				}
				c.Begin(fmt.Sprintf("C02 bad size=%d type=%d negotiate=%d refused=%d", sz, t, cf.negotiate, cf.refused))
				callsBefore := ncalls()
				nrep0 := p.NReplies()
				p.Flush()
				p.QuietAfter = 2 * time.Second
				w0 := p.Written()
				a0 := totalAlloc()
				h := hdr(sz, t, 77)
				p.SendRaw(h)
				// a body follows in a second write (up to 64 KiB of it)
				bodyLen := 0
				if sz > 7 {
					bodyLen = int(minU64(uint64(sz-7), 1<<16))
					body := make([]byte, bodyLen)
					if t == wire.Twrite && bodyLen >= 16 {
						binary.LittleEndian.PutUint32(body[12:], uint32(sz-7-16))
					}
					p.SendRaw(body)
				}
				det := map[string]any{"size_field": sz, "type": t, "limit": limit, "negotiated": cf.negotiate, "refused_tversion_msize": cf.refused}
				c.Case(fmt.Sprintf("size:%s:%d:%d:%d", sizeClass(sz, limit), t, cf.negotiate, cf.refused), true)
				if bad {
					select { // plain wait first: quiescence probes allocate
					case <-p.HandleDone:
					case <-time.After(2 * time.Second):
					}
					a1 := totalAlloc()
					out, _ := quiesce.Await(p.HandleDone, wd)
					if out != quiesce.CondMet {
						// the server is waiting for (or reading) the body of a frame it must refuse
						p.Flush()
						det["body_bytes_accepted"] = p.Written() - w0 - 7
						if out == quiesce.Stuck {
							c.Violation("C02:srv:bad-size-field-does-not-end-connection:"+sizeClass(sz, limit), det)
						} else {
							c.Inconclusive("C02 bad size: watchdog")
						}
						p.Close()
						continue
					}
					p.Flush()
					if acc := p.Written() - w0 - 7; acc != 0 {
						det["body_bytes_accepted"] = acc
						c.Violation("C02:srv:body-read-after-bad-size-field:"+sizeClass(sz, limit), det)
					}
					if d := a1 - a0; d > 256<<10 {
						det["alloc_delta"] = d
						c.Violation("C02:srv:allocation-on-bad-size-field:"+sizeClass(sz, limit), det)
					}
					c.Max("max_alloc_delta_bad_size", int64(a1-a0))
					if n := p.NReplies(); n > nrep0 {
						c.Violation("C02:srv:reply-sent-for-bad-size-frame", det)
					}
					if ncalls() != callsBefore {
						c.Violation("C02:srv:backend-call-for-bad-size-frame", det)
					}
					c.Count("bad_size_connections_ended", 1)
				} else {
					// acceptable size: the frame is completed by the rest of the
					// body and must be answered; buffering stays within msize+slack
					if rest := int(sz-7) - bodyLen; rest > 0 {
						p.SendRaw(make([]byte, rest))
					}
					p.Expect(h)
					rep, ok, out, dump := p.At(nrep0)
					a1 := totalAlloc()
					if !ok {
						if out == quiesce.CondMet {
							c.Violation("C02:srv:connection-ended-on-acceptable-size:"+sizeClass(sz, limit), det)
						} else {
							hang(c, out, dump, "C02:srv:acceptable-size-frame-unanswered", det)
						}
					} else {
						_ = rep
						if d := a1 - a0; d > uint64(limit)+16<<20+uint64(sz) {
							det["alloc_delta"] = d
							c.Violation("C02:srv:buffering-beyond-msize", det)
						}
						c.Max("max_alloc_delta_ok_size", int64(a1-a0))
					}
					p.Monitor()
				}
				p.Close()
			}
		}
	}
	// inflated counts inside an acceptable frame must not drive allocation
	for k := 0; k < c.Sz(20, 400); k++ {
		idx++
		if !c.Mine(idx) {
			continue
		}
		srv, _ := c02Server()
		p := rawpeer.New(srv, nil)
		p.Version(1<<16, v7)
		body := make([]byte, 10+r.Intn(30))
		binary.LittleEndian.PutUint16(body[8:], 0xFFFF) // Twalk nwname = 65535 with no names
		t := ev.Pick(r, []uint8{wire.Twalk, wire.Twalkgetattr, wire.Rwalk, wire.Rwalkgetattr})
		if t == wire.Rwalk {
			binary.LittleEndian.PutUint16(body[0:], 0xFFFF)
		}
		c.Begin(fmt.Sprintf("C02 inflated count type=%d", t))
		p.Flush()
		p.QuietAfter = 2 * time.Second
		a0 := totalAlloc()
		f := wire.Frame(t, 9, body)
		nrep0 := p.NReplies()
		p.SendFrame(f)
		rep, ok, out, dump := p.At(nrep0)
		a1 := totalAlloc()
		c.Case(fmt.Sprintf("inflated:%d:%d", t, len(body)), true)
		if !ok {
			hang(c, out, dump, "C02:srv:inflated-count-frame-unanswered", t)
			if out == quiesce.CondMet {
				c.Violation("C02:srv:connection-ended-on-inflated-count", t)
			}
		} else if rep.Msg.Type != wire.Rlerror {
			c.Violation("C02:srv:inflated-count-frame-accepted", map[string]any{"type": t, "reply": rep.Msg.String()})
		}
		if d := a1 - a0; d > 1<<16+16<<20 {
			c.Violation("C02:srv:allocation-driven-by-unchecked-count", map[string]any{"type": t, "alloc_delta": d})
		}
		c.Max("max_alloc_delta_inflated_count", int64(a1-a0))
		p.Monitor()
		p.Close()
	}
}

// c02ClientBadSizes: the client as receiver of a size field it must refuse.
// The limit is the msize of the session - what NewClient adopted from
// Rversion - and never more than 4 MiB, whatever a peer agreed to. The pending
// call must fail, no body byte may be taken, nothing of the announced size may
// be allocated.
func c02ClientBadSizes(c *ev.Ctx) {
	type cfg struct{ opt, announce uint32 }
	cfgs := []cfg{{1 << 16, 1 << 16}, {mib4, mib4}, {8 << 20, 8 << 20}, {64 << 20, 64 << 20}, {8 << 20, 1 << 16}, {1<<32 - 1, 1<<32 - 1}, {mib4 + 1, mib4 + 1}, {1 << 20, 1 << 20}}
	idx := 0
	for _, cf := range cfgs {
		limit := cf.opt
		if cf.announce < limit {
			limit = cf.announce
		}
		if limit > mib4 {
			limit = mib4
		}
		sizes := []uint32{0, 6, limit + 1, limit + 2, mib4 + 1, 5 << 20, 1 << 31, 1<<32 - 1}
		if cf.announce > mib4 {
			sizes = append(sizes, cf.announce, cf.announce-1, mib4+4096)
		}
		for _, sz := range sizes {
			if sz >= 7 && sz <= limit {
				continue
			}
			for _, kind := range "GR" {
				idx++
				if !c.Mine(idx) {
					continue
				}
				c.Begin(fmt.Sprintf("C02 client bad size=%d option=%d announced=%d kind=%c", sz, cf.opt, cf.announce, kind))
				armed := false
				auto := fakesrv.Auto(0, 7)
				var w0 int64
				fs := fakesrv.New(nil)
				fs.Handler = func(s *fakesrv.Server, rq *fakesrv.Req) {
					if rq.Err == nil && rq.Msg.Type == wire.Tversion {
						ms := uint32(rq.Msg.F[0].(uint64))
						if ms > cf.announce {
							ms = cf.announce
						}
						s.SetNegotiated(ms, 7)
						s.Reply(wire.Rversion, rq.Msg.Tag, uint64(ms), v7)
						return
					}
					if !armed || rq.Err != nil || rq.Msg.Type == wire.Tclunk {
						auto(s, rq)
						return
					}
					armed = false
					t, _ := fakesrv.Derived(rq.Msg, 1<<16)
					s.Flush()
					w0 = s.Written()
					s.SendRaw(hdr(sz, t, rq.Msg.Tag))
					if sz > 7 {
						n := int(minU64(uint64(sz-7), 1<<16))
						for j := 0; n > 0; j++ {
							k := minI(n, 64)
							if j < 48 {
								k = 1 // the first body bytes one by one: a single byte taken is seen
							}
							s.SendRaw(make([]byte, k))
							n -= k
						}
					}
				}
				var cl *p9.Client
				var err error
				if !ev.Watch(60*time.Second, func() { cl, err = p9.NewClient(fs.C, p9.WithMessageSize(cf.opt)) }) || err != nil {
					c.Inconclusive(fmt.Sprintf("C02 client bad size: NewClient: %v", err))
					fs.Shutdown()
					continue
				}
				var root p9.File
				if !ev.Watch(60*time.Second, func() { root, err = cl.Attach("") }) || err != nil {
					c.Inconclusive("C02 client bad size: attach")
					fs.Shutdown()
					continue
				}
				armed = true
				a0 := totalAlloc()
				done := make(chan struct{})
				var gerr error
				go func() {
					defer close(done)
					if kind == 'G' {
						_, _, _, gerr = root.GetAttr(p9.AttrMaskAll)
					} else {
						_, gerr = root.ReadAt(make([]byte, 100), 0)
					}
				}()
				select { // plain wait first: quiescence probes allocate
				case <-done:
				case <-time.After(2 * time.Second):
				}
				a1 := totalAlloc()
				out, dump := quiesce.Await(done, wd)
				cls := sizeClass(sz, limit)
				if sz > mib4 && sz <= cf.announce {
					cls = "above-4MiB-within-announced"
				}
				det := map[string]any{"size_field": sz, "client_option": cf.opt, "announced_msize": cf.announce, "limit": limit, "pending_call": string(kind)}
				c.Case(fmt.Sprintf("cli-size:%s:%d:%d:%c", cls, cf.opt, cf.announce, kind), true)
				if out != quiesce.CondMet {
					det["body_bytes_accepted"] = fs.Written() - w0 - 7
					hang(c, out, dump, "C02:cli:pending-call-hangs-on-bad-size-field:"+cls, det)
					fs.Shutdown()
					continue
				}
				if gerr == nil || gerr == io.EOF {
					c.Violation("C02:cli:call-succeeds-on-bad-size-field:"+cls, det)
				}
				// the header has been taken (the call failed on it); let the fake
				// server's writer account it before counting body bytes
				quiesce.WaitUntil(func() bool { return fs.Written() >= w0+7 }, wd)
				if acc := fs.Written() - w0 - 7; acc > 0 {
					det["body_bytes_accepted"] = acc
					c.Violation("C02:cli:body-read-after-bad-size-field:"+cls, det)
				}
				if d := a1 - a0; d > 1<<20 {
					det["alloc_delta"] = d
					c.Violation("C02:cli:allocation-on-bad-size-field:"+cls, det)
				}
				c.Max("max_alloc_delta_bad_size_client", int64(a1-a0))
				c.Count("client_bad_size_cases", 1)
				// the connection has ended for this client: a later call fails
				// too, and it does not take the refused frame's body for what
				// comes next in the stream
				fs.Handler = func(s *fakesrv.Server, rq *fakesrv.Req) {} // the later request is left unanswered
				w1 := fs.Written()
				later := make(chan struct{})
				var lerr error
				go func() {
					defer close(later)
					_, _, _, lerr = root.GetAttr(p9.AttrMaskAll)
				}()
				if out, dump := quiesce.Await(later, wd); out != quiesce.CondMet {
					det["body_bytes_accepted_by_later_call"] = fs.Written() - w1
					hang(c, out, dump, "C02:cli:later-call-hangs-after-bad-size-field:"+cls, det)
					fs.Shutdown()
					continue
				}
				if lerr == nil {
					c.Violation("C02:cli:later-call-succeeds-after-bad-size-field:"+cls, det)
				}
				if acc := fs.Written() - w1; acc > 0 && sz > 7 {
					det["body_bytes_accepted_by_later_call"] = acc
					c.Violation("C02:cli:body-read-by-a-later-call-after-bad-size-field:"+cls, det)
				}
				fs.Shutdown()
			}
		}
	}
}

// Pattern9 is fakesrv.Pattern (the bytes the fake server serves for a fid and offset).
func Pattern9(fid, off uint64, n int) []byte { return fakesrv.Pattern(fid, off, n) }

func sizeClass(sz, limit uint32) string {
	switch {
	case sz < 7:
		return "below-header"
	case sz <= limit:
		return "acceptable"
	case sz <= mib4:
		return "above-msize"
	}
	return "above-4MiB"
}

// c02Client: a real client receives hostile replies to a pending call.
func c02Client(c *ev.Ctx) {
	r := c.Rand("c02cli")
	n := c.Sz(4000, 100000)
	for i := 0; i < n; i++ {
		if !c.Mine(i) {
			continue
		}
		rr := r.Fork(uint64(i))
		fs := fakesrv.New(nil)
		var reply []byte
		var class string
		auto := fakesrv.Auto(0, 7)
		armed := false
		fs.Handler = func(s *fakesrv.Server, rq *fakesrv.Req) {
			if !armed || rq.Err != nil || rq.Msg.Type == wire.Tclunk || rq.Msg.Type == wire.Tversion {
				auto(s, rq)
				return
			}
			armed = false // one hostile reply per connection
			// build a hostile reply for this tag
			t, vals := fakesrv.Derived(rq.Msg, 1<<16)
			body, _ := wire.EncodeBody(t, vals)
			tag := rq.Msg.Tag
			if rq.Msg.Type == wire.Tread && rr.Intn(3) == 0 {
				// a well-formed Rread carrying MORE bytes than the Tread asked
				// for: whatever the caller makes of it, not a count beyond its
				// buffer, and no panic
				class = "more-data-than-asked"
				cnt := int(rq.Msg.F[2].(uint64))
				reply = wire.Encode(wire.Rread, tag, Pattern9(rq.Msg.F[0].(uint64), rq.Msg.F[1].(uint64), cnt+1+rr.Intn(300)))
				s.SendRaw(reply)
				return
			}
			if rq.Msg.Type == wire.Twrite {
				// an Rwrite claiming more bytes than were sent
				class = "more-written-than-sent"
				reply = wire.Encode(wire.Rwrite, tag, uint64(len(rq.Msg.F[2].([]byte))+1+rr.Intn(1000)))
				s.SendRaw(reply)
				return
			}
			switch rr.Intn(9) {
			case 0:
				class = "short-body"
				body = body[:rr.Intn(len(body))]
			case 1:
				class = "bit-flip"
				body[rr.Intn(len(body))] ^= 1 << uint(rr.Intn(8))
			case 2:
				class = "wrong-type"
				t = ev.Pick(rr, []uint8{wire.Rwalk, wire.Rread, wire.Rlopen, wire.Tgetattr, 255, 0})
			case 3:
				class = "unknown-tag"
				tag = tag + 1 + uint16(rr.Intn(100))
			case 4:
				class = "bad-size"
				reply = append(hdr(ev.Pick(rr, []uint32{0, 6, 1<<16 + 1, 1<<32 - 1}), t, tag), body...)
				s.SendRaw(reply)
				return
			case 5:
				class = "random-body"
				body = rr.Bytes(rr.Intn(200))
			case 6:
				class = "rlerror-short"
				t, body = wire.Rlerror, rr.Bytes(rr.Intn(4))
			case 7:
				class = "trailing"
				body = append(body, rr.Bytes(1+rr.Intn(9))...)
			case 8:
				class = "garbage-stream"
				reply = rr.Bytes(7 + rr.Intn(40))
				s.SendRaw(reply)
				s.CloseAfterWrites()
				return
			}
			reply = wire.Frame(t, tag, body)
			s.SendRaw(reply)
			if class == "unknown-tag" {
				// then the proper reply, so that the call is not left to the watchdog
				s.Reply(wire.Rlerror, rq.Msg.Tag, u(5))
			}
		}
		var cl *p9.Client
		var err error
		if !ev.Watch(60*time.Second, func() { cl, err = p9.NewClient(fs.C, p9.WithMessageSize(1<<16)) }) || err != nil {
			c.Inconclusive("C02 client NewClient")
			fs.Shutdown()
			continue
		}
		var root p9.File
		if !ev.Watch(60*time.Second, func() { root, err = cl.Attach("") }) || err != nil {
			c.Inconclusive("C02 client attach")
			fs.Shutdown()
			continue
		}
		armed = true
		var q p9.QID
		var mask p9.AttrMask
		var attr p9.Attr
		var gerr error
		kind := "GDWRLSTR"[i%8]
		var check func(m wire.Msg) bool // does the decoded frame carry exactly what the call returned?
		done := make(chan struct{})
		c.Begin(fmt.Sprintf("C02 client case %d kind %c", i, kind))
		go func() {
			defer close(done)
			switch kind {
			case 'G':
				q, mask, attr, gerr = root.GetAttr(p9.AttrMaskAll)
				check = func(m wire.Msg) bool {
					return m.Type == wire.Rgetattr && len(m.F) == 20 && m.F[1].(wire.QID) == wire.QID{Type: uint8(q.Type), Version: q.Version, Path: q.Path} &&
						m.F[2].(uint64) == uint64(attr.Mode) && m.F[7].(uint64) == attr.Size && m.F[19].(uint64) == attr.DataVersion && (m.F[0].(uint64)&1 != 0) == mask.Mode
				}
			case 'D':
				var d p9.Dirents
				d, gerr = root.Readdir(0, 3000)
				check = func(m wire.Msg) bool {
					if m.Type != wire.Rreaddir {
						return false
					}
					ents, _ := wire.DecodeDirents(m.F[0].([]byte))
					if len(ents) != len(d) {
						return false
					}
					for k := range d {
						if d[k].Name != ents[k].Name || d[k].Offset != ents[k].Offset || d[k].QID.Path != ents[k].QID.Path {
							return false
						}
					}
					return true
				}
			case 'W':
				var qs []p9.QID
				qs, _, gerr = root.Walk([]string{"a", "b", "c"})
				check = func(m wire.Msg) bool {
					if m.Type != wire.Rwalk || len(m.F[0].([]wire.QID)) != len(qs) {
						return false
					}
					for k, x := range m.F[0].([]wire.QID) {
						if x != wQID(qs[k]) {
							return false
						}
					}
					return true
				}
			case 'R':
				buf := make([]byte, 300)
				var n int
				n, gerr = root.ReadAt(buf, 5)
				if gerr == io.EOF {
					gerr = nil
				}
				if n > len(buf) {
					gerr = nil
					check = func(wire.Msg) bool { return false }
					class += ":count-beyond-the-buffer"
					return
				}
				check = func(m wire.Msg) bool {
					return m.Type == wire.Rread && bytes.Equal(m.F[0].([]byte), buf[:n])
				}
			case 'T':
				var n int
				data := []byte("0123456789abcdef")
				n, gerr = root.WriteAt(data, 3)
				if n > len(data) {
					gerr = nil
					check = func(wire.Msg) bool { return false }
					class += ":count-beyond-the-buffer"
					return
				}
				check = func(m wire.Msg) bool { return m.Type == wire.Rwrite && int(m.F[0].(uint64)) == n }
			case 'L':
				var t string
				t, gerr = root.Readlink()
				check = func(m wire.Msg) bool { return m.Type == wire.Rreadlink && m.F[0].(string) == t }
			case 'S':
				var st p9.FSStat
				st, gerr = root.StatFS()
				check = func(m wire.Msg) bool {
					return m.Type == wire.Rstatfs && m.F[0].(uint64) == uint64(st.Type) && m.F[7].(uint64) == st.FSID && m.F[8].(uint64) == uint64(st.NameLength)
				}
			}
		}()
		out, dump := quiesce.Await(done, wd)
		c.Case(fmt.Sprintf("cli:%c:%s:%v", kind, class, gerr == nil), true)
		det := map[string]any{"class": class, "reply": hexCut(reply), "pending_call": string(kind)}
		if out != quiesce.CondMet {
			hang(c, out, dump, "C02:cli:pending-call-hangs-on-hostile-reply:"+class, det)
			fs.Shutdown()
			continue
		}
		if gerr == nil {
			// success is only acceptable if the frame decodes (reference) to
			// exactly the returned values
			m, _, derr := wire.Decode(reply)
			okv := derr == nil && check != nil && check(m)
			if kind == 'D' && !okv && len(reply) >= 11 {
				// a directory reply is lenient by nature: whole entries that parse
				// are delivered, a broken tail is dropped. Judge the payload alone.
				if _, tt, _ := wire.Header(reply); tt == wire.Rreaddir {
					okv = check(wire.Msg{Type: wire.Rreaddir, F: []any{reply[11:]}})
				}
			}
			if !okv {
				c.Violation("C02:cli:call-succeeds-with-values-not-in-the-frame:"+class+":"+string(kind), det)
			}
		}
		c.Count("client_hostile_replies", 1)
		if c.WantSample() && i%40 == 0 {
			c.Sample(map[string]any{"route": "client", "class": class, "reply": hexCut(reply), "call_error": fmt.Sprint(gerr)})
		}
		fs.Shutdown()
	}
}

// c02ClientAnnouncedSizes: replies that are perfectly well-formed frames but
// announce a size the client is then expected to provide room for. Rxattrwalk
// carries the size of the value as 64 bits: whatever it says, GetXattr /
// ListXattrs return a value (what the server then actually delivers) or an
// error - the caller's goroutine does not panic and the process does not try to
// allocate what a 15-byte frame announced. Runs last: a panic here ends the
// shard.
func c02ClientAnnouncedSizes(c *ev.Ctx) {
	sizes := []uint64{1 << 62, 1<<63 + 5, 1<<64 - 1, 1 << 44, 1<<32 + 1}
	for i, sz := range sizes {
		for li, list := range []bool{false, true} {
			if !c.Mine(i*2 + li) {
				continue
			}
			c.Begin(fmt.Sprintf("C02 client Rxattrwalk size=%d list=%v", sz, list))
			fs := fakesrv.New(nil)
			auto := fakesrv.Auto(0, 7)
			sz := sz
			fs.Handler = func(s *fakesrv.Server, rq *fakesrv.Req) {
				if rq.Err == nil && rq.Msg.Type == wire.Txattrwalk {
					s.Reply(wire.Rxattrwalk, rq.Msg.Tag, sz)
					return
				}
				if rq.Err == nil && rq.Msg.Type == wire.Tread {
					// the value turns out to be 5 bytes long
					off := rq.Msg.F[1].(uint64)
					var d []byte
					if off < 5 {
						d = []byte("value")[off:]
					}
					s.Reply(wire.Rread, rq.Msg.Tag, d)
					return
				}
				auto(s, rq)
			}
			var val []byte
			var names []string
			var err error
			done := make(chan struct{})
			go func() {
				defer close(done)
				cl, e := p9.NewClient(fs.C, p9.WithMessageSize(1<<16))
				if e != nil {
					err = e
					return
				}
				root, e := cl.Attach("")
				if e != nil {
					err = e
					return
				}
				if list {
					names, err = root.ListXattrs()
				} else {
					val, err = root.GetXattr("user.x")
				}
				runtime.KeepAlive(root)
			}()
			out, dump := quiesce.Await(done, wd)
			det := map[string]any{"announced_size": sz, "list": list, "err": fmt.Sprint(err)}
			if out != quiesce.CondMet {
				hang(c, out, dump, "C02:cli:call-hangs-on-announced-size", det)
				fs.Shutdown()
				continue
			}
			if err == nil && !list && string(val) != "value" {
				det["got"] = len(val)
				c.Violation("C02:cli:call-succeeds-with-values-not-in-the-frames:announced-size:xattr", det)
			}
			_ = names
			c.Case(fmt.Sprintf("cli:announced-size:%d:%v", sz, list), true)
			c.Count("client_announced_sizes", 1)
			fs.Shutdown()
		}
	}
}
