package checks

import (
	"bytes"
	"fmt"
	"io"
	"net"
	"runtime"
	"sort"
	"strings"
	"time"

	"github.com/hugelgupf/p9/p9"

	"verif/internal/ev"
	"verif/internal/fakesrv"
	"verif/internal/memfs"
	"verif/internal/quiesce"
	"verif/internal/rawpeer"
	"verif/internal/wire"
	"verif/internal/xport"
)

func init() {
	ev.Register(&ev.Spec{
		ID: "C17", Level: "exploration",
		Rule:    "streams of 1-6 independent request frames (Twrite/Tread/Treaddir/Tgetattr/Twalk/Tversion, with and without payload) delivered to a real server under chosen segmentations: every single cut and every pair of cuts for streams <= 120 bytes, one byte at a time, PRNG cuts for long streams, every truncation offset followed by EOF (separately and together with the last bytes, and on a socket pair by shutting down the sending direction after that byte); on the generic io.Reader path (cut-imposing reader) and on an AF_UNIX socket pair (recvmsg path, segments paced by polling the receive queue); the same for a real client receiving segmented replies; and two socket connections at once: A holds a Twrite cut after its header / inside its fixed part / inside its payload while B receives a whole frame, each backend stores what its own peer sent. Replies (by tag), backend-observed payload bytes and the backend call multiset must equal the unsegmented run. Non-trivial: >= 1 cut strictly inside a frame; distinct by (stream, cut set, path).",
		Assume:  []string{"unsegmented delivery on the same connection is the reference", "socket segment boundaries are enforced by waiting until TIOCINQ reports an empty receive queue"},
		Shards:  shards(8, 16),
		Timeout: timeout(6*time.Minute, 45*time.Minute),
		Run:     runC17,
	})
}

type c17frame struct {
	kind  byte
	k     int // which file
	off   uint64
	n     int // payload / count
	names []string
}

type c17fix struct {
	fs   *memfs.FS
	p    *rawpeer.Peer
	cr   *xport.CutReader // generic path
	sp   *xport.SockPair  // socket path
	w, r []*memfs.Node
	run  int
}

func c17Setup(c *ev.Ctx, socket bool) *c17fix {
	fx := &c17fix{fs: memfs.New()}
	for k := 0; k < 6; k++ {
		fx.w = append(fx.w, fx.fs.MkPath(fmt.Sprintf("/w%d", k), p9.ModeRegular|0644, ""))
		fx.r = append(fx.r, fx.fs.MkPath(fmt.Sprintf("/r%d", k), p9.ModeRegular|0644, strings.Repeat(fmt.Sprintf("content-of-r%d-", k), 700)))
	}
	for i := 0; i < 5; i++ {
		fx.fs.MkPath(fmt.Sprintf("/dd/entry%d", i), p9.ModeRegular|0644, "")
	}
	fx.fs.MkPath("/a/b", p9.ModeDirectory|0755, "")
	srv := p9.NewServer(fx.fs)
	o := &rawpeer.Options{}
	if socket {
		sp, err := xport.NewSockPair()
		if err != nil {
			c.Inconclusive("socketpair: " + err.Error())
			return nil
		}
		fx.sp = sp
		o.Conns = func() (net.Conn, net.Conn) { return sp.A, sp.B }
	} else {
		o.WrapReader = func(r io.ReadCloser) io.ReadCloser {
			fx.cr = xport.NewCutReader(r)
			return fx.cr
		}
	}
	fx.p = rawpeer.New(srv, o)
	s := &sess{P: fx.p}
	ok := fx.p.Version(1<<16, v7).OK && s.attach(0, "").Errno() == 0
	for k := 0; k < 6 && ok; k++ {
		ok = ok && s.walk(0, uint64(10+k), fmt.Sprintf("w%d", k)).Errno() == 0 && s.open(uint64(10+k), 2).Errno() == 0
		ok = ok && s.walk(0, uint64(20+k), fmt.Sprintf("r%d", k)).Errno() == 0 && s.open(uint64(20+k), 0).Errno() == 0
	}
	ok = ok && s.walk(0, 30, "dd").Errno() == 0 && s.open(30, 0).Errno() == 0
	if !ok {
		c.Inconclusive("C17 setup failed")
		fx.close()
		return nil
	}
	return fx
}

func (fx *c17fix) close() {
	fx.p.Close()
	if fx.sp != nil {
		fx.sp.Close()
	}
}

// build encodes the stream for this run; write payloads depend on the run
// number so that a stale or misplaced byte is visible in the backend.
func (fx *c17fix) build(frames []c17frame, run int) (enc [][]byte, tags []uint16) {
	for i, f := range frames {
		tag := uint16(100 + i)
		var b []byte
		switch f.kind {
		case 'W':
			b = wire.Encode(wire.Twrite, tag, u(uint64(10+f.k)), f.off, c17Data(run, i, f.n))
		case 'R':
			b = wire.Encode(wire.Tread, tag, u(uint64(20+f.k)), f.off, u(uint64(f.n)))
		case 'D':
			b = wire.Encode(wire.Treaddir, tag, u(30), u(0), u(4096))
		case 'G':
			b = wire.Encode(wire.Tgetattr, tag, u(uint64(20+f.k)), u(0x3fff))
		case 'K':
			b = wire.Encode(wire.Twalk, tag, u(0), u(uint64(40+f.k)), f.names)
		case 'V':
			b = wire.Encode(wire.Tversion, tag, u(1<<16), v7)
		case 'X':
			// a frame the receiver rejects and whose body it throws away:
			// a type it does not serve (Tgetlock), answered Rlerror under its tag
			b = wire.Frame(54, tag, c17Data(run, i, f.n%300))
		case 'S':
			// a Twrite shorter than its fixed part: body thrown away, answered
			// Rlerror under NOTAG
			b = wire.Frame(wire.Twrite, tag, c17Data(run, i, f.n%16))
		}
		enc = append(enc, b)
		tags = append(tags, tag)
	}
	return
}

func c17Data(run, i, n int) []byte {
	b := make([]byte, n)
	for j := range b {
		b[j] = byte(run*31 + i*7 + j*13 + (j>>8)*5 + 1)
	}
	return b
}

func c17Streams(r *ev.Rand, n int) [][]c17frame {
	ss := [][]c17frame{
		{{kind: 'W', k: 0, off: 0, n: 0}}, {{kind: 'W', k: 0, off: 3, n: 1}}, {{kind: 'W', k: 1, off: 0, n: 20}},
		{{kind: 'R', k: 0, off: 2, n: 30}}, {{kind: 'R', k: 1, off: 0, n: 0}}, {{kind: 'D'}}, {{kind: 'G', k: 2}},
		{{kind: 'K', k: 0, names: []string{"a", "b"}}}, {{kind: 'K', k: 1, names: []string{}}}, {{kind: 'V'}},
		{{kind: 'W', k: 0, off: 1, n: 9}, {kind: 'W', k: 1, off: 0, n: 5}},
		{{kind: 'W', k: 2, off: 0, n: 11}, {kind: 'R', k: 0, off: 0, n: 16}},
		{{kind: 'R', k: 1, off: 5, n: 40}, {kind: 'G', k: 3}},
		{{kind: 'G', k: 0}, {kind: 'W', k: 3, off: 7, n: 3}, {kind: 'K', k: 2, names: []string{"a"}}},
		{{kind: 'W', k: 0, off: 0, n: 4}, {kind: 'W', k: 1, off: 0, n: 0}, {kind: 'W', k: 2, off: 2, n: 2}, {kind: 'R', k: 4, off: 0, n: 8}},
		{{kind: 'W', k: 4, off: 0, n: 300}}, {{kind: 'W', k: 5, off: 10, n: 5000}, {kind: 'R', k: 5, off: 0, n: 6000}},
		{{kind: 'W', k: 0, off: 0, n: 60000}}, {{kind: 'R', k: 2, off: 100, n: 9000}, {kind: 'D'}, {kind: 'W', k: 1, off: 0, n: 2000}},
	}
	// rejected frames between served ones: whatever follows a discarded body
	// in the same read must still be received
	ss = append(ss,
		[]c17frame{{kind: 'G', k: 0}, {kind: 'X', n: 40}, {kind: 'G', k: 1}, {kind: 'W', k: 2, off: 0, n: 33}, {kind: 'G', k: 2}},
		[]c17frame{{kind: 'X', n: 0}, {kind: 'G', k: 1}}, []c17frame{{kind: 'X', n: 299}, {kind: 'W', k: 1, off: 2, n: 700}, {kind: 'X', n: 7}, {kind: 'R', k: 0, off: 0, n: 50}},
		[]c17frame{{kind: 'G', k: 3}, {kind: 'S', n: 9}, {kind: 'G', k: 4}, {kind: 'W', k: 0, off: 0, n: 12}},
		[]c17frame{{kind: 'S', n: 15}, {kind: 'S', n: 0}, {kind: 'K', k: 0, names: []string{"a"}}, {kind: 'X', n: 100}, {kind: 'D'}},
	)
	kinds := []byte{'W', 'W', 'R', 'D', 'G', 'K', 'X', 'S', 'W', 'R', 'G'}
	for i := 0; i < n; i++ {
		k := 1 + r.Intn(6)
		var s []c17frame
		perm := r.Perm(6)
		for j := 0; j < k; j++ {
			f := c17frame{kind: ev.Pick(r, kinds), k: perm[j], off: uint64(r.Intn(50))}
			switch r.Intn(4) {
			case 0:
				f.n = r.Intn(4)
			case 1:
				f.n = r.Intn(64)
			case 2:
				f.n = r.Intn(3000)
			default:
				f.n = r.Intn(30000)
			}
			if f.kind == 'K' {
				f.names = [][]string{{}, {"a"}, {"a", "b"}}[r.Intn(3)]
			}
			s = append(s, f)
		}
		ss = append(ss, s)
	}
	return ss
}

func streamKey(fr []c17frame) string {
	s := ""
	for _, f := range fr {
		s += fmt.Sprintf("%c%d:%d:%d;", f.kind, f.k, f.off, f.n)
	}
	return s
}

type c17ref struct {
	replies map[uint16][]byte
	calls   string
}

// deliver sends the stream under a segmentation and returns what came back.
// cuts are offsets relative to the start of the stream; group says how many
// frames go into one write on the generic path.
func (fx *c17fix) deliver(c *ev.Ctx, frames []c17frame, cuts []int, oneByte bool) (*c17ref, bool) {
	fx.run++
	enc, tags := fx.build(frames, fx.run)
	all := bytes.Join(enc, nil)
	from := fx.p.NReplies()
	ncalls := fx.fs.NCalls()
	for _, e := range enc {
		fx.p.Expect(e)
	}
	if fx.cr != nil {
		base := fx.cr.Pos()
		var abs []int64
		for _, k := range cuts {
			abs = append(abs, base+int64(k))
		}
		fx.cr.SetCuts(abs)
		fx.cr.SetOneByte(oneByte)
		fx.p.SendRaw(all) // one write: several frames may arrive in one read
	} else {
		// socket: write segment by segment, each consumed before the next
		fx.p.Pace = func() { fx.sp.DrainedB(5 * time.Second) }
		prev := 0
		cs := append(append([]int(nil), cuts...), len(all))
		if oneByte {
			cs = cs[:0]
			for i := 1; i <= len(all); i++ {
				cs = append(cs, i)
			}
		}
		for _, k := range cs {
			if k > prev && k <= len(all) {
				fx.p.SendRaw(all[prev:k])
				prev = k
			}
		}
	}
	ref := &c17ref{replies: map[uint16][]byte{}}
	nS := 0
	for i, f := range frames {
		if f.kind == 'S' {
			nS++
			fx.p.Forget(tags[i], wire.Twrite) // answered under NOTAG
		}
	}
	for i, tag := range tags {
		if frames[i].kind == 'S' {
			continue
		}
		r, ok, out, dump := fx.p.WaitTag(tag, from)
		if !ok {
			det := map[string]any{"stream": streamKey(frames), "cuts": cuts, "one_byte": oneByte, "socket": fx.sp != nil, "missing_tag": tag}
			if out == quiesce.CondMet {
				c.Violation("C17:srv:connection-ended-under-segmentation:"+fx.pathName(), det)
			} else {
				hang(c, out, dump, "C17:srv:message-lost-under-segmentation:"+fx.pathName(), det)
			}
			return nil, false
		}
		ref.replies[tag] = r.Raw
	}
	// backend-observed payloads
	for i, f := range frames {
		if f.kind == 'W' && f.n > 0 {
			want := c17Data(fx.run, i, f.n)
			n := fx.fs.Lookup(fmt.Sprintf("/w%d", f.k))
			if n == nil || len(n.Data) < int(f.off)+f.n || !bytes.Equal(n.Data[f.off:int(f.off)+f.n], want) {
				c.Violation("C17:srv:payload-bytes-differ-under-segmentation:"+fx.pathName(), map[string]any{"stream": streamKey(frames), "cuts": cuts, "one_byte": oneByte, "frame": i})
			}
		}
	}
	var cl []string
	for _, x := range fx.fs.Calls(ncalls) {
		cl = append(cl, x.Method+"("+x.Args+")")
	}
	sort.Strings(cl)
	ref.calls = strings.Join(cl, ";")
	if nS > 0 {
		// one NOTAG Rlerror per short frame, whatever the segmentation
		if out, dump := quiesce.WaitUntil(func() bool { return fx.p.NReplies() >= from+len(frames) }, wd); out != quiesce.CondMet {
			hang(c, out, dump, "C17:srv:message-lost-under-segmentation:"+fx.pathName(), map[string]any{"stream": streamKey(frames), "cuts": cuts, "one_byte": oneByte, "replies": fx.p.NReplies() - from, "frames": len(frames)})
			return nil, false
		}
	}
	for _, m := range fx.p.Monitor() {
		if nS > 0 && strings.HasPrefix(m, "reply-stream:unsolicited-reply type=Rlerror tag=65535") {
			continue
		}
		c.Violation("C17:srv:reply-stream:"+firstWord(m), map[string]any{"monitor": m, "stream": streamKey(frames), "cuts": cuts})
	}
	return ref, true
}

func (fx *c17fix) pathName() string {
	if fx.sp != nil {
		return "socket"
	}
	return "generic"
}

func (fx *c17fix) compare(c *ev.Ctx, base, got *c17ref, frames []c17frame, cuts []int, oneByte bool) {
	det := func() map[string]any {
		return map[string]any{"stream": streamKey(frames), "cuts": cuts, "one_byte": oneByte}
	}
	for tag, b := range base.replies {
		if !bytes.Equal(b, got.replies[tag]) {
			d := det()
			m1, _, _ := wire.Decode(b)
			m2, _, _ := wire.Decode(got.replies[tag])
			d["unsegmented"], d["segmented"] = m1.String(), m2.String()
			c.Violation("C17:srv:reply-differs-under-segmentation:"+fx.pathName(), d)
			return
		}
	}
	if base.calls != got.calls {
		d := det()
		d["unsegmented_calls"], d["segmented_calls"] = cutS(base.calls, 600), cutS(got.calls, 600)
		c.Violation("C17:srv:backend-calls-differ-under-segmentation:"+fx.pathName(), d)
	}
}

func insideFrame(enc [][]byte, cuts []int) bool {
	bound := map[int]bool{0: true}
	p := 0
	for _, e := range enc {
		p += len(e)
		bound[p] = true
	}
	for _, k := range cuts {
		if !bound[k] {
			return true
		}
	}
	return false
}

func runC17(c *ev.Ctx) {
	c17TwoSockets(c)
	r := c.Rand("c17")
	streams := c17Streams(r, c.Sz(100, 1600))
	for si, frames := range streams {
		for _, socket := range []bool{false, true} {
			if !c.Mine(si*2 + b2i(socket)) {
				continue
			}
			fx := c17Setup(c, socket)
			if fx == nil {
				continue
			}
			c.Begin(fmt.Sprintf("C17 stream %s socket=%v", streamKey(frames), socket))
			// reference: unsegmented, twice (the second is steady state)
			if _, ok := fx.deliver(c, frames, nil, false); !ok {
				fx.close()
				continue
			}
			base, ok := fx.deliver(c, frames, nil, false)
			if !ok {
				fx.close()
				continue
			}
			enc, _ := fx.build(frames, 0)
			total := 0
			for _, e := range enc {
				total += len(e)
			}
			var cutsets [][]int
			if total <= 120 {
				lim1 := total
				for a := 1; a < lim1; a++ {
					cutsets = append(cutsets, []int{a})
				}
				if !socket || c.Thorough() {
					for a := 1; a < total; a++ {
						for b := a + 1; b < total; b++ {
							if c.Quick() && total > 60 && (a*7+b)%3 != 0 {
								continue
							}
							cutsets = append(cutsets, []int{a, b})
						}
					}
				} else {
					for k := 0; k < 40; k++ {
						a := 1 + r.Intn(total-1)
						b := 1 + r.Intn(total-1)
						if a > b {
							a, b = b, a
						}
						cutsets = append(cutsets, []int{a, b})
					}
				}
				if c.Thorough() && total <= 50 && !socket {
					for a := 1; a < total; a++ {
						for b := a + 1; b < total; b++ {
							for d := b + 1; d < total; d++ {
								cutsets = append(cutsets, []int{a, b, d})
							}
						}
					}
				}
			} else {
				// header bytes of each frame, fixed/payload boundary, PRNG cuts
				p := 0
				for _, e := range enc {
					for h := 1; h <= 7 && h < len(e); h++ {
						cutsets = append(cutsets, []int{p + h})
					}
					if len(e) > 23 {
						cutsets = append(cutsets, []int{p + 23}, []int{p + 22, p + 24}, []int{p + 11}, []int{p + len(e) - 1})
					}
					p += len(e)
				}
				for k := 0; k < c.Sz(40, 200); k++ {
					nc := 1 + r.Intn(8)
					var cs []int
					for j := 0; j < nc; j++ {
						cs = append(cs, 1+r.Intn(total-1))
					}
					sort.Ints(cs)
					cutsets = append(cutsets, cs)
				}
			}
			okAll := true
			for _, cs := range cutsets {
				got, ok := fx.deliver(c, frames, cs, false)
				c.Case(fmt.Sprintf("%s|%v|%v", streamKey(frames), cs, socket), insideFrame(enc, cs))
				if !ok {
					okAll = false
					break
				}
				fx.compare(c, base, got, frames, cs, false)
				c.Count("deliveries_"+fx.pathName(), 1)
			}
			if okAll && fx.cr != nil {
				// reads that return (0, nil) between the real ones: "nothing
				// happened" in io.Reader's words, not the end of the stream
				fx.cr.SetZeroReads(true)
				for _, cs := range cutsets[:minI(len(cutsets), 12)] {
					got, ok := fx.deliver(c, frames, cs, false)
					c.Case(fmt.Sprintf("%s|%v|zero-reads", streamKey(frames), cs), true)
					if !ok {
						okAll = false
						break
					}
					fx.compare(c, base, got, frames, cs, false)
					c.Count("deliveries_with_zero_length_reads", 1)
				}
				fx.cr.SetZeroReads(false)
			}
			if okAll && total <= 4000 {
				got, ok := fx.deliver(c, frames, nil, true)
				c.Case(fmt.Sprintf("%s|one-byte|%v", streamKey(frames), socket), true)
				if ok {
					fx.compare(c, base, got, frames, nil, true)
					c.Count("deliveries_one_byte_at_a_time", 1)
				}
			}
			if c.WantSample() && len(cutsets) > 0 {
				c.Sample(map[string]any{"route": "server/" + fx.pathName(), "stream": streamKey(frames), "stream_bytes": total, "segmentations": len(cutsets), "example_cuts": cutsets[len(cutsets)/2]})
			}
			fx.close()
		}
	}
	c17Truncate(c, streams)
	c17Client(c)
}

func b2i(b bool) int {
	if b {
		return 1
	}
	return 0
}

// c17Truncate: the stream ends at every offset (EOF separately, and together
// with the last bytes): whole frames before the cut are served, the partial
// one yields nothing, Handle returns.
func c17Truncate(c *ev.Ctx, streams [][]c17frame) {
	idx := 0
	for si, frames := range streams {
		if si >= c.Sz(16, 60) {
			break
		}
		fx0 := &c17fix{}
		enc, tags := fx0.build(frames, 1)
		all := bytes.Join(enc, nil)
		if len(all) > 400 {
			continue
		}
		if frames[0].kind == 'V' {
			continue
		}
		step := 1
		if c.Quick() && len(all) > 60 {
			step = 3
		}
		for t := 0; t <= len(all); t += step {
			// mode 0: generic reader, EOF after the last byte; 1: generic
			// reader, EOF delivered together with the last byte; 2: a real
			// socket pair whose sending direction is shut down after byte t
			// (the vectorised receive path: recvmsg returns 0 in mid-frame)
			for mode := 0; mode < 3; mode++ {
				with := mode == 1
				socket := mode == 2
				idx++
				if !c.Mine(idx) {
					continue
				}
				if with && t == 0 {
					continue
				}
				if socket && c.Quick() && (t+si)%2 == 1 {
					continue
				}
				fx := c17Setup(c, socket)
				if fx == nil {
					continue
				}
				c.Begin(fmt.Sprintf("C17 truncate %s at %d withEOF=%v socket=%v", streamKey(frames), t, with, socket))
				fx.run = 1
				from := fx.p.NReplies()
				ncalls := fx.fs.NCalls()
				if !socket {
					fx.cr.SetEOF(fx.cr.Pos()+int64(t), with)
				}
				// how many frames are complete at t
				complete, p := 0, 0
				for _, e := range enc {
					if p+len(e) <= t {
						complete++
					}
					p += len(e)
				}
				for i := 0; i < complete; i++ {
					fx.p.Expect(enc[i])
				}
				if t > 0 {
					fx.p.SendRaw(all[:t])
				} else if !socket {
					// nothing to send: the reader is blocked in the pipe; end it
					fx.p.C.Close()
				}
				if socket {
					fx.p.Flush()
					if hc, ok := fx.sp.A.(interface{ CloseWrite() error }); ok {
						hc.CloseWrite()
					} else {
						c.Inconclusive("C17: socket pair end cannot be half-closed")
						fx.close()
						continue
					}
				}
				out, dump := quiesce.Await(fx.p.HandleDone, wd)
				det := map[string]any{"stream": streamKey(frames), "cut_at": t, "eof_with_last_bytes": with, "socket": socket, "stream_bytes": len(all), "complete_frames": complete}
				c.Case(fmt.Sprintf("trunc:%s:%d:%d", streamKey(frames), t, mode), true)
				if out != quiesce.CondMet {
					hang(c, out, dump, "C17:srv:Handle-does-not-return-after-truncated-stream", det)
					fx.close()
					continue
				}
				if socket {
					// Handle has returned, but over a socket its last replies may
					// still sit in the receive queue (a pipe hands bytes over
					// synchronously, a socket does not): let the reader drain it
					// before anything is counted
					quiesce.WaitUntil(func() bool { return false }, wd)
				}
				// replies for the complete frames ('S' frames are answered
				// under NOTAG: counted below, not matched by tag)
				got, want, nS := 0, 0, 0
				for i := 0; i < complete; i++ {
					if frames[i].kind == 'S' {
						nS++
						fx.p.Forget(tags[i], wire.Twrite)
						continue
					}
					want++
					if r, ok, _, _ := fx.p.WaitTag(tags[i], from); ok && r != nil {
						got++
					}
				}
				// the replies under NOTAG are counted, not awaited by tag: the
				// peer's reader may have taken the bytes of the last one without
				// having filed it yet (Handle's return says the bytes were handed
				// over, no more) - wait until the count is there or nothing moves
				quiesce.WaitUntil(func() bool { return fx.p.NReplies()-from >= want+nS }, wd)
				n := fx.p.NReplies() - from
				if got != want || n < want+nS {
					det["replies"] = n
					sig := "C17:srv:complete-frame-not-served-before-EOF"
					if with {
						sig = "C17:srv:complete-frame-dropped-when-EOF-arrives-with-its-last-bytes"
					}
					c.Violation(sig, det)
				}
				// A frame the receiver rejects on its header alone (unknown
				// type; a size too small for its type) may be refused as soon as
				// the header is there: that Rlerror is not a message decoded
				// from a truncated frame.
				extra := 0
				if complete < len(frames) && (frames[complete].kind == 'X' || frames[complete].kind == 'S') {
					start := 0
					for _, e := range enc[:complete] {
						start += len(e)
					}
					if t-start >= 7 {
						extra = 1
					}
				}
				if n > complete+extra {
					det["replies"] = n
					c.Violation("C17:srv:truncated-frame-yielded-a-message", det)
				}
				// no backend effect on behalf of the partial frame
				eff := 0
				for _, x := range fx.fs.Calls(ncalls) {
					switch x.Method {
					case "WriteAt", "ReadAt", "Readdir", "GetAttr", "Walk", "WalkGetAttr":
						eff++
					}
				}
				maxEff := 0
				for i := 0; i < complete; i++ {
					maxEff += 1 + len(frames[i].names)*2
				}
				if eff > maxEff {
					det["backend_calls"] = callStrs(fx.fs.Calls(ncalls))
					c.Violation("C17:srv:truncated-frame-reached-backend", det)
				}
				c.Count("truncations", 1)
				fx.close()
			}
		}
	}
}

// segConn gives a client a connection whose reads are cut.
type segConn struct {
	cr *xport.CutReader
	net.Conn
}

func (s segConn) Read(p []byte) (int, error) { return s.cr.Read(p) }

// c17Client: a real client receives segmented replies.
func c17Client(c *ev.Ctx) {
	r := c.Rand("c17cli")
	type call struct {
		kind byte
		n    int
		off  int64
	}
	calls := []call{{'R', 0, 0}, {'R', 1, 5}, {'R', 50, 3}, {'R', 3000, 1}, {'D', 300, 0}, {'G', 0, 0}, {'K', 0, 0}, {'R', 20000, 7}, {'L', 0, 0}}
	for mode := 0; mode < 2; mode++ {
		socket := mode == 1
		for ci, cal := range calls {
			if !c.Mine(ci*2 + mode + 1) {
				continue
			}
			c.Begin(fmt.Sprintf("C17 client call %c n=%d socket=%v", cal.kind, cal.n, socket))
			var fs *fakesrv.Server
			var cr *xport.CutReader
			var sp *xport.SockPair
			var conn io.ReadWriteCloser
			var segs []int // socket: relative cut offsets for the next reply
			oneByte := false
			if socket {
				var err error
				sp, err = xport.NewSockPair()
				if err != nil {
					c.Inconclusive("socketpair: " + err.Error())
					continue
				}
				fs = fakesrv.NewOn(sp.A, sp.B, nil)
				fs.Pace = func() { sp.DrainedA(5 * time.Second) }
				conn = sp.A
			} else {
				fs = fakesrv.New(nil)
				cr = xport.NewCutReader(fs.C)
				conn = segConn{cr, fs.C.(net.Conn)}
			}
			auto := fakesrv.Auto(0, 7)
			fs.Handler = func(s *fakesrv.Server, rq *fakesrv.Req) {
				if !socket || rq.Err != nil || rq.Msg.Type == wire.Tversion || rq.Msg.Type == wire.Tclunk {
					auto(s, rq)
					return
				}
				t, vals := fakesrv.Derived(rq.Msg, 1<<16)
				frame := wire.Encode(t, rq.Msg.Tag, vals...)
				// account then send in paced segments
				cs := append(append([]int(nil), segs...), len(frame))
				if oneByte {
					cs = cs[:0]
					for i := 1; i <= len(frame); i++ {
						cs = append(cs, i)
					}
				}
				prev := 0
				s.Account(frame)
				for _, k := range cs {
					if k > prev && k <= len(frame) {
						s.SendRaw(frame[prev:k])
						prev = k
					}
				}
			}
			var cl *p9.Client
			var err error
			if !ev.Watch(60*time.Second, func() { cl, err = p9.NewClient(conn, p9.WithMessageSize(1<<16)) }) || err != nil {
				c.Inconclusive(fmt.Sprintf("C17 client NewClient: %v", err))
				fs.Shutdown()
				continue
			}
			var root, f p9.File
			if !ev.Watch(60*time.Second, func() {
				root, err = cl.Attach("")
				if err == nil {
					_, f, err = root.Walk([]string{"file"})
				}
			}) || err != nil {
				c.Inconclusive(fmt.Sprintf("C17 client setup: %v", err))
				fs.Shutdown()
				continue
			}
			fid := lastNewfid(fs)
			do := func() (string, error) {
				switch cal.kind {
				case 'R':
					buf := make([]byte, cal.n)
					n, e := f.ReadAt(buf, cal.off)
					if e != nil && e != io.EOF {
						return "", e
					}
					if !bytes.Equal(buf[:n], fakesrv.Pattern(fid, uint64(cal.off), n)) {
						return "", fmt.Errorf("payload bytes differ (n=%d)", n)
					}
					return fmt.Sprintf("n=%d", n), nil
				case 'D':
					d, e := f.Readdir(0, uint32(cal.n))
					return fmt.Sprint(d), e
				case 'G':
					q, m, a, e := f.GetAttr(p9.AttrMaskAll)
					return fmt.Sprint(q, m, a), e
				case 'K':
					q, nf, e := f.Walk([]string{"x", "y", "z"})
					if e != nil {
						return "", e
					}
					nf.Close()
					// the new fid number is the client's choice (and a finalizer may
					// return another one to the pool at any time): judge the result
					// against the reply derived from the request actually sent
					rs := fs.Reqs()
					for i := len(rs) - 1; i >= 0; i-- {
						if rs[i].Err == nil && rs[i].Msg.Type == wire.Twalk {
							_, vals := fakesrv.Derived(rs[i].Msg, 1<<16)
							want := vals[0].([]wire.QID)
							if len(want) != len(q) {
								return "", fmt.Errorf("walk returned %d qids, own reply has %d", len(q), len(want))
							}
							for k := range q {
								if wQID(q[k]) != want[k] {
									return "", fmt.Errorf("walk returned qids that are not in its own reply")
								}
							}
							break
						}
					}
					return "own-reply", nil
				case 'L':
					t, e := f.Readlink()
					return t, e
				}
				return "", nil
			}
			var base string
			var berr error
			if !ev.Watch(60*time.Second, func() { base, berr = do() }) || berr != nil {
				c.Inconclusive(fmt.Sprintf("C17 client baseline call failed: %v", berr))
				fs.Shutdown()
				continue
			}
			// size of the reply stream for this call: measure via the generic reader
			replyLen := 200
			if cal.kind == 'R' {
				replyLen = 11 + cal.n
			}
			var cutsets [][]int
			if replyLen <= 80 {
				for a := 1; a < replyLen; a++ {
					cutsets = append(cutsets, []int{a})
				}
			}
			for h := 1; h <= 12 && h < replyLen; h++ {
				cutsets = append(cutsets, []int{h})
			}
			cutsets = append(cutsets, []int{4, 7, 11}, []int{7, 11}, []int{10, 12}, []int{replyLen - 1})
			for k := 0; k < c.Sz(40, 150); k++ {
				nc := 1 + r.Intn(5)
				var cs []int
				for j := 0; j < nc; j++ {
					cs = append(cs, 1+r.Intn(maxI(replyLen-1, 1)))
				}
				sort.Ints(cs)
				cutsets = append(cutsets, cs)
			}
			cutsets = append(cutsets, nil) // nil = one byte at a time
			for _, cs := range cutsets {
				oneByte = cs == nil
				if oneByte && replyLen > 4000 {
					continue
				}
				if socket {
					segs = cs
				} else {
					b := cr.Pos()
					var abs []int64
					for _, k := range cs {
						abs = append(abs, b+int64(k))
					}
					cr.SetCuts(abs)
					cr.SetOneByte(oneByte)
				}
				var got string
				var gerr error
				done := make(chan struct{})
				go func() { got, gerr = do(); close(done) }()
				out, dump := quiesce.Await(done, wd)
				pn := "generic"
				if socket {
					pn = "socket"
				}
				det := map[string]any{"call": string(cal.kind), "n": cal.n, "cuts": cs, "one_byte": oneByte, "path": pn}
				c.Case(fmt.Sprintf("cli:%c:%d:%v:%v", cal.kind, cal.n, cs, socket), true)
				if out != quiesce.CondMet {
					hang(c, out, dump, "C17:cli:call-hangs-under-segmentation:"+pn, det)
					break
				}
				if gerr != nil {
					det["err"] = gerr.Error()
					c.Violation("C17:cli:call-fails-under-segmentation:"+pn, det)
					break
				}
				if got != base {
					det["unsegmented"], det["segmented"] = cutS(base, 200), cutS(got, 200)
					c.Violation("C17:cli:result-differs-under-segmentation:"+pn, det)
				}
				c.Count("client_deliveries_"+pn, 1)
			}
			if c.WantSample() {
				c.Sample(map[string]any{"route": "client", "call": string(cal.kind), "n": cal.n, "socket": socket, "segmentations": len(cutsets)})
			}
			fs.Shutdown()
			if sp != nil {
				sp.A.Close()
				sp.Close()
			}
		}
	}
}

// c17TwoSockets: segmentation on one socket connection while ANOTHER socket
// connection of the same process receives. Connection A has only the header of
// a Twrite (its receiver waits for the body inside the vectorised read);
// connection B then receives and answers a whole frame; then A's body
// arrives. What each backend stores is what its own peer sent: whatever the
// vectorised read keeps between its attempts is not shared with other reads.
func c17TwoSockets(c *ev.Ctx) {
	defer runtime.GOMAXPROCS(runtime.GOMAXPROCS(1 + c.Shard%2)) // one P in half of the shards: recycled objects go to the very next user
	rounds := c.Sz(12, 200)
	for round := 0; round < rounds; round++ {
		if !c.Mine(round) {
			continue
		}
		c.Begin(fmt.Sprintf("C17 two sockets round %d", round))
		fxA, fxB := c17Setup(c, true), c17Setup(c, true)
		if fxA == nil || fxB == nil {
			if fxA != nil {
				fxA.close()
			}
			if fxB != nil {
				fxB.close()
			}
			continue
		}
		bad := false
		for k := 0; k < 6 && !bad; k++ {
			cutA := []int{7, 8, 7 + 16, 7 + 16 + 5}[(round+k)%4] // after the header, inside the fixed part, after it, inside the payload
			dA, dB := c17Data(round, k, 300+k*7), c17Data(round+1000, k, 200+k*3)
			offA, offB := uint64(k*1000), uint64(k*1000+500)
			frA := wire.Encode(wire.Twrite, uint16(200+k), u(10), offA, dA)
			frB := wire.Encode(wire.Twrite, uint16(300+k), u(11), offB, dB)
			fromA, fromB := fxA.p.NReplies(), fxB.p.NReplies()
			fxA.p.Expect(frA)
			fxA.p.SendRaw(frA[:cutA])
			fxA.p.Flush()
			quiesce.WaitUntil(func() bool { return false }, wd) // A's receiver waits for the rest
			fxB.p.Expect(frB)
			fxB.p.SendRaw(frB)
			if _, ok, o, d := fxB.p.WaitTag(uint16(300+k), fromB); !ok {
				hang(c, o, d, "C17:two-sockets:request-unanswered:B", nil)
				bad = true
				break
			}
			fxA.p.SendRaw(frA[cutA:])
			ra, ok, o, d := fxA.p.WaitTag(uint16(200+k), fromA)
			if !ok {
				hang(c, o, d, "C17:two-sockets:request-unanswered:A", map[string]any{"cut": cutA})
				bad = true
				break
			}
			det := map[string]any{"cut": cutA, "reply_A": ra.Msg.String()}
			gotA, gotB := fxA.w[0].Data, fxB.w[1].Data
			if ra.Msg.Type != wire.Rwrite || uint64(len(gotA)) < offA+uint64(len(dA)) || !bytes.Equal(gotA[offA:offA+uint64(len(dA))], dA) {
				c.Violation("C17:two-sockets:segmented-frame-stored-bytes-that-are-not-its-own", det)
				bad = true
			}
			if uint64(len(gotB)) < offB+uint64(len(dB)) || !bytes.Equal(gotB[offB:offB+uint64(len(dB))], dB) {
				c.Violation("C17:two-sockets:other-connection's-frame-stored-bytes-that-are-not-its-own", det)
				bad = true
			}
			c.Count("two_socket_frames", 2)
		}
		c.Case("two-sockets", true)
		fxA.close()
		fxB.close()
	}
}
