package checks

import (
	"time"

	"verif/internal/ev"
	"verif/internal/wire"
)

func init() {
	ev.Register(&ev.Spec{
		ID: "C08", Level: "exploration",
		Rule:    "lock-step raw peer(s) against a path-bound backend (handles resolve their remembered path at every call and learn renames only from Renamed, as localfs does) with inode numbers in QID.path: (a) breadth-first over ~45 requests (walk 1-3, clone, open, create, mkdir, renameat same dir / cross dir / over existing file / over directory / whole subtree / of an ancestor, rename, unlinkat, remove, clunk, re-create) from a state with fids on nested paths; (b) PRNG sequences of 150-1500 rename-heavy requests over two connections and up to 10 fids per connection. After EVERY step every live unfenced fid is probed (Tgetattr must reach the object it was bound to and the object now at the model's path), fenced fids are judged by the model (ENOENT / EINVAL without backend call), and the server's path tree is checked for internal agreement (verif hook). (c) concurrent: 2-4 connections fire batches of pipelined renameat / Trename / unlinkat / Tremove / walk / clone / mkdir / mknod / clunk at one tree (names recycled, scheduling jitter in the backend); at every quiescent point the backend's tree is the ground truth: a fid whose object is still linked must reach exactly that object and, for a directory, its children; a fid whose object was unlinked or overwritten must be fenced without a backend call; a successful Tremove removed its own object; then lock-step Trename / Tremove through old fids must act on the current name; the server's path tree is checked by the verif hook. Non-trivial: the sequence contains a rename/unlink with another live fid at or below the entry; distinct by (state hash, request).",
		Assume:  []string{"memfs path-bound handles behave like localfs", "model tracks fid paths by prefix rewriting as the statement describes", "getattr on fenced fids and readdir on fenced open directories are don't-care"},
		Shards:  shards(8, 16),
		Timeout: timeout(8*time.Minute, 60*time.Minute),
		Run:     runC08,
	})
}

func c08Alphabet() []areq {
	return []areq{
		R(wire.Twalk, u(0), u(3), []string{"a", "g"}), R(wire.Twalk, u(0), u(3), []string{"a", "b"}), R(wire.Twalk, u(1), u(3), []string{"b", "f"}), R(wire.Twalk, u(2), u(3), []string{}),
		R(wire.Twalk, u(0), u(3), []string{"d"}), R(wire.Twalk, u(0), u(4), []string{"a"}), R(wire.Twalk, u(1), u(4), []string{"g"}), R(wire.Twalk, u(3), u(4), []string{"f"}), R(wire.Twalk, u(3), u(4), []string{}),
		R(wire.Twalk, u(0), u(4), []string{"f"}), R(wire.Twalk, u(0), u(4), []string{"z", "b", "f"}), R(wire.Twalk, u(0), u(4), []string{"bb", "f"}),
		R(wire.Tlopen, u(2), u(0)), R(wire.Tlopen, u(3), u(2)), R(wire.Tlopen, u(4), u(0)),
		R(wire.Trenameat, u(1), "g", u(1), "h"), R(wire.Trenameat, u(1), "b", u(0), "bb"), R(wire.Trenameat, u(0), "a", u(0), "z"), R(wire.Trenameat, u(1), "g", u(1), "b"),
		R(wire.Trenameat, u(0), "f", u(1), "g"), R(wire.Trenameat, u(0), "d", u(1), "b"), R(wire.Trenameat, u(1), "h", u(1), "g"), R(wire.Trenameat, u(0), "d", u(1), "dd"),
		R(wire.Trenameat, u(3), "f", u(0), "top"), R(wire.Trenameat, u(0), "bb", u(1), "b"),
		// renamed onto itself, through one fid and through two fids on one directory (fid 4 may be a second fid on "a")
		R(wire.Trenameat, u(1), "g", u(1), "g"), R(wire.Trenameat, u(1), "g", u(4), "g"), R(wire.Trenameat, u(4), "b", u(1), "b"), R(wire.Trename, u(2), u(3), "f"),
		R(wire.Trename, u(2), u(0), "moved"), R(wire.Trename, u(3), u(1), "r3"), R(wire.Trename, u(4), u(0), "r4"), R(wire.Trename, u(1), u(0), "a2"),
		R(wire.Tunlinkat, u(1), "g", u(0)), R(wire.Tunlinkat, u(1), "b", u(0)), R(wire.Tunlinkat, u(0), "f", u(0)), R(wire.Tunlinkat, u(3), "f", u(0)), R(wire.Tunlinkat, u(0), "d", u(0)),
		R(wire.Tremove, u(2)), R(wire.Tremove, u(3)), R(wire.Tremove, u(4)),
		R(wire.Tlcreate, u(3), "g", u(2), u(0644), u(0)), R(wire.Tlcreate, u(4), "f", u(2), u(0644), u(0)), R(wire.Tmkdir, u(1), "g", u(0755), u(0)), R(wire.Tmkdir, u(1), "b", u(0755), u(0)), R(wire.Tmkdir, u(0), "d", u(0755), u(0)),
		R(wire.Tclunk, u(2)), R(wire.Tclunk, u(3)), R(wire.Tclunk, u(4)),
		R(wire.Tread, u(2), u(0), u(8)), R(wire.Tread, u(3), u(0), u(8)), R(wire.Twrite, u(3), u(0), []byte("w")), R(wire.Tsetattr, u(2), u(1), u(0600), u(0), u(0), u(0), u(0), u(0), u(0), u(0)),
		R(wire.Treaddir, u(4), u(0), u(4096)), R(wire.Txattrwalk, u(2), u(4), "user.x"),
	}
}

func runC08(c *ev.Ctx) {
	start := []areq{
		R(wire.Tattach, u(0), u(wire.NOFID), "u", "", u(wire.NOUID)),
		R(wire.Twalk, u(0), u(1), []string{"a"}),
		R(wire.Twalk, u(0), u(2), []string{"a", "b", "f"}),
	}
	bfs(c, "C08", start, c08Alphabet(), c.Sz(3, 4), c.Sz(6000, 200000), 4, true)
	c04Random(c, "C08", c.Sz(200, 5000), 2, true)
	c08Concurrent(c)
	c08CreateVsRename(c)
}
