package checks

import (
	"fmt"
	"sort"
	"strconv"
	"strings"

	"github.com/hugelgupf/p9/p9"

	"verif/internal/ev"
	"verif/internal/memfs"
	"verif/internal/quiesce"
	"verif/internal/rawpeer"
	"verif/internal/wire"
)

// ---- C08 under concurrency ----
//
// Several connections fire batches of pipelined renames, unlinks, walks,
// clones, creates, Trename and Tremove at one tree at the same time. The
// oracle needs no model of the interleaving: the path-bound backend IS the
// ground truth. At every quiescent point (all replies in)
//   - a fid whose object is still linked must reach exactly that object
//     (Tgetattr QID.path) and, for a directory, walking from it to a name the
//     backend has under that directory must reach that child object;
//   - a fid whose object was unlinked / overwritten is fenced: a walk to a
//     child fails with ENOENT and makes no backend call;
//   - a successful Tremove removed the object its fid denoted;
//   - then, lock-step from that concurrently produced state, Trename and
//     Tremove through old fids must act on the entry's current name.
// Hard links are not made, non-empty directories cannot be removed or replaced,
// so "object no longer linked" is equivalent to "its path was unlinked or
// overwritten".

type c8fid struct {
	obj uint64
	dir bool
}

type c8conn struct {
	s    *sess
	fids map[uint64]*c8fid
	next uint64
}

type c8truth struct {
	pathOf map[uint64]string            // linked object -> path
	kids   map[uint64]map[string]uint64 // directory object -> name -> child object
	isDir  map[uint64]bool
}

func c8Truth(fs *memfs.FS) c8truth {
	t := c8truth{map[uint64]string{}, map[uint64]map[string]uint64{}, map[uint64]bool{}}
	idAt := map[string]uint64{}
	for _, ln := range strings.Split(fs.Snapshot(), "\n") {
		f := strings.Split(ln, ":")
		if len(f) != 3 {
			continue
		}
		id, _ := strconv.ParseUint(f[1], 10, 64)
		t.pathOf[id] = f[0]
		idAt[f[0]] = id
		if f[2] == "4" {
			t.isDir[id] = true
			t.kids[id] = map[string]uint64{}
		}
		if f[0] != "" {
			i := strings.LastIndex(f[0], "/")
			if par, ok := idAt[f[0][:i]]; ok {
				t.kids[par][f[0][i+1:]] = id
			}
		}
	}
	return t
}

func c8Tree() *memfs.FS {
	fs := memfs.New()
	for t := 0; t < 3; t++ {
		for d := 0; d < 3; d++ {
			for f := 0; f < 3; f++ {
				fs.MkPath(fmt.Sprintf("/t%d/d%d/f%d", t, d, f), p9.ModeRegular|0644, "x")
			}
		}
		fs.MkPath(fmt.Sprintf("/t%d/e", t), p9.ModeDirectory|0755, "")
	}
	fs.MkPath("/t0/d0/s/deep/leaf", p9.ModeRegular|0644, "x")
	return fs
}

type c8req struct {
	conn  int
	tag   uint16
	t     uint8
	vals  []any
	fid   uint64 // subject fid (Tremove / Tclunk / Trename)
	nfid  uint64 // fid a success binds
	nsrc  uint64 // clone: source fid
	names int
	from  int
	desc  string
}

func c08Concurrent(c *ev.Ctx) {
	r := c.Rand("c08conc")
	rounds := c.Sz(24, 1500)
	for round := 0; round < rounds; round++ {
		rr := r.Fork(uint64(round))
		if !c.Mine(round) {
			continue
		}
		c08ConcRound(c, rr, round)
		if hungFlag {
			return
		}
	}
}

func c08ConcRound(c *ev.Ctx, r *ev.Rand, round int) {
	fs := c8Tree()
	fs.NoWalkGetAttr = round%2 == 0
	fs.NoLog = false
	if round%3 != 0 {
		fs.SetJitter(uint64(round)*977 + c.Seed)
	}
	srv := p9.NewServer(fs)
	nconn := 2 + round%3
	var conns []*c8conn
	defer func() {
		for _, cn := range conns {
			cn.s.P.Close()
		}
	}()
	c.Begin(fmt.Sprintf("C08 concurrent round %d", round))
	for i := 0; i < nconn; i++ {
		s, vr := newSess(srv, 1<<16, v7)
		if !vr.OK || s.attach(0, "").Errno() != 0 {
			c.Violation("C08:conc:setup-refused", map[string]any{"round": round})
			return
		}
		conns = append(conns, &c8conn{s: s, fids: map[uint64]*c8fid{}, next: 1})
	}
	truth := c8Truth(fs)
	rootObj := uint64(0)
	for id, p := range truth.pathOf {
		if p == "" {
			rootObj = id
		}
	}
	for _, cn := range conns {
		cn.fids[0] = &c8fid{rootObj, true}
	}
	var trace []string
	note := func(s string) {
		trace = append(trace, s)
		if len(trace) > 400 {
			trace = trace[len(trace)-400:]
		}
	}
	viol := func(sig string, det map[string]any) {
		det["round"], det["trace_tail"] = round, append([]string(nil), trace[maxI(0, len(trace)-80):]...)
		det["tree"] = strings.Split(fs.Snapshot(), "\n")
		c.Violation("C08:conc:"+sig, det)
	}
	// sorted helpers for determinism
	fidList := func(cn *c8conn, want func(*c8fid) bool) []uint64 {
		var l []uint64
		for f, x := range cn.fids {
			if want == nil || want(x) {
				l = append(l, f)
			}
		}
		sort.Slice(l, func(i, j int) bool { return l[i] < l[j] })
		return l
	}
	kidNames := func(t c8truth, obj uint64) []string {
		var l []string
		for n := range t.kids[obj] {
			l = append(l, n)
		}
		sort.Strings(l)
		return l
	}
	namePool := []string{"f0", "f1", "f2", "n0", "n1", "d0", "d1", "e", "s", "m0", "m1"}

	batches := c.Sz(10, 30)
	sawAffecting := false
	for b := 0; b < batches; b++ {
		truth = c8Truth(fs)
		// ---- generate a batch from the current ground truth ----
		var reqs []*c8req
		for ci, cn := range conns {
			k := 2 + r.Intn(5)
			for j := 0; j < k; j++ {
				q := &c8req{conn: ci}
				dirs := fidList(cn, func(x *c8fid) bool { return x.dir })
				all := fidList(cn, nil)
				pickDir := func() (uint64, *c8fid) {
					f := dirs[r.Intn(len(dirs))]
					return f, cn.fids[f]
				}
				nameIn := func(x *c8fid) string {
					ks := kidNames(truth, x.obj)
					if len(ks) > 0 && r.Intn(5) != 0 {
						return ks[r.Intn(len(ks))]
					}
					return namePool[r.Intn(len(namePool))]
				}
				switch op := r.Intn(14); {
				case op < 3 || len(all) < 4: // walk to a child / deeper
					f, x := pickDir()
					names := []string{nameIn(x)}
					if ch, ok := truth.kids[x.obj][names[0]]; ok && truth.isDir[ch] && r.Intn(2) == 0 {
						if ks := kidNames(truth, ch); len(ks) > 0 {
							names = append(names, ks[r.Intn(len(ks))])
						}
					}
					cn.next++
					q.t, q.vals, q.nfid, q.names = wire.Twalk, []any{u(f), u(cn.next), names}, cn.next, len(names)
				case op == 3: // clone
					f := all[r.Intn(len(all))]
					cn.next++
					q.t, q.vals, q.nfid, q.nsrc = wire.Twalk, []any{u(f), u(cn.next), []string{}}, cn.next, f
				case op < 7: // renameat
					f, x := pickDir()
					f2, x2 := pickDir()
					n1, n2 := nameIn(x), nameIn(x2)
					if r.Intn(4) == 0 {
						// an entry renamed onto itself, if possible through two
						// fids on one directory: nothing changes, nothing is fenced
						for _, o := range dirs {
							if o != f && cn.fids[o].obj == x.obj {
								f2 = o
							}
						}
						if cn.fids[f2].obj != x.obj {
							f2 = f
						}
						n2 = n1
					}
					q.t, q.vals = wire.Trenameat, []any{u(f), n1, u(f2), n2}
				case op == 7: // unlinkat
					f, x := pickDir()
					q.t, q.vals = wire.Tunlinkat, []any{u(f), nameIn(x), u(0)}
				case op == 8: // mkdir / create-by-mknod: new entries under recycled names
					f, _ := pickDir()
					nm := namePool[r.Intn(len(namePool))]
					if r.Intn(2) == 0 {
						q.t, q.vals = wire.Tmkdir, []any{u(f), nm, u(0755), u(0)}
					} else {
						q.t, q.vals = wire.Tmknod, []any{u(f), nm, u(0100644), u(0), u(0), u(0)}
					}
				case op < 11: // Trename through a fid
					f := all[r.Intn(len(all))]
					if f == 0 {
						f = all[len(all)-1]
					}
					f2, _ := pickDir()
					q.t, q.vals, q.fid = wire.Trename, []any{u(f), u(f2), namePool[r.Intn(len(namePool))]}, f
				case op == 11: // Tremove
					f := all[len(all)-1-r.Intn(minI(3, len(all)))]
					if f == 0 {
						continue
					}
					q.t, q.vals, q.fid = wire.Tremove, []any{u(f)}, f
				case op == 12: // clunk
					f := all[r.Intn(len(all))]
					if f == 0 {
						continue
					}
					q.t, q.vals, q.fid = wire.Tclunk, []any{u(f)}, f
				default: // getattr traffic
					f := all[r.Intn(len(all))]
					q.t, q.vals = wire.Tgetattr, []any{u(f), u(0x3fff)}
				}
				// one outstanding request per subject fid per batch for the
				// unbinding kinds (two Tremoves of one fid prove nothing)
				dup := false
				for _, o := range reqs {
					if o.conn == ci && q.fid != 0 && o.fid == q.fid && (o.t == wire.Tremove || o.t == wire.Tclunk || q.t == wire.Tremove || q.t == wire.Tclunk) {
						dup = true
					}
				}
				if dup {
					continue
				}
				q.desc = fmt.Sprintf("c%d %s", ci, wire.Msg{Type: q.t, F: q.vals}.String())
				reqs = append(reqs, q)
			}
		}
		// ---- fire: every connection pipelines its requests, all at once ----
		order := r.Perm(len(reqs))
		for _, i := range order {
			q := reqs[i]
			p := conns[q.conn].s.P
			q.tag = p.Tag()
			q.from = p.NReplies()
		}
		for _, i := range order {
			q := reqs[i]
			conns[q.conn].s.P.Send(q.t, q.tag, q.vals...)
		}
		removed := map[uint64]string{} // object -> request that reported removing it
		for _, i := range order {
			q := reqs[i]
			cn := conns[q.conn]
			rp, ok, out, dump := cn.s.P.WaitTag(q.tag, q.from)
			if !ok {
				if out == quiesce.CondMet {
					viol("connection-ended", map[string]any{"request": q.desc})
				} else {
					hang(c, out, dump, "C08:conc:request-never-answered", map[string]any{"request": q.desc, "round": round})
				}
				return
			}
			note(q.desc + " -> " + rp.Msg.String())
			okReply := rp.Msg.Type != wire.Rlerror
			switch q.t {
			case wire.Twalk:
				if okReply {
					qids := rp.Msg.F[0].([]wire.QID)
					switch {
					case q.names == 0:
						if src := cn.fids[q.nsrc]; src != nil {
							cn.fids[q.nfid] = &c8fid{src.obj, src.dir}
						} else {
							// source was unbound by a request of the same batch
							// answered earlier; binding exists but its object is
							// unknown to the harness: drop it
							cn.s.clunk(q.nfid)
						}
					case len(qids) == q.names:
						last := qids[len(qids)-1]
						cn.fids[q.nfid] = &c8fid{last.Path, last.Type&0x80 != 0}
					}
				}
			case wire.Tremove:
				if x := cn.fids[q.fid]; x != nil && okReply {
					removed[x.obj] = q.desc
				}
				delete(cn.fids, q.fid)
			case wire.Tclunk:
				delete(cn.fids, q.fid)
			}
		}
		c.Count("concurrent_requests", int64(len(reqs)))
		// ---- quiescent: judge against the backend's tree ----
		truth = c8Truth(fs)
		for obj, by := range removed {
			if p, linked := truth.pathOf[obj]; linked {
				viol("Tremove-succeeded-but-its-object-is-still-linked", map[string]any{"request": by, "object": obj, "path": p})
				return
			}
		}
		if msg := verifTree(srv); msg != "" {
			viol("server-path-tree-inconsistent", map[string]any{"hook": msg})
			return
		}
		for ci, cn := range conns {
			for _, f := range fidList(cn, nil) {
				x := cn.fids[f]
				path, linked := truth.pathOf[x.obj]
				if linked {
					g := cn.s.getattr(f)
					ino, ok := getattrIno(g)
					if !g.OK {
						hang(c, g.Out, g.Dump, "C08:conc:probe-never-answered", nil)
						return
					}
					if !ok || ino != x.obj {
						viol("fid-no-longer-reaches-the-object-it-was-bound-to", map[string]any{"conn": ci, "fid": f, "object": x.obj, "object_path_now": path, "getattr": g.Msg.String()})
						return
					}
					c.Count("identity_probes", 1)
					if x.dir {
						ks := kidNames(truth, x.obj)
						if len(ks) > 0 {
							nm := ks[r.Intn(len(ks))]
							w := cn.s.walk(f, 9000, nm)
							if !w.OK {
								hang(c, w.Out, w.Dump, "C08:conc:probe-never-answered", nil)
								return
							}
							if w.Msg.Type != wire.Rwalk || len(w.Msg.F[0].([]wire.QID)) != 1 || w.Msg.F[0].([]wire.QID)[0].Path != truth.kids[x.obj][nm] {
								viol("walk-from-a-moved-directory-fid-misses-its-child", map[string]any{"conn": ci, "fid": f, "dir_object": x.obj, "dir_path_now": path, "child": nm, "child_object": truth.kids[x.obj][nm], "reply": w.Msg.String()})
								return
							}
							cn.s.clunk(9000)
							c.Count("child_probes", 1)
						}
					}
				} else {
					sawAffecting = true
					mark := fs.TotalCalls()
					var w rawpeer.Result
					want := int64(ENOENT)
					if x.dir {
						w = cn.s.walk(f, 9000, "f0")
					} else {
						// a path-dependent operation through a fenced file fid
						w, want = cn.s.rename(f, 0, "fenced-probe"), EINVAL
					}
					if !w.OK {
						hang(c, w.Out, w.Dump, "C08:conc:probe-never-answered", nil)
						return
					}
					if w.Errno() != want || fs.TotalCalls() != mark {
						viol("fid-of-an-unlinked-object-is-not-fenced", map[string]any{"conn": ci, "fid": f, "object": x.obj, "directory": x.dir, "reply": w.Msg.String(), "backend_calls": fs.TotalCalls() - mark})
						if w.Errno() == 0 && x.dir {
							cn.s.clunk(9000)
						}
						return
					}
					c.Count("fence_probes", 1)
					if r.Intn(3) == 0 {
						cn.s.clunk(f)
						delete(cn.fids, f)
					}
				}
			}
		}
		// ---- lock-step epilogue: current-name use through old fids ----
		for ci, cn := range conns {
			fl := fidList(cn, func(x *c8fid) bool { _, l := truth.pathOf[x.obj]; return l && x.obj != rootObj })
			if len(fl) == 0 {
				continue
			}
			f := fl[r.Intn(len(fl))]
			x := cn.fids[f]
			dirs := fidList(cn, func(y *c8fid) bool {
				p, l := truth.pathOf[y.obj]
				return l && y.dir && !strings.HasPrefix(p+"/", truth.pathOf[x.obj]+"/")
			})
			if len(dirs) == 0 {
				continue
			}
			d := dirs[r.Intn(len(dirs))]
			nm := fmt.Sprintf("ep%d_%d", b, ci)
			if r.Intn(3) == 0 {
				res := cn.s.remove(f)
				note(fmt.Sprintf("c%d epilogue Tremove(%d) -> %s", ci, f, res.Msg.String()))
				delete(cn.fids, f)
				t2 := c8Truth(fs)
				if _, still := t2.pathOf[x.obj]; res.Errno() == 0 && still {
					viol("epilogue:Tremove-succeeded-but-its-object-is-still-linked", map[string]any{"conn": ci, "fid": f, "object": x.obj})
					return
				}
				if res.Errno() == 0 && len(t2.pathOf) != len(truth.pathOf)-1 {
					viol("epilogue:Tremove-changed-more-than-one-entry", map[string]any{"conn": ci, "fid": f})
					return
				}
				truth = t2
			} else {
				res := cn.s.rename(f, d, nm)
				note(fmt.Sprintf("c%d epilogue Trename(%d -> %d %q) -> %s", ci, f, d, nm, res.Msg.String()))
				t2 := c8Truth(fs)
				want := truth.pathOf[cn.fids[d].obj] + "/" + nm
				if res.Errno() == 0 && t2.pathOf[x.obj] != want {
					viol("epilogue:Trename-did-not-move-the-object-its-fid-denotes", map[string]any{"conn": ci, "fid": f, "object": x.obj, "was_at": truth.pathOf[x.obj], "now_at": t2.pathOf[x.obj], "wanted": want})
					return
				}
				if res.Errno() != 0 {
					viol("epilogue:Trename-of-a-linked-object-refused", map[string]any{"conn": ci, "fid": f, "object": x.obj, "path": truth.pathOf[x.obj], "reply": res.Msg.String()})
					return
				}
				truth = t2
			}
			c.Count("epilogue_renames_removes", 1)
		}
	}
	if lv := fs.LifecycleViolations(false); len(lv) > 0 {
		viol("backend-lifecycle", map[string]any{"monitor": lv[:minI(3, len(lv))]})
	}
	c.Case(fmt.Sprintf("conc:r%d:c%d", round, nconn), sawAffecting)
}

func verifTree(srv *p9.Server) string {
	if err := p9.VerifTreeCheck(srv); err != nil {
		return err.Error()
	}
	return ""
}

var _ = rawpeer.Watchdog
