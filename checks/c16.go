package checks

import (
	"errors"
	"fmt"
	"io"
	"net"
	"sort"
	"strings"
	"sync"
	"sync/atomic"
	"time"

	"github.com/hugelgupf/p9/linux"
	"github.com/hugelgupf/p9/p9"

	"verif/internal/ev"
	"verif/internal/memfs"
	"verif/internal/quiesce"
	"verif/internal/wire"
	"verif/internal/xport"
)

func init() {
	ev.Register(&ev.Spec{
		ID: "C16", Level: "exploration",
		Rule:            "G in {2,4,16,64} goroutines drive real clients over K in {1,2,4,8} connections (net.Pipe and AF_UNIX socket pairs) to one server over memfs with seeded scheduling perturbation at every backend enter/exit, one request outstanding per fid, under the Go race detector (both tiers): (i) disjoint subtrees - each goroutine runs a seeded script (create/write/read/mkdir/walk/clone/readdir/getattr/setattr/renameat same and cross directory/rename/unlinkat/remove/clunk) inside /gN and its step-by-step results (errnos, data, names, sizes, object identities canonicalised by first appearance) must equal those of the same script run alone on a fresh server; (ii) shared directory - cross- and same-directory renames, unlinks of entries other clients hold, clones, creates on few names: completion and race-freedom, with the C07 overlap monitor on. (iii) renamed-vs-drop: the Renamed notification of a fid 1-4 levels below a renamed directory is parked by a gate while that fid's table reference is dropped by Tclunk / Tremove / a walk onto its number / its connection ending (with and without fids on the directories in between): everything is answered, the File is closed once and after Renamed. Every request must be answered: a wait that ends with the process parked is a deadlock (witness: dump), one that ends with library goroutines spinning a livelock. Non-trivial: >= 2 requests were inside the backend simultaneously (measured); distinct by workload shape and enter-order signature.",
		Assume:          []string{"race reports with a frame under /repo are violations; reports entirely in harness code break the check", "memfs is linearizable by its own mutex"},
		Shards:          shards(8, 16),
		Race:            raceIn("quick", "thorough"),
		RaceIsViolation: true,
		Timeout:         timeout(10*time.Minute, 90*time.Minute),
		Run:             runC16,
	})
}

type c16res struct {
	op  string
	out string
}

// canon canonicalises object identities by first appearance.
type canon struct{ m map[uint64]int }

func (c *canon) id(p uint64) int {
	if c.m == nil {
		c.m = map[uint64]int{}
	}
	if v, ok := c.m[p]; ok {
		return v
	}
	c.m[p] = len(c.m) + 1
	return c.m[p]
}

func eno(err error) string {
	if err == nil {
		return "ok"
	}
	if err == io.EOF {
		return "EOF"
	}
	var le linux.Errno
	if errors.As(err, &le) {
		return fmt.Sprintf("E%d", int(le))
	}
	return "err:" + err.Error()
}

// c16Script runs a seeded script inside dir (a client File on the subtree
// root) and returns its observations.
func c16Script(root p9.File, seed uint64, steps int) []c16res {
	r := ev.NewRand(seed)
	var out []c16res
	cn := &canon{}
	add := func(op, res string) { out = append(out, c16res{op, res}) }
	names := []string{"a", "b", "c", "d", "e"}
	dirs := []string{"", "sub"}
	// a subdirectory to rename across
	_, err := root.Mkdir("sub", 0755, 0, 0)
	add("mkdir sub", eno(err))
	walkTo := func(parts ...string) (p9.File, error) {
		_, f, err := root.Walk(parts)
		return f, err
	}
	path := func(d, n string) []string {
		if d == "" {
			return []string{n}
		}
		return []string{d, n}
	}
	for i := 0; i < steps; i++ {
		n := ev.Pick(r, names)
		d := ev.Pick(r, dirs)
		switch r.Intn(12) {
		case 0, 1: // create + write + read back
			dir := root
			var derr error
			if d != "" {
				dir, derr = walkTo(d)
			} else {
				_, dir, derr = root.Walk(nil)
			}
			if derr != nil {
				add("walk "+d, eno(derr))
				continue
			}
			f, q, _, err := dir.Create(n, p9.ReadWrite, 0644, 0, 0)
			if err != nil {
				add("create "+d+"/"+n, eno(err))
				dir.Close()
				continue
			}
			data := []byte(fmt.Sprintf("%d-%d-%s", seed, i, n))
			wn, werr := f.WriteAt(data, 0)
			buf := make([]byte, 64)
			rn, rerr := f.ReadAt(buf, 0)
			// and once more at the end of the file: a read that delivers nothing
			en, eerr := f.ReadAt(make([]byte, 16), int64(maxI(rn, 0)))
			add("create+rw "+d+"/"+n, fmt.Sprintf("q%d w%d:%s r%q:%s eof%d:%s", cn.id(q.Path), wn, eno(werr), buf[:rn], eno(rerr), en, eno(eerr)))
			f.Close()
		case 2: // read existing
			f, err := walkTo(path(d, n)...)
			if err != nil {
				add("walk "+d+"/"+n, eno(err))
				continue
			}
			_, _, oerr := f.Open(p9.ReadOnly)
			buf := make([]byte, 64)
			rn, rerr := f.ReadAt(buf, 0)
			en, eerr := f.ReadAt(make([]byte, 16), int64(maxI(rn, 0)))
			add("open+read "+d+"/"+n, fmt.Sprintf("%s %q:%s eof%d:%s", eno(oerr), buf[:maxI(rn, 0)], eno(rerr), en, eno(eerr)))
			f.Close()
		case 3: // getattr
			f, err := walkTo(path(d, n)...)
			if err != nil {
				add("walk "+d+"/"+n, eno(err))
				continue
			}
			q, _, a, gerr := f.GetAttr(p9.AttrMaskAll)
			// and the xattr requests: Txattrwalk binds a fid of its own next to
			// this one, while others rename and unlink around it
			xv, xerr := f.GetXattr("user.x")
			xl, lerr := f.ListXattrs()
			add("getattr "+d+"/"+n, fmt.Sprintf("q%d size%d %s xattr%q:%s list%d:%s", cn.id(q.Path), a.Size, eno(gerr), xv, eno(xerr), len(xl), eno(lerr)))
			f.Close()
		case 4: // setattr size
			f, err := walkTo(path(d, n)...)
			if err != nil {
				add("walk "+d+"/"+n, eno(err))
				continue
			}
			serr := f.SetAttr(p9.SetAttrMask{Size: true}, p9.SetAttr{Size: uint64(r.Intn(20))})
			add("truncate "+d+"/"+n, eno(serr))
			f.Close()
		case 5: // readdir
			dir, err := walkTo(path(d, "")[:b2i(d != "")]...)
			if d == "" {
				_, dir, err = root.Walk(nil)
			}
			if err != nil {
				add("walk "+d, eno(err))
				continue
			}
			_, _, oerr := dir.Open(p9.ReadOnly)
			ents, rerr := dir.Readdir(0, 4096)
			var ns []string
			for _, e := range ents {
				ns = append(ns, e.Name)
			}
			sort.Strings(ns)
			add("readdir "+d, fmt.Sprintf("%s %v %s", eno(oerr), ns, eno(rerr)))
			dir.Close()
		case 6: // renameat (same or cross directory)
			d2 := ev.Pick(r, dirs)
			n2 := ev.Pick(r, names)
			var from, to p9.File
			var e1, e2 error
			if d == "" {
				_, from, e1 = root.Walk(nil)
			} else {
				from, e1 = walkTo(d)
			}
			if d2 == "" {
				_, to, e2 = root.Walk(nil)
			} else {
				to, e2 = walkTo(d2)
			}
			if e1 != nil || e2 != nil {
				add("walk dirs", eno(e1)+eno(e2))
				if from != nil {
					from.Close()
				}
				if to != nil {
					to.Close()
				}
				continue
			}
			err := from.RenameAt(n, to, n2)
			add(fmt.Sprintf("renameat %s/%s -> %s/%s", d, n, d2, n2), eno(err))
			from.Close()
			to.Close()
		case 7: // rename via the file's own fid, then use the fid
			f, err := walkTo(path(d, n)...)
			if err != nil {
				add("walk "+d+"/"+n, eno(err))
				continue
			}
			_, to, e2 := root.Walk(nil)
			if e2 != nil {
				f.Close()
				continue
			}
			n2 := ev.Pick(r, names)
			rerr := f.Rename(to, n2)
			q, _, _, gerr := f.GetAttr(p9.AttrMaskAll)
			add(fmt.Sprintf("rename %s/%s -> /%s", d, n, n2), fmt.Sprintf("%s then getattr q%d %s", eno(rerr), cn.id(q.Path), eno(gerr)))
			to.Close()
			f.Close()
		case 8: // unlinkat
			var dir p9.File
			var err error
			if d == "" {
				_, dir, err = root.Walk(nil)
			} else {
				dir, err = walkTo(d)
			}
			if err != nil {
				add("walk "+d, eno(err))
				continue
			}
			uerr := dir.UnlinkAt(n, 0)
			add("unlinkat "+d+"/"+n, eno(uerr))
			dir.Close()
		case 9: // clone + walk 2
			_, c1, err := root.Walk(nil)
			if err != nil {
				add("clone", eno(err))
				continue
			}
			qs, f, werr := c1.Walk([]string{"sub", n})
			if werr == nil {
				f.Close()
			}
			add("clone+walk sub/"+n, fmt.Sprintf("%d %s", len(qs), eno(werr)))
			c1.Close()
		case 10: // mkdir + create inside + remove
			_, err := root.Mkdir("m"+n, 0755, 0, 0)
			add("mkdir m"+n, eno(err))
		default: // remove through the fid
			f, err := walkTo(path(d, n)...)
			if err != nil {
				add("walk "+d+"/"+n, eno(err))
				continue
			}
			type remover interface{ Remove() error }
			add("remove "+d+"/"+n, eno(f.(remover).Remove()))
		}
	}
	return out
}

type c16conn struct {
	cl   *p9.Client
	conn net.Conn
	hd   chan struct{}
	sp   *xport.SockPair
}

func c16Connect(srv *p9.Server, socket bool) (*c16conn, error) {
	cn := &c16conn{hd: make(chan struct{})}
	var cc, sc net.Conn
	if socket {
		sp, err := xport.NewSockPair()
		if err != nil {
			return nil, err
		}
		cn.sp = sp
		cc, sc = sp.A, sp.B
	} else {
		cc, sc = net.Pipe()
	}
	cn.conn = cc
	go func() { srv.Handle(sc, sc); close(cn.hd) }()
	var err error
	if !ev.Watch(wd, func() { cn.cl, err = p9.NewClient(cc, p9.WithMessageSize(1<<16)) }) {
		return nil, fmt.Errorf("NewClient watchdog")
	}
	return cn, err
}

func (cn *c16conn) close() (quiesce.Outcome, []quiesce.G) {
	cn.conn.Close()
	o, d := quiesce.Await(cn.hd, wd)
	if cn.sp != nil {
		cn.sp.Close()
	}
	return o, d
}

// c16Renegotiate: Tversion may be sent again in mid-session. It names no fid,
// so a client that keeps one request outstanding per fid may have it in flight
// together with reads - and even a strictly sequential client makes the
// server's per-connection buffers change hands between a reply's last byte and
// that reply's clean-up. Race detector on; the replies must stay intact.
func c16Renegotiate(c *ev.Ctx) {
	rounds := c.Sz(10, 120)
	for round := 0; round < rounds; round++ {
		if !c.Mine(round) {
			continue
		}
		hungFlag = false
		c.Begin(fmt.Sprintf("C16 renegotiate %d", round))
		fs := memfs.New()
		n := fs.MkPath("/s", p9.ModeRegular|0644, "")
		n.Synth, n.SynthSz = true, 1<<20
		srv := p9.NewServer(fs)
		s, vr := newSess(srv, 1<<16, v7)
		ok := vr.OK && s.attach(0, "").Errno() == 0 && s.walk(0, 1, "s").Errno() == 0 && s.open(1, 0).Errno() == 0 && s.walk(0, 2, "s").Errno() == 0 && s.open(2, 0).Errno() == 0
		if !ok {
			c.Inconclusive("C16 renegotiate setup")
			s.P.Close()
			continue
		}
		bad := func(what string, det map[string]any) {
			c.Violation("C16:renegotiate:"+what, det)
		}
		sizes := []uint32{1 << 16, 1 << 15, 1 << 17, 8192}
		for i := 0; i < c.Sz(200, 800); i++ {
			ms := sizes[i%4]
			if round%2 == 0 {
				// strictly sequential
				r := s.read(1, uint64(i), 3000)
				if !r.OK {
					hang(c, r.Out, r.Dump, "C16:renegotiate:read-unanswered", nil)
					break
				}
				if r.Msg.Type == wire.Rread {
					for k, b := range r.Msg.F[0].([]byte) {
						if b != memfs.SynthByte(n.ID, uint64(i)+uint64(k)) {
							bad("read-reply-damaged", map[string]any{"at": k})
							break
						}
					}
				}
				if v := s.P.Version(ms, v7); !v.OK {
					hang(c, v.Out, v.Dump, "C16:renegotiate:Tversion-unanswered", nil)
					break
				}
			} else {
				// Tversion in flight together with reads on two fids
				from := s.P.NReplies()
				s.P.Send(wire.Tread, 900, u(1), u(uint64(i)), u(3000))
				s.P.Send(wire.Tversion, 901, u(uint64(ms)), v7)
				s.P.Send(wire.Tread, 902, u(2), u(uint64(i)), u(2000))
				tags := []uint16{900, 901, 902}
				if i%3 == 0 {
					// and a second Tversion: it names no fid either
					s.P.Send(wire.Tversion, 903, u(uint64(ms)), v7)
					tags = append(tags, 903)
				}
				dead := false
				for _, tag := range tags {
					r, got, o, d := s.P.WaitTag(tag, from)
					if !got {
						hang(c, o, d, "C16:renegotiate:request-unanswered", tag)
						dead = true
						break
					}
					if r.Msg.Type == wire.Rread {
						for k, b := range r.Msg.F[0].([]byte) {
							if b != memfs.SynthByte(n.ID, uint64(i)+uint64(k)) {
								bad("read-reply-damaged", map[string]any{"at": k, "tag": tag})
								break
							}
						}
					}
				}
				if dead {
					break
				}
			}
		}
		s.P.Monitor()
		if o, d := s.P.Close(); o != quiesce.CondMet {
			hang(c, o, d, "C16:renegotiate:Handle-does-not-return", nil)
		}
		c.Case(fmt.Sprintf("renegotiate:%d", round%2), true)
		c.Count("renegotiations", int64(c.Sz(200, 800)))
	}
}

func runC16(c *ev.Ctx) {
	c16Renegotiate(c)
	c16RenamedVsDrop(c)
	if hungFlag {
		return
	}
	r := c.Rand("c16")
	shapes := []struct{ G, K int }{{2, 1}, {2, 2}, {4, 1}, {4, 4}, {16, 2}, {16, 8}, {64, 4}, {64, 8}, {4, 2}, {16, 1}}
	rounds := c.Sz(16, 80)
	idx := 0
	for round := 0; round < rounds; round++ {
		for si, sh := range shapes {
			idx++
			if !c.Mine(idx) {
				continue
			}
			seed := r.Fork(uint64(idx)).U64()
			steps := c.Sz(40, 120)
			if sh.G >= 64 {
				steps = c.Sz(15, 60)
			}
			c16Disjoint(c, sh.G, sh.K, seed, steps, (si+round)%2 == 1)
			c16Shared(c, sh.G, sh.K, seed+1, steps, (si+round)%2 == 0)
		}
	}
}

func c16Disjoint(c *ev.Ctx, G, K int, seed uint64, steps int, socket bool) {
	hungFlag = false
	c.Begin(fmt.Sprintf("C16 disjoint G=%d K=%d seed=%d socket=%v", G, K, seed, socket))
	// reference: every script alone, on its own fresh server
	want := make([][]c16res, G)
	for g := 0; g < G; g++ {
		fs := memfs.New()
		fs.MkPath(fmt.Sprintf("/g%d", g), p9.ModeDirectory|0755, "")
		srv := p9.NewServer(fs)
		cn, err := c16Connect(srv, false)
		if err != nil {
			c.Inconclusive("C16 reference connect: " + err.Error())
			return
		}
		done := make(chan struct{})
		go func() {
			defer close(done)
			root, err := cn.cl.Attach(fmt.Sprintf("g%d", g))
			if err != nil {
				return
			}
			want[g] = c16Script(root, seed+uint64(g)*7919, steps)
			root.Close()
		}()
		if o, d := quiesce.Await(done, 4*wd); o != quiesce.CondMet {
			hang(c, o, d, "C16:script-alone-does-not-complete", nil)
			return
		}
		cn.close()
	}
	// concurrent run on one shared server
	fs := memfs.New()
	for g := 0; g < G; g++ {
		fs.MkPath(fmt.Sprintf("/g%d", g), p9.ModeDirectory|0755, "")
	}
	fs.SetJitter(seed | 1)
	fs.NoLog = true
	srv := p9.NewServer(fs)
	var conns []*c16conn
	for k := 0; k < K; k++ {
		cn, err := c16Connect(srv, socket)
		if err != nil {
			c.Inconclusive("C16 connect: " + err.Error())
			return
		}
		conns = append(conns, cn)
	}
	got := make([][]c16res, G)
	var wg sync.WaitGroup
	for g := 0; g < G; g++ {
		wg.Add(1)
		go func(g int) {
			defer wg.Done()
			root, err := conns[g%K].cl.Attach(fmt.Sprintf("g%d", g))
			if err != nil {
				got[g] = []c16res{{"attach", eno(err)}}
				return
			}
			got[g] = c16Script(root, seed+uint64(g)*7919, steps)
			root.Close()
		}(g)
	}
	done := make(chan struct{})
	go func() { wg.Wait(); close(done) }()
	det := map[string]any{"goroutines": G, "connections": K, "socket": socket, "seed": seed}
	if o, d := quiesce.Await(done, 6*wd); o != quiesce.CondMet {
		hang(c, o, d, "C16:disjoint:request-never-answered", det)
		return
	}
	for _, cn := range conns {
		if o, d := cn.close(); o != quiesce.CondMet {
			hang(c, o, d, "C16:disjoint:Handle-does-not-return", det)
		}
	}
	for g := 0; g < G; g++ {
		if len(got[g]) != len(want[g]) {
			c.Violation("C16:isolation:client-on-its-own-subtree-observes-different-results", map[string]any{"goroutine": g, "steps_alone": len(want[g]), "steps_concurrent": len(got[g]), "shape": det})
			continue
		}
		for i := range got[g] {
			if got[g][i] != want[g][i] {
				c.Violation("C16:isolation:client-on-its-own-subtree-observes-different-results", map[string]any{"goroutine": g, "step": i, "operation": got[g][i].op, "alone": want[g][i].out, "concurrent": got[g][i].out, "shape": det})
				break
			}
		}
	}
	mx, mean := fs.Concurrency()
	c.Case(fmt.Sprintf("disjoint:%d:%d:%v:%d", G, K, socket, seed%8), mx >= 2)
	c.Max("max_simultaneous_backend_calls", int64(mx))
	c.Count("backend_calls_total", fs.TotalCalls())
	c.Count("script_steps_compared", int64(G*steps))
	if c.WantSample() {
		c.Sample(map[string]any{"mix": "disjoint subtrees", "goroutines": G, "connections": K, "socket": socket, "max_simultaneous_backend_calls": mx, "mean": fmt.Sprintf("%.2f", mean), "first_steps_g0": fmt.Sprint(got[0][:minI(4, len(got[0]))])})
	}
}

func c16Shared(c *ev.Ctx, G, K int, seed uint64, steps int, socket bool) {
	hungFlag = false
	c.Begin(fmt.Sprintf("C16 shared G=%d K=%d seed=%d socket=%v", G, K, seed, socket))
	fs := memfs.New()
	fs.MkPath("/shared/x/deep", p9.ModeDirectory|0755, "")
	fs.MkPath("/shared/y", p9.ModeDirectory|0755, "")
	for _, n := range []string{"a", "b", "c"} {
		fs.MkPath("/shared/"+n, p9.ModeRegular|0644, "data-"+n)
		fs.MkPath("/shared/x/"+n, p9.ModeRegular|0644, "data-x"+n)
	}
	fs.SetJitter(seed | 1)
	fs.NoLog = true
	fs.Recursive = seed%2 == 0
	srv := p9.NewServer(fs)
	var conns []*c16conn
	for k := 0; k < K; k++ {
		cn, err := c16Connect(srv, socket)
		if err != nil {
			c.Inconclusive("C16 connect: " + err.Error())
			return
		}
		conns = append(conns, cn)
	}
	var efaults int64
	var wg sync.WaitGroup
	for g := 0; g < G; g++ {
		wg.Add(1)
		go func(g int) {
			defer wg.Done()
			r := ev.NewRand(seed + uint64(g)*31)
			root, err := conns[g%K].cl.Attach("shared")
			if err != nil {
				return
			}
			defer root.Close()
			names := []string{"a", "b", "c", "n1"}
			dirs := [][]string{{}, {"x"}, {"y"}, {"x", "deep"}}
			var held []p9.File
			for i := 0; i < steps; i++ {
				d := ev.Pick(r, dirs)
				n := ev.Pick(r, names)
				_, dir, err := root.Walk(d)
				if err != nil {
					continue
				}
				switch r.Intn(10) {
				case 0, 1:
					if _, f, err := dir.Walk([]string{n}); err == nil {
						held = append(held, f) // hold entries others may unlink or rename
					}
				case 2:
					d2 := ev.Pick(r, dirs)
					if _, to, err := root.Walk(d2); err == nil {
						dir.RenameAt(n, to, ev.Pick(r, names))
						to.Close()
					}
				case 3:
					dir.UnlinkAt(n, 0)
				case 4:
					if _, f2, err := dir.Walk(nil); err == nil {
						if f, _, _, err := f2.Create(n, p9.ReadWrite, 0644, 0, 0); err == nil {
							f.WriteAt([]byte("w"), 0)
						}
						f2.Close()
					}
				case 5:
					if len(held) > 0 {
						f := held[r.Intn(len(held))]
						f.GetAttr(p9.AttrMaskAll)
						// Txattrwalk binds a fid next to this one while others
						// rename the entry: no request of this mix may be
						// answered EFAULT (nothing in the backend panics)
						if _, xerr := f.GetXattr("user.x"); errors.Is(xerr, linux.EFAULT) {
							atomic.AddInt64(&efaults, 1)
						}
						if _, lerr := f.ListXattrs(); errors.Is(lerr, linux.EFAULT) {
							atomic.AddInt64(&efaults, 1)
						}
					}
				case 6:
					if len(held) > 0 {
						k := r.Intn(len(held))
						held[k].Close()
						held = append(held[:k], held[k+1:]...)
					}
				case 7:
					if len(held) > 0 {
						if _, to, err := root.Walk(ev.Pick(r, dirs)); err == nil {
							held[r.Intn(len(held))].Rename(to, ev.Pick(r, names))
							to.Close()
						}
					}
				case 8:
					dir.Mkdir(n, 0755, 0, 0)
				default:
					if len(held) > 0 {
						if _, cl, err := held[r.Intn(len(held))].Walk(nil); err == nil {
							cl.Close()
						}
					}
				}
				dir.Close()
			}
			for _, f := range held {
				f.Close()
			}
		}(g)
	}
	done := make(chan struct{})
	go func() { wg.Wait(); close(done) }()
	det := map[string]any{"goroutines": G, "connections": K, "socket": socket, "seed": seed}
	if o, d := quiesce.Await(done, 6*wd); o != quiesce.CondMet {
		hang(c, o, d, "C16:shared:request-never-answered", det)
		return
	}
	for _, cn := range conns {
		if o, d := cn.close(); o != quiesce.CondMet {
			hang(c, o, d, "C16:shared:Handle-does-not-return", det)
		}
	}
	for _, o := range fs.Overlaps() {
		c.Violation("C16:shared:forbidden-overlap:"+o.A+"x"+o.B, map[string]any{"overlap": o.Desc, "shape": det})
	}
	if n := atomic.LoadInt64(&efaults); n > 0 {
		c.Violation("C16:shared:request-answered-EFAULT-although-nothing-in-the-backend-panics:xattr", map[string]any{"count": n, "shape": det})
	}
	var lv []string
	for _, v := range fs.LifecycleViolations(true) {
		if !strings.HasPrefix(v, "opened") {
			lv = append(lv, v)
		}
	}
	if len(lv) > 0 {
		c.Note("lifecycle monitor (C05's subject) flagged during C16 shared run: %v", lv[:minI(3, len(lv))])
	}
	mx, _ := fs.Concurrency()
	c.Case(fmt.Sprintf("shared:%d:%d:%v:%d", G, K, socket, seed%8), mx >= 2)
	c.Max("max_simultaneous_backend_calls", int64(mx))
	c.Count("backend_calls_total", fs.TotalCalls())
}
