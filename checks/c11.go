package checks

import (
	"bytes"
	"encoding/binary"
	"errors"
	"fmt"
	"io"
	"net"
	"runtime"
	"strconv"
	"strings"
	"time"
	"verif/internal/wire"

	"github.com/hugelgupf/p9/linux"
	"github.com/hugelgupf/p9/p9"

	"verif/internal/ev"
	"verif/internal/memfs"
	"verif/internal/quiesce"
)

func init() {
	ev.Register(&ev.Spec{
		ID: "C11", Level: "exploration",
		Rule:    "real client <-> real server over a backend file whose content is a function of the offset (so offsets beyond 2^32 and multi-MiB sizes are free) and whose ReadAt/WriteAt are scripted (short count or error on chunk j); grid msize {154 (smallest accepted), 155, 665, 666, 1024+-1, 4K, 64K, 1M; thorough adds 54 PRNG msize values between 154 and 2.1 MiB; four configurations where the connection had accepted a Tversion with another msize before the client negotiated} x len(p) {0, 1, L-1, L, L+1, 2L-1, 2L, 2L+1, 3L+7, PRNG} (L = the chunk size observed for this msize) x offsets {0, 1, size-1, size, size+1, 2^32+-1, 2^40} x file sizes on both sides of off+len x fault on each chunk index. Oracle on the backend's chunk log and the client's return: chunks in order, contiguous, within the protocol's payload bound, none after the first short or failed chunk, (n, err, bytes) as one operation on a byte-slice model, io.EOF only if n < len(p) and always if n == 0 < len(p), zero-length p => one request. Last use: the multi-chunk call is the program's last reference to the File (no Close) and the backend forces garbage collections from the second chunk on - the call still completes as one operation. Above the cap: clients asking for 4 MiB+1 .. 2^32-1 against the server's 4 MiB, reads and writes larger than one message. Non-trivial: >= 2 chunks or a boundary (EOF, short, error); distinct by (msize, len class, offset class, fault).",
		Assume:  []string{"memfs synthetic file is the byte-slice model", "the backend's call log (len@off per chunk) is what the server forwarded", "p[n:] is not asserted"},
		Shards:  shards(8, 16),
		Timeout: timeout(8*time.Minute, 60*time.Minute),
		Run:     runC11,
	})
}

type c11chunk struct {
	off  int64
	want int
}

func parseChunks(calls []*memfs.Call, method string) []c11chunk {
	var out []c11chunk
	for _, cl := range calls {
		if cl.Method != method {
			continue
		}
		parts := strings.Split(cl.Args, "@")
		n, _ := strconv.Atoi(parts[0])
		o, _ := strconv.ParseInt(parts[1], 10, 64)
		out = append(out, c11chunk{o, n})
	}
	return out
}

type c11world struct {
	fs   *memfs.FS
	node *memfs.Node
	wn   *memfs.Node
	cl   *p9.Client
	root p9.File
	f    p9.File // synthetic file, open RW
	wf   p9.File // stored file, open RW
	conn net.Conn
	hd   chan struct{}
}

func c11Setup(c *ev.Ctx, msize uint32) *c11world { return c11SetupPrimed(c, msize, 0) }

// c11SetupPrimed: before the client negotiates msize, the connection has
// already seen an accepted Tversion with another msize (a probe, an earlier
// user of the transport). The later negotiation is the one in force.
func c11SetupPrimed(c *ev.Ctx, msize, prime uint32) *c11world {
	w := &c11world{fs: memfs.New()}
	w.node = w.fs.MkPath("/s", p9.ModeRegular|0644, "")
	w.node.Synth = true
	w.wn = w.fs.MkPath("/w", p9.ModeRegular|0644, "")
	srv := p9.NewServer(w.fs)
	cc, sc := net.Pipe()
	w.conn = cc
	w.hd = make(chan struct{})
	go func() { srv.Handle(sc, sc); close(w.hd) }()
	var err error
	ok := ev.Watch(60*time.Second, func() {
		if prime != 0 {
			if _, err = cc.Write(wire.Encode(wire.Tversion, wire.NOTAG, uint64(prime), v7)); err != nil {
				return
			}
			var h [4]byte
			if _, err = io.ReadFull(cc, h[:]); err != nil {
				return
			}
			rest := make([]byte, binary.LittleEndian.Uint32(h[:])-4)
			if _, err = io.ReadFull(cc, rest); err != nil {
				return
			}
		}
		w.cl, err = p9.NewClient(cc, p9.WithMessageSize(msize))
		if err != nil {
			return
		}
		var root p9.File
		root, err = w.cl.Attach("")
		if err != nil {
			return
		}
		w.root = root
		_, w.f, err = root.Walk([]string{"s"})
		if err != nil {
			return
		}
		if _, _, err = w.f.Open(p9.ReadWrite); err != nil {
			return
		}
		_, w.wf, err = root.Walk([]string{"w"})
		if err != nil {
			return
		}
		_, _, err = w.wf.Open(p9.ReadWrite)
	})
	if !ok || err != nil {
		c.Inconclusive(fmt.Sprintf("C11 setup msize=%d: %v", msize, err))
		cc.Close()
		return nil
	}
	return w
}

func (w *c11world) close() {
	w.conn.Close()
	quiesce.Await(w.hd, wd)
}

func lenClassL(n, L int) string {
	switch {
	case n == 0:
		return "0"
	case n < L:
		return "<L"
	case n == L:
		return "=L"
	case n < 2*L:
		return "<2L"
	case n == 2*L:
		return "=2L"
	}
	return ">2L"
}

func offClass(off int64, size uint64) string {
	switch {
	case off == 0:
		return "0"
	case uint64(off) == size:
		return "=size"
	case uint64(off) > size:
		return ">size"
	case off > 1<<32:
		return ">4G"
	}
	return "mid"
}

func runC11(c *ev.Ctx) {
	c11LastUse(c)
	c11AboveServerCap(c)
	r := c.Rand("c11")
	msizes := []uint32{154, 155, 665, 666, 1023, 1024, 1025, 4096, 65536, 1 << 20}
	if c.Thorough() {
		for i := 0; i < 54; i++ {
			switch i % 3 {
			case 0:
				msizes = append(msizes, 154+uint32(r.Intn(2000)))
			case 1:
				msizes = append(msizes, 2048+uint32(r.Intn(1<<17)))
			default:
				msizes = append(msizes, 1<<17+uint32(r.Intn(1<<21)))
			}
		}
	}
	idx := 0
	// primed[i] != 0: the connection saw an accepted Tversion with that msize first
	primed := make([]uint32, len(msizes))
	for _, pr := range [][2]uint32{{65536, 8192}, {1 << 20, 4096}, {4096, 1 << 20}, {8192, 154}} {
		msizes = append(msizes, pr[0])
		primed = append(primed, pr[1])
	}
	for mi, ms := range msizes {
		idx++
		if !c.Mine(idx) {
			continue
		}
		w := c11SetupPrimed(c, ms, primed[mi])
		if w == nil {
			continue
		}
		// protocol bounds on a chunk: request and reply must fit msize
		rbound, wbound := int(ms)-11, int(ms)-23
		// calibrate L: the chunk size the client uses
		w.node.SynthSz = 1 << 41
		mark := w.fs.NCalls()
		probe := make([]byte, 3*int(ms))
		var perr error
		if !ev.Watch(120*time.Second, func() { _, perr = w.f.ReadAt(probe, 0) }) || perr != nil {
			c.Inconclusive(fmt.Sprintf("C11 calibration msize=%d: %v", ms, perr))
			w.close()
			continue
		}
		ch := parseChunks(w.fs.Calls(mark), "ReadAt")
		if len(ch) == 0 {
			c.Inconclusive("C11 calibration: no chunk observed")
			w.close()
			continue
		}
		L := ch[0].want
		c.SetAdd("chunk_sizes", fmt.Sprintf("msize=%d:L=%d", ms, L))
		lens := []int{0, 1, L - 1, L, L + 1, 2*L - 1, 2 * L, 2*L + 1, 3*L + 7}
		for i := 0; i < c.Sz(2, 24); i++ {
			lens = append(lens, r.Intn(4*L+2))
		}
		if L < 64 { // tiny payloads: keep chunk counts bounded but multi-chunk
			lens = append(lens, 50, 97)
		}
		for _, n := range lens {
			if n < 0 || (L > 0 && n/L > 300) {
				continue
			}
			nchunks := 1
			if L > 0 {
				nchunks = (n + L - 1) / L
			}
			type fault struct {
				at    int // chunk index (0-based), -1 none
				short int // >=0: return this many bytes; -1: error
			}
			faults := []fault{{-1, 0}}
			for j := 0; j < nchunks && j < 4; j++ {
				faults = append(faults, fault{j, -1}, fault{j, 0}, fault{j, 1})
				if L > 2 {
					faults = append(faults, fault{j, L - 1})
				}
			}
			sizes := []uint64{0, 1, uint64(n), uint64(n) + 1, 1 << 20, 1 << 41}
			for _, size := range sizes {
				offs := []int64{0, 1, int64(size) - 1, int64(size), int64(size) + 1, 1<<32 - 1, 1<<32 + 1, 1 << 40}
				if c.Quick() {
					offs = []int64{0, 1, int64(size) - 1, int64(size), 1<<32 + 1}
				}
				for _, off := range offs {
					if off < 0 {
						continue
					}
					for _, ft := range faults {
						if ft.at >= 0 && (size != 1<<41 || off > 1) {
							continue // faults on the big file only
						}
						c.Begin(fmt.Sprintf("C11 msize=%d L=%d len=%d size=%d off=%d fault=%+v", ms, L, n, size, off, ft))
						c11Read(c, w, ms, L, rbound, n, size, off, ft.at, ft.short)
						if size == 1<<41 {
							c11Write(c, w, ms, L, wbound, n, off, ft.at, ft.short, r)
						}
					}
				}
			}
		}
		w.close()
	}
}

var errInjected = linux.ENOSPC

func c11Read(c *ev.Ctx, w *c11world, ms uint32, L, bound, n int, size uint64, off int64, faultAt, short int) {
	w.node.SynthSz = size
	k := 0
	w.fs.IOHook = func(method string, o int64, want int) (int, error) {
		if method != "ReadAt" {
			return -1, nil
		}
		defer func() { k++ }()
		if k == faultAt {
			if short < 0 {
				return 0, errInjected
			}
			return short, nil
		}
		return -1, nil
	}
	defer func() { w.fs.IOHook = nil }()
	p := bytes.Repeat([]byte{0xEE}, n)
	mark := w.fs.NCalls()
	var got int
	var err error
	if !ev.Watch(120*time.Second, func() { got, err = w.f.ReadAt(p, off) }) {
		c.Inconclusive("C11 ReadAt watchdog")
		return
	}
	calls := w.fs.Calls(mark)
	ch := parseChunks(calls, "ReadAt")
	det := map[string]any{"msize": ms, "L": L, "len": n, "size": size, "off": off, "fault_at_chunk": faultAt, "short": short, "n": got, "err": fmt.Sprint(err), "chunks": fmt.Sprint(ch)}
	boundary := faultAt >= 0 || uint64(off)+uint64(n) >= size
	c.Case(fmt.Sprintf("R:%d:%s:%s:%d:%d", ms, lenClassL(n, L), offClass(off, size), faultAt, short), len(ch) >= 2 || boundary)
	v := func(sig string) { c.Violation("C11:read:"+sig, det) }
	// model: one read of the byte-slice model
	avail := 0
	if uint64(off) < size {
		avail = int(minU64(uint64(n), size-uint64(off)))
	}
	// replay the chunk rules
	pos, total := off, 0
	stopped := false
	var wantErr error
	for i, x := range ch {
		if stopped {
			v("chunk-issued-after-short-or-failed-chunk")
			return
		}
		if x.off != pos {
			v("chunks-not-contiguous-or-out-of-order")
			return
		}
		if x.want > bound {
			v("chunk-larger-than-payload-limit")
			return
		}
		if x.want > n-total {
			v("chunk-larger-than-what-is-left")
			return
		}
		// what the backend returned for this chunk
		ret := x.want
		if uint64(pos) >= size {
			ret = 0
		} else if uint64(ret) > size-uint64(pos) {
			ret = int(size - uint64(pos))
		}
		if i == faultAt {
			if short < 0 {
				wantErr = errInjected
				ret = 0
			} else if short < ret {
				ret = short
			}
		}
		total += ret
		pos += int64(ret)
		if ret < x.want || wantErr != nil {
			stopped = true
		}
	}
	if n == 0 && len(ch) != 1 {
		v("zero-length-read-is-not-exactly-one-request")
	}
	if !stopped && total < n && n > 0 {
		v("stopped-early-although-every-chunk-was-full")
		return
	}
	if faultAt < 0 && total != avail {
		det["model_n"] = avail
		v("count-differs-from-one-read-of-the-file")
	}
	if got != total {
		det["sum_of_chunks"] = total
		v("returned-count-differs-from-chunks")
	}
	switch {
	case wantErr != nil:
		var le linux.Errno
		if !errors.As(err, &le) || le != errInjected {
			v("failed-chunk-error-not-returned")
		}
	case err == io.EOF:
		if got >= n && n > 0 || n == 0 {
			v("EOF-although-buffer-was-filled")
		}
	case err != nil:
		v("unexpected-error")
	default:
		if got == 0 && n > 0 {
			v("no-EOF-for-empty-read-into-non-empty-buffer")
		}
	}
	for i := 0; i < got && i < n; i++ {
		if p[i] != memfs.SynthByte(w.node.ID, uint64(off)+uint64(i)) {
			det["at"] = i
			v("bytes-differ-from-file")
			break
		}
	}
	c.Count("read_calls", 1)
	c.Count("chunks_observed", int64(len(ch)))
	if c.WantSample() && len(ch) >= 2 && faultAt >= 0 {
		c.Sample(det)
	}
}

func c11Write(c *ev.Ctx, w *c11world, ms uint32, L, bound, n int, off int64, faultAt, short int, r *ev.Rand) {
	stored := off < 1<<20
	var f p9.File = w.f
	if stored {
		f = w.wf
		w.wn.Data = nil
	}
	k := 0
	w.fs.IOHook = func(method string, o int64, want int) (int, error) {
		if method != "WriteAt" {
			return -1, nil
		}
		defer func() { k++ }()
		if k == faultAt {
			if short < 0 {
				return 0, errInjected
			}
			return short, nil
		}
		return -1, nil
	}
	defer func() { w.fs.IOHook = nil }()
	p := r.Bytes(n)
	mark := w.fs.NCalls()
	var got int
	var err error
	if !ev.Watch(120*time.Second, func() { got, err = f.WriteAt(p, off) }) {
		c.Inconclusive("C11 WriteAt watchdog")
		return
	}
	ch := parseChunks(w.fs.Calls(mark), "WriteAt")
	det := map[string]any{"msize": ms, "L": L, "len": n, "off": off, "fault_at_chunk": faultAt, "short": short, "n": got, "err": fmt.Sprint(err), "chunks": fmt.Sprint(ch)}
	c.Case(fmt.Sprintf("W:%d:%s:%s:%d:%d", ms, lenClassL(n, L), offClass(off, 1<<41), faultAt, short), len(ch) >= 2 || faultAt >= 0)
	v := func(sig string) { c.Violation("C11:write:"+sig, det) }
	pos, total := off, 0
	stopped := false
	var wantErr error
	for i, x := range ch {
		if stopped {
			v("chunk-issued-after-short-or-failed-chunk")
			return
		}
		if x.off != pos {
			v("chunks-not-contiguous-or-out-of-order")
			return
		}
		if x.want > bound {
			v("chunk-larger-than-payload-limit")
			return
		}
		if x.want > n-total {
			v("chunk-larger-than-what-is-left")
			return
		}
		ret := x.want
		if i == faultAt {
			if short < 0 {
				wantErr, ret = errInjected, 0
			} else if short < ret {
				ret = short
			}
		}
		total += ret
		pos += int64(ret)
		if ret < x.want || wantErr != nil {
			stopped = true
		}
	}
	if n == 0 && len(ch) != 1 {
		v("zero-length-write-is-not-exactly-one-request")
	}
	if !stopped && total < n {
		v("stopped-early-although-every-chunk-was-accepted")
		return
	}
	if got != total {
		det["sum_of_chunks"] = total
		v("returned-count-differs-from-chunks")
	}
	if faultAt < 0 && got != n {
		v("n-differs-from-len(p)-although-backend-accepted-everything")
	}
	if wantErr != nil {
		var le linux.Errno
		if !errors.As(err, &le) || le != errInjected {
			v("failed-chunk-error-not-returned")
		}
	} else if err != nil {
		v("unexpected-error")
	}
	if stored {
		// the file now holds exactly p[:got] at off
		data := w.wn.Data
		if got > 0 && (len(data) < int(off)+got || !bytes.Equal(data[off:int(off)+got], p[:got])) {
			v("stored-bytes-differ-from-p[:n]")
		}
		if len(data) > int(off)+got && got > 0 {
			v("bytes-stored-beyond-p[:n]")
		}
	}
	c.Count("write_calls", 1)
	c.Count("chunks_observed", int64(len(ch)))
}

// c11LastUse: the ReadAt / WriteAt is the last thing the program does with the
// File - it keeps no reference and never calls Close, as the finalizer on client
// Files invites. While the chunks are under way the collector runs (the backend
// forces it from the second chunk on). The call still behaves as one operation:
// the File it is running on is not finalized (its fid clunked, the number handed
// to somebody else) under its feet.
func c11LastUse(c *ev.Ctx) {
	for round := 0; round < c.Sz(6, 60); round++ {
		if !c.Mine(round + 3) {
			continue
		}
		ms := []uint32{1177, 4096, 700}[round%3]
		write := round%2 == 1
		c.Begin(fmt.Sprintf("C11 last use msize=%d write=%v", ms, write))
		w := c11Setup(c, ms)
		if w == nil {
			continue
		}
		w.node.SynthSz = 1 << 30
		k := 0
		w.fs.IOHook = func(method string, o int64, want int) (int, error) {
			if method == "ReadAt" || method == "WriteAt" {
				k++
				if k >= 2 {
					for i := 0; i < 2; i++ {
						runtime.GC()
						time.Sleep(time.Millisecond) // lets the finalizer goroutine and its Tclunk run; no verdict depends on it
					}
				}
			}
			return -1, nil
		}
		var n int
		var err error
		var p []byte
		name := "s"
		if write {
			name = "w"
		}
		ok := ev.Watch(120*time.Second, func() {
			n, err, p = func() (int, error, []byte) {
				_, f, e := w.root.Walk([]string{name})
				if e != nil {
					return -1, e, nil
				}
				if _, _, e = f.Open(p9.ReadWrite); e != nil {
					return -1, e, nil
				}
				p := make([]byte, 6*int(ms)+17)
				if write {
					for i := range p {
						p[i] = byte(i*7 + round)
					}
					n, e := f.WriteAt(p, 3)
					return n, e, p
				}
				n, e := f.ReadAt(p, 5) // the last use of f
				return n, e, p
			}()
		})
		w.fs.IOHook = nil
		if !ok {
			c.Inconclusive("C11 last-use watchdog")
			w.close()
			continue
		}
		det := map[string]any{"msize": ms, "write": write, "len": len(p), "n": n, "err": fmt.Sprint(err), "chunks": k}
		c.Case(fmt.Sprintf("last-use:%d:%v", ms, write), k >= 2)
		switch {
		case n < 0:
			c.Inconclusive(fmt.Sprintf("C11 last-use setup: %v", err))
		case err != nil || n != len(p):
			c.Violation("C11:last-use:call-cut-short-while-nothing-failed", det)
		case write:
			got := w.fs.Lookup("/w").Data
			if len(got) < 3+len(p) || !bytes.Equal(got[3:3+len(p)], p) {
				c.Violation("C11:last-use:stored-bytes-differ-from-p", det)
			}
		default:
			for i := range p {
				if p[i] != memfs.SynthByte(w.node.ID, 5+uint64(i)) {
					det["at"] = i
					c.Violation("C11:last-use:bytes-are-not-the-file's", det)
					break
				}
			}
		}
		c.Count("last_use_calls", 1)
		w.close()
	}
}

// c11AboveServerCap: the client asks for more than the server's 4 MiB; the
// server announces 4 MiB and that is what the chunks have to fit - a read or
// write larger than one message still behaves as one operation.
func c11AboveServerCap(c *ev.Ctx) {
	for i, ms := range []uint32{4<<20 + 1, 5 << 20, 8 << 20, 1<<32 - 1} {
		if !c.Mine(i + 9) {
			continue
		}
		c.Begin(fmt.Sprintf("C11 requested msize %d above the server's cap", ms))
		w := c11Setup(c, ms)
		if w == nil {
			continue
		}
		w.node.SynthSz = 1 << 40
		const capMsize = 4 << 20
		// read: two full messages' worth and a bit
		p := make([]byte, 2*capMsize+5)
		mark := w.fs.NCalls()
		var n int
		var err error
		if !ev.Watch(120*time.Second, func() { n, err = w.f.ReadAt(p, 7) }) {
			c.Inconclusive("C11 above-cap watchdog")
			w.close()
			continue
		}
		ch := parseChunks(w.fs.Calls(mark), "ReadAt")
		det := map[string]any{"requested_msize": ms, "len": len(p), "n": n, "err": fmt.Sprint(err), "chunks": fmt.Sprint(ch)}
		switch {
		case err != nil || n != len(p):
			c.Violation("C11:above-cap:read-cut-short-although-the-file-goes-on", det)
		default:
			for k := range p {
				if p[k] != memfs.SynthByte(w.node.ID, 7+uint64(k)) {
					det["at"] = k
					c.Violation("C11:above-cap:bytes-are-not-the-file's", det)
					break
				}
			}
		}
		for _, x := range ch {
			if x.want > capMsize-11 {
				c.Violation("C11:above-cap:chunk-larger-than-the-announced-msize-allows", det)
				break
			}
		}
		// write: more than one message
		q := make([]byte, capMsize+123457)
		for k := range q {
			q[k] = byte(k*13 + i)
		}
		if !ev.Watch(120*time.Second, func() { n, err = w.wf.WriteAt(q, 3) }) {
			c.Inconclusive("C11 above-cap watchdog")
			w.close()
			continue
		}
		det = map[string]any{"requested_msize": ms, "len": len(q), "n": n, "err": fmt.Sprint(err)}
		got := w.fs.Lookup("/w").Data
		if err != nil || n != len(q) {
			c.Violation("C11:above-cap:write-cut-short-although-nothing-failed", det)
		} else if len(got) < 3+len(q) || !bytes.Equal(got[3:3+len(q)], q) {
			c.Violation("C11:above-cap:stored-bytes-differ-from-p", det)
		}
		c.Case(fmt.Sprintf("above-cap:%d", ms), true)
		c.Count("above_cap_calls", 2)
		w.close()
	}
}
