package checks

import (
	"fmt"
	"net"
	"os"
	"path/filepath"
	"sort"
	"strings"
	"time"

	"github.com/hugelgupf/p9/fsimpl/composefs"
	"github.com/hugelgupf/p9/fsimpl/localfs"
	"github.com/hugelgupf/p9/fsimpl/staticfs"
	"github.com/hugelgupf/p9/p9"

	"verif/internal/ev"
	"verif/internal/quiesce"
)

func init() {
	ev.Register(&ev.Spec{
		ID: "C19", Level: "exploration",
		Rule:    "paged listings (next Offset = Offset of the last entry received) of real localfs temp directories, staticfs and composefs (flat, with localfs/staticfs mounts, nested WithDir), called on the File directly (entry counts) and through client+server (byte counts, several msize values); the multiset of names is compared with ground truth and every entry's QID/type with Walk+GetAttr. Non-trivial: the listing needed >= 2 pages; distinct by (fs, dir size, name class, count class, route).",
		Assume:  []string{"directories are not modified while listed", "real temp directories under /verif/.scratch"},
		Shards:  shards(8, 16),
		Timeout: timeout(5*time.Minute, 40*time.Minute),
		Run:     runC19,
	})
}

type c19fs struct {
	kind  string
	names []string // ground truth of the listed directory
	att   p9.Attacher
	path  []string // walk from the attach point to the listed directory
	clean func()
}

func c19Names(n, nl int) []string {
	var l []string
	for i := 0; i < n; i++ {
		s := fmt.Sprintf("%d", i)
		switch nl {
		case 8:
			s = fmt.Sprintf("%08d", i)
		case 255:
			s = fmt.Sprintf("%0255d", i)
		case 0: // mixed
			s = strings.Repeat("m", 1+(i*37)%200) + fmt.Sprint(i)
		}
		l = append(l, s)
	}
	return l
}

func c19Local(c *ev.Ctx, n, nl int) (*c19fs, error) {
	base := filepath.Join(c.Dir, "..", fmt.Sprintf("c19-%d-%d", os.Getpid(), c.Shard))
	os.MkdirAll(base, 0755)
	dir, err := os.MkdirTemp(base, "l")
	if err != nil {
		return nil, err
	}
	names := c19Names(n, nl)
	os.Mkdir(filepath.Join(dir, "sub"), 0755)
	for i, nm := range names {
		p := filepath.Join(dir, "sub", nm)
		switch i % 5 {
		case 1:
			err = os.Mkdir(p, 0755)
		case 2:
			err = os.Symlink("target", p)
		default:
			err = os.WriteFile(p, []byte("x"), 0644)
		}
		if err != nil {
			os.RemoveAll(dir)
			return nil, err
		}
	}
	return &c19fs{kind: "localfs", names: names, att: localfs.Attacher(dir), path: []string{"sub"}, clean: func() { os.RemoveAll(dir) }}, nil
}

func c19Static(n, nl int) (*c19fs, error) {
	names := c19Names(n, nl)
	var opts []staticfs.Option
	for _, nm := range names {
		opts = append(opts, staticfs.WithFile(nm, "content of "+nm[:minI(len(nm), 8)]))
	}
	a, err := staticfs.New(opts...)
	if err != nil {
		return nil, err
	}
	return &c19fs{kind: "staticfs", names: names, att: a, clean: func() {}}, nil
}

func c19Compose(c *ev.Ctx, n, nl int, nested bool) (*c19fs, error) {
	names := c19Names(n, nl)
	var opts []composefs.Opt
	var cleans []func()
	for i, nm := range names {
		switch i % 4 {
		case 0:
			opts = append(opts, composefs.WithFile(nm, staticfs.ReadOnlyFile("file "+fmt.Sprint(i))))
		case 1:
			s, err := staticfs.New(staticfs.WithFile("inner", "x"))
			if err != nil {
				return nil, err
			}
			opts = append(opts, composefs.WithMount(nm, s))
		case 2:
			opts = append(opts, composefs.WithDir(nm, composefs.WithFile("deep", staticfs.ReadOnlyFile("deep"))))
		case 3:
			if i < 40 {
				l, err := c19Local(c, 3, 1)
				if err != nil {
					return nil, err
				}
				cleans = append(cleans, l.clean)
				opts = append(opts, composefs.WithMount(nm, l.att))
			} else {
				opts = append(opts, composefs.WithFile(nm, staticfs.ReadOnlyFile("f")))
			}
		}
	}
	clean := func() {
		for _, f := range cleans {
			f()
		}
	}
	if nested {
		fs, err := composefs.New(composefs.WithDir("outer", opts...), composefs.WithFile("sibling", staticfs.ReadOnlyFile("s")))
		if err != nil {
			return nil, err
		}
		return &c19fs{kind: "composefs-nested", names: names, att: fs, path: []string{"outer"}, clean: clean}, nil
	}
	fs, err := composefs.New(opts...)
	if err != nil {
		return nil, err
	}
	return &c19fs{kind: "composefs", names: names, att: fs, clean: clean}, nil
}

// page lists dir completely via rd, following the Offset protocol.
func c19Page(rd func(off uint64, count uint32) (p9.Dirents, error), count uint32, max int) (ents []p9.Dirent, pages int, err error) {
	off := uint64(0)
	for {
		d, e := rd(off, count)
		if e != nil {
			return ents, pages, e
		}
		if len(d) == 0 {
			return ents, pages, nil
		}
		pages++
		ents = append(ents, d...)
		off = d[len(d)-1].Offset
		if len(ents) > max {
			return ents, pages, fmt.Errorf("listing does not terminate (>%d entries)", max)
		}
	}
}

func c19Compare(c *ev.Ctx, f *c19fs, route string, count uint32, ents []p9.Dirent, pages int, err error, dir p9.File, cc string) {
	det := map[string]any{"fs": f.kind, "route": route, "count": count, "dir_entries": len(f.names), "pages": pages}
	sigp := "C19:" + f.kind + ":" + route + ":"
	if err != nil {
		det["err"] = err.Error()
		c.Violation(sigp+"paged-listing-fails", det)
		return
	}
	got := map[string]int{}
	for _, e := range ents {
		got[e.Name]++
	}
	missing, dup := 0, 0
	var ex []string
	for _, n := range f.names {
		if got[n] == 0 {
			missing++
			if len(ex) < 3 {
				ex = append(ex, "missing:"+cutS(n, 20))
			}
		}
		if got[n] > 1 {
			dup++
			if len(ex) < 3 {
				ex = append(ex, "repeated:"+cutS(n, 20))
			}
		}
		delete(got, n)
	}
	if missing > 0 || dup > 0 || len(got) > 0 {
		det["missing"], det["repeated"], det["unknown"], det["examples"] = missing, dup, len(got), ex
		det["returned"] = len(ents)
		what := "entries-lost"
		if missing == 0 && dup > 0 {
			what = "entries-repeated"
		} else if missing == 0 {
			what = "unknown-entries"
		}
		c.Violation(sigp+"paged-listing-"+what, det)
		return
	}
	// QID / type agreement with Walk + GetAttr (sampled for big directories).
	step := 1
	if len(ents) > 64 {
		step = len(ents) / 64
	}
	for i := 0; i < len(ents); i += step {
		e := ents[i]
		qids, wf, werr := dir.Walk([]string{e.Name})
		if werr != nil || len(qids) != 1 {
			c.Violation(sigp+"listed-entry-cannot-be-walked", map[string]any{"name": cutS(e.Name, 30), "err": fmt.Sprint(werr)})
			continue
		}
		gq, _, attr, gerr := wf.GetAttr(p9.AttrMaskAll)
		wf.Close()
		if gerr != nil {
			c.Violation(sigp+"listed-entry-getattr-fails", map[string]any{"name": cutS(e.Name, 30), "err": gerr.Error()})
			continue
		}
		if e.QID != qids[0] || e.QID != gq {
			c.Violation(sigp+"entry-QID-differs-from-Walk/GetAttr", map[string]any{"name": cutS(e.Name, 30), "readdir": e.QID.String(), "walk": qids[0].String(), "getattr": gq.String()})
		}
		if e.Type != e.QID.Type || e.Type != attr.Mode.QIDType() {
			c.Violation(sigp+"entry-type-differs", map[string]any{"name": cutS(e.Name, 30), "entry_type": e.Type, "qid_type": e.QID.Type, "mode": fmt.Sprintf("%o", attr.Mode)})
		}
		c.Count("qid_agreements_checked", 1)
	}
	c.Count("entries_listed", int64(len(ents)))
	c.Case(fmt.Sprintf("%s:%s:d%d:%s", f.kind, route, len(f.names), cc), pages >= 2)
	if c.WantSample() && pages >= 2 {
		c.Sample(map[string]any{"fs": f.kind, "route": route, "count": count, "dir_entries": len(f.names), "pages": pages, "first": cutS(ents[0].Name, 20)})
	}
}

func runC19(c *ev.Ctx) {
	sizes := []int{0, 1, 2, 3, 10, 100}
	if c.Thorough() {
		sizes = append(sizes, 1000, 5000)
	} else {
		sizes = append(sizes, 600)
	}
	nls := []int{1, 8, 255, 0}
	idx := 0
	for _, n := range sizes {
		for _, nl := range nls {
			if n > 1000 && nl == 255 {
				continue
			}
			for _, kind := range []string{"localfs", "staticfs", "composefs", "composefs-nested"} {
				idx++
				if !c.Mine(idx) {
					continue
				}
				if strings.HasPrefix(kind, "composefs") && n > 600 {
					continue
				}
				var f *c19fs
				var err error
				switch kind {
				case "localfs":
					f, err = c19Local(c, n, nl)
				case "staticfs":
					f, err = c19Static(n, nl)
				case "composefs":
					f, err = c19Compose(c, n, nl, false)
				default:
					f, err = c19Compose(c, n, nl, true)
				}
				if err != nil {
					c.Inconclusive("C19 fixture: " + err.Error())
					continue
				}
				c.Begin(fmt.Sprintf("C19 %s n=%d namelen=%d", kind, n, nl))
				c19Direct(c, f, nl)
				c19Served(c, f, nl)
				f.clean()
			}
		}
	}
	os.RemoveAll(filepath.Join(c.Dir, "..", fmt.Sprintf("c19-%d-%d", os.Getpid(), c.Shard)))
}

func c19Open(att p9.Attacher, path []string) (root, dir p9.File, err error) {
	root, err = att.Attach()
	if err != nil {
		return nil, nil, err
	}
	dir = root
	for _, p := range path {
		_, nf, e := dir.Walk([]string{p})
		if e != nil {
			return nil, nil, e
		}
		dir = nf
	}
	return root, dir, nil
}

func c19Direct(c *ev.Ctx, f *c19fs, nl int) {
	n := len(f.names)
	// File.Readdir's count is "as many as fit in count": the implementations
	// here read it as a number of entries. Small counts are only meaningful
	// under that reading ("as long as one entry fits"): probe it.
	entrySemantics := false
	if n > 0 {
		if _, dir, err := c19Open(f.att, f.path); err == nil {
			if _, _, err := dir.Open(p9.ReadOnly); err == nil {
				if d, err := dir.Readdir(0, 1); err == nil && len(d) == 1 {
					entrySemantics = true
				}
			}
			dir.Close()
		}
	}
	counts := []uint32{300, 301, 4096, uint32(300 * maxI(n, 1)), 1<<32 - 1}
	if entrySemantics {
		counts = append(counts, 1, 2, 7, uint32(maxI(n-1, 1)), uint32(maxI(n, 1)), uint32(n+1))
	}
	for _, cnt := range counts {
		_, dir, err := c19Open(f.att, f.path)
		if err != nil {
			c.Inconclusive("C19 open: " + err.Error())
			return
		}
		// a second, unopened handle for Walk (an open directory is not walked)
		_, wdir, _ := c19Open(f.att, f.path)
		if _, _, err := dir.Open(p9.ReadOnly); err != nil {
			c.Inconclusive("C19 open: " + err.Error())
			return
		}
		ents, pages, perr := c19Page(dir.Readdir, cnt, 3*n+10)
		c19Compare(c, f, "direct", cnt, ents, pages, perr, wdir, fmt.Sprintf("n%d:c%s", nl, dcClass(cnt, n)))
		dir.Close()
		wdir.Close()
	}
}

func dcClass(cnt uint32, n int) string {
	switch {
	case cnt == 1<<32-1:
		return "max"
	case int(cnt) > n:
		return ">n"
	case int(cnt) == n:
		return "=n"
	case int(cnt) == n-1:
		return "n-1"
	}
	return fmt.Sprint(cnt)
}

func maxI(a, b int) int {
	if a > b {
		return a
	}
	return b
}

func c19Served(c *ev.Ctx, f *c19fs, nl int) {
	longest := 0
	for _, nm := range f.names {
		if len(nm) > longest {
			longest = len(nm)
		}
	}
	one := uint32(24 + longest)
	for _, ms := range []uint32{4096, 65536, 1 << 20} {
		counts := []uint32{one, one + 1, 2*one - 1, 100, 4096, ms - 11, ms, 2 * ms, 1<<32 - 1}
		srv := p9.NewServer(f.att)
		cc, sc := net.Pipe()
		hd := make(chan struct{})
		go func() { srv.Handle(sc, sc); close(hd) }()
		var cl *p9.Client
		var err error
		ok := ev.Watch(60*time.Second, func() { cl, err = p9.NewClient(cc, p9.WithMessageSize(ms)) })
		if !ok || err != nil {
			c.Inconclusive(fmt.Sprintf("C19 served: NewClient: %v", err))
			cc.Close()
			continue
		}
		for _, cnt := range counts {
			if cnt < one {
				continue // the statement requires that one entry fits
			}
			done := make(chan struct{})
			var ents []p9.Dirent
			var pages int
			var perr error
			var wdir p9.File
			go func() {
				defer close(done)
				root, e := cl.Attach("")
				if e != nil {
					perr = e
					return
				}
				dir := root
				if len(f.path) > 0 {
					_, dir, e = root.Walk(f.path)
					if e != nil {
						perr = e
						return
					}
				} else {
					_, dir, _ = root.Walk(nil)
				}
				_, wdir, _ = dir.Walk(nil)
				if _, _, e := dir.Open(p9.ReadOnly); e != nil {
					perr = e
					return
				}
				ents, pages, perr = c19Page(dir.Readdir, cnt, 3*len(f.names)+10)
				dir.Close()
			}()
			if out, dump := quiesce.Await(done, 2*wd); out != quiesce.CondMet {
				hang(c, out, dump, "C19:"+f.kind+":served-listing-hangs", map[string]any{"count": cnt, "msize": ms})
				break
			}
			if wdir == nil {
				c.Inconclusive(fmt.Sprintf("C19 served setup: %v", perr))
				continue
			}
			cmp := make(chan struct{})
			go func() {
				defer close(cmp)
				c19Compare(c, f, "served", cnt, ents, pages, perr, wdir, fmt.Sprintf("n%d:ms%d:c%s", nl, ms, scClass(cnt, one, ms)))
				wdir.Close()
			}()
			if out, dump := quiesce.Await(cmp, 2*wd); out != quiesce.CondMet {
				hang(c, out, dump, "C19:"+f.kind+":served-walk-hangs", nil)
				break
			}
		}
		cc.Close()
		quiesce.Await(hd, wd)
	}
}

func scClass(cnt, one, ms uint32) string {
	switch {
	case cnt == one:
		return "one"
	case cnt == one+1:
		return "one+1"
	case cnt == 2*one-1:
		return "two-1"
	case cnt < ms-11:
		return "small"
	case cnt == ms-11:
		return "=lim"
	case cnt == 1<<32-1:
		return "max"
	}
	return ">lim"
}

var _ = sort.Strings
