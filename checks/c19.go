package checks

import (
	"fmt"
	"io"
	"net"
	"os"
	"path/filepath"
	"runtime"
	"sort"
	"strings"
	"sync"
	"time"

	"github.com/hugelgupf/p9/fsimpl/composefs"
	"github.com/hugelgupf/p9/fsimpl/localfs"
	"github.com/hugelgupf/p9/fsimpl/staticfs"
	"github.com/hugelgupf/p9/p9"

	"verif/internal/ev"
	"verif/internal/quiesce"
)

func init() {
	ev.Register(&ev.Spec{
		ID: "C19", Level: "exploration",
		Rule:    "paged listings (next Offset = Offset of the last entry received) of real localfs temp directories, staticfs and composefs (flat, with localfs/staticfs mounts, nested WithDir, a staticfs directory mounted in a composefs and listed through the mount, a composefs whose localfs files and mounted directories were replaced - new inodes - after it was built, and a backend that reports the end of a directory together with its last entries (io.EOF), alone and mounted in a composefs), called on the File directly (entry counts) and through client+server (byte counts, several msize values; the listing fid has one of nine histories behind it: fresh, listed before, restarted after one page, page counts varying, a second fid listing the same directory in alternation, and for localfs the directory or its ancestor renamed before or in the middle of the listing); the multiset of names is compared with ground truth and every entry's QID/type with Walk+GetAttr. Also: a directory below a fresh composefs mount listed for the first time by 4 connections at once (the mount's QID mapper sees every file for the first time). Non-trivial: the listing needed >= 2 pages; distinct by (fs, dir size, name class, count class, route).",
		Assume:  []string{"directory contents are not modified while listed (the directory itself or an ancestor may be renamed)", "real temp directories under /verif/.scratch"},
		Shards:  shards(8, 16),
		Timeout: timeout(5*time.Minute, 40*time.Minute),
		Run:     runC19,
	})
}

type c19fs struct {
	kind  string
	names []string // ground truth of the listed directory
	att   p9.Attacher
	path  []string // walk from the attach point to the listed directory
	// writable: path is {"top","sub"} on a real directory that may be renamed
	writable bool
	clean    func()
}

func c19Names(n, nl int) []string {
	var l []string
	for i := 0; i < n; i++ {
		s := fmt.Sprintf("%d", i)
		switch nl {
		case 8:
			s = fmt.Sprintf("%08d", i)
		case 255:
			s = fmt.Sprintf("%0255d", i)
		case 0: // mixed
			s = strings.Repeat("m", 1+(i*37)%200) + fmt.Sprint(i)
		}
		l = append(l, s)
	}
	return l
}

func c19Local(c *ev.Ctx, n, nl int) (*c19fs, error) {
	base := filepath.Join(c.Dir, "..", fmt.Sprintf("c19-%d-%d", os.Getpid(), c.Shard))
	os.MkdirAll(base, 0755)
	dir, err := os.MkdirTemp(base, "l")
	if err != nil {
		return nil, err
	}
	names := c19Names(n, nl)
	os.MkdirAll(filepath.Join(dir, "top", "sub"), 0755)
	for i, nm := range names {
		p := filepath.Join(dir, "top", "sub", nm)
		switch i % 5 {
		case 1:
			err = os.Mkdir(p, 0755)
		case 2:
			err = os.Symlink("target", p)
		default:
			err = os.WriteFile(p, []byte("x"), 0644)
		}
		if err != nil {
			os.RemoveAll(dir)
			return nil, err
		}
	}
	return &c19fs{kind: "localfs", names: names, att: localfs.Attacher(dir), path: []string{"top", "sub"}, writable: true, clean: func() { os.RemoveAll(dir) }}, nil
}

func c19Static(n, nl int) (*c19fs, error) {
	names := c19Names(n, nl)
	var opts []staticfs.Option
	for _, nm := range names {
		opts = append(opts, staticfs.WithFile(nm, "content of "+nm[:minI(len(nm), 8)]))
	}
	a, err := staticfs.New(opts...)
	if err != nil {
		return nil, err
	}
	return &c19fs{kind: "staticfs", names: names, att: a, clean: func() {}}, nil
}

// c19StaticMount: a staticfs of n files mounted in a composefs (its listing goes
// through the mount's QID-translating wrapper); the mounted directory is listed.
func c19StaticMount(n, nl int) (*c19fs, error) {
	names := c19Names(n, nl)
	var opts []staticfs.Option
	for _, nm := range names {
		opts = append(opts, staticfs.WithFile(nm, "content of "+nm[:minI(len(nm), 8)]))
	}
	st, err := staticfs.New(opts...)
	if err != nil {
		return nil, err
	}
	fs, err := composefs.New(composefs.WithMount("m", st), composefs.WithFile("sibling", staticfs.ReadOnlyFile("s")))
	if err != nil {
		return nil, err
	}
	return &c19fs{kind: "composefs-static-mount", names: names, att: fs, path: []string{"m"}, clean: func() {}}, nil
}

func c19Compose(c *ev.Ctx, n, nl int, nested bool) (*c19fs, error) {
	names := c19Names(n, nl)
	var opts []composefs.Opt
	var cleans []func()
	for i, nm := range names {
		switch i % 4 {
		case 0:
			opts = append(opts, composefs.WithFile(nm, staticfs.ReadOnlyFile("file "+fmt.Sprint(i))))
		case 1:
			s, err := staticfs.New(staticfs.WithFile("inner", "x"))
			if err != nil {
				return nil, err
			}
			opts = append(opts, composefs.WithMount(nm, s))
		case 2:
			opts = append(opts, composefs.WithDir(nm, composefs.WithFile("deep", staticfs.ReadOnlyFile("deep"))))
		case 3:
			if i < 40 {
				l, err := c19Local(c, 3, 1)
				if err != nil {
					return nil, err
				}
				cleans = append(cleans, l.clean)
				opts = append(opts, composefs.WithMount(nm, l.att))
			} else {
				opts = append(opts, composefs.WithFile(nm, staticfs.ReadOnlyFile("f")))
			}
		}
	}
	clean := func() {
		for _, f := range cleans {
			f()
		}
	}
	if nested {
		fs, err := composefs.New(composefs.WithDir("outer", opts...), composefs.WithFile("sibling", staticfs.ReadOnlyFile("s")))
		if err != nil {
			return nil, err
		}
		return &c19fs{kind: "composefs-nested", names: names, att: fs, path: []string{"outer"}, clean: clean}, nil
	}
	fs, err := composefs.New(opts...)
	if err != nil {
		return nil, err
	}
	return &c19fs{kind: "composefs", names: names, att: fs, clean: clean}, nil
}

// c19Replaced: a composefs whose entries are real files and directories (a
// localfs File added with WithFile, a localfs directory mounted with WithMount)
// that are REPLACED after the composefs was built: the file by writing a new
// one and renaming it over the old (a new inode), the directory by moving it
// away and making it anew. The composed root is then listed: what it lists for a
// name is what Walk + GetAttr report for that name now.
func c19Replaced(c *ev.Ctx, n, nl int) (*c19fs, error) {
	base := filepath.Join(c.Dir, "..", fmt.Sprintf("c19-%d-%d", os.Getpid(), c.Shard))
	os.MkdirAll(base, 0755)
	dir, err := os.MkdirTemp(base, "r")
	if err != nil {
		return nil, err
	}
	clean := func() { os.RemoveAll(dir) }
	names := c19Names(n, nl)
	lroot, err := localfs.Attacher(dir).Attach()
	if err != nil {
		clean()
		return nil, err
	}
	var opts []composefs.Opt
	var later []func()
	for i, nm := range names {
		real := fmt.Sprintf("e%d", i)
		switch {
		case i%3 == 0 && i < 30:
			p := filepath.Join(dir, real)
			if err := os.WriteFile(p, []byte("old"), 0644); err != nil {
				clean()
				return nil, err
			}
			_, f, err := lroot.Walk([]string{real})
			if err != nil {
				clean()
				return nil, err
			}
			opts = append(opts, composefs.WithFile(nm, f))
			later = append(later, func() {
				os.WriteFile(p+".new", []byte("new content"), 0644)
				os.Rename(p+".new", p)
			})
		case i%3 == 1 && i < 30:
			p := filepath.Join(dir, real)
			os.Mkdir(p, 0755)
			os.WriteFile(filepath.Join(p, "inner"), []byte("x"), 0644)
			opts = append(opts, composefs.WithMount(nm, localfs.Attacher(p)))
			later = append(later, func() {
				os.Rename(p, p+".old")
				os.Mkdir(p, 0755)
				os.WriteFile(filepath.Join(p, "inner2"), []byte("y"), 0644)
			})
		default:
			opts = append(opts, composefs.WithFile(nm, staticfs.ReadOnlyFile("file "+fmt.Sprint(i))))
		}
	}
	fs, err := composefs.New(opts...)
	if err != nil {
		clean()
		return nil, err
	}
	for _, f := range later {
		f()
	}
	return &c19fs{kind: "composefs-replaced", names: names, att: fs, clean: clean}, nil
}

// eofFile makes a backend report the end of a directory the way an io.Reader
// may: together with the last entries ("This may return io.EOF").
type eofFile struct{ p9.File }

func (e eofFile) Walk(names []string) ([]p9.QID, p9.File, error) {
	q, f, err := e.File.Walk(names)
	if f != nil {
		f = eofFile{f}
	}
	return q, f, err
}

func (e eofFile) WalkGetAttr(names []string) ([]p9.QID, p9.File, p9.AttrMask, p9.Attr, error) {
	q, f, m, a, err := e.File.WalkGetAttr(names)
	if f != nil {
		f = eofFile{f}
	}
	return q, f, m, a, err
}

func (e eofFile) Readdir(off uint64, count uint32) (p9.Dirents, error) {
	d, err := e.File.Readdir(off, count)
	if err == nil && len(d) > 0 {
		if more, err2 := e.File.Readdir(d[len(d)-1].Offset, 1); err2 == nil && len(more) == 0 {
			return d, io.EOF
		}
	}
	return d, err
}

type eofAttacher struct{ p9.Attacher }

func (a eofAttacher) Attach() (p9.File, error) {
	f, err := a.Attacher.Attach()
	if f != nil {
		f = eofFile{f}
	}
	return f, err
}

// c19EOFMount: such a backend mounted in a composefs and listed through the
// mount (its QID wrapper sits in between) - and, as a control, on its own.
func c19EOFMount(n, nl int, mounted bool) (*c19fs, error) {
	st, err := c19Static(n, nl)
	if err != nil {
		return nil, err
	}
	if !mounted {
		return &c19fs{kind: "staticfs-eof", names: st.names, att: eofAttacher{st.att}, clean: func() {}}, nil
	}
	fs, err := composefs.New(composefs.WithMount("m", eofAttacher{st.att}), composefs.WithFile("sibling", staticfs.ReadOnlyFile("s")))
	if err != nil {
		return nil, err
	}
	return &c19fs{kind: "composefs-eof-mount", names: st.names, att: fs, path: []string{"m"}, clean: func() {}}, nil
}

// c19CompareAll makes c19Compare check every entry's QID instead of a sample.
var c19CompareAll bool

// page lists dir completely via rd, following the Offset protocol.
func c19Page(rd func(off uint64, count uint32) (p9.Dirents, error), count uint32, max int) (ents []p9.Dirent, pages int, err error) {
	off := uint64(0)
	for {
		d, e := rd(off, count)
		if e == io.EOF {
			// the end of the directory, possibly with its last entries
			if len(d) > 0 {
				pages++
				ents = append(ents, d...)
			}
			return ents, pages, nil
		}
		if e != nil {
			return ents, pages, e
		}
		if len(d) == 0 {
			return ents, pages, nil
		}
		pages++
		ents = append(ents, d...)
		off = d[len(d)-1].Offset
		if len(ents) > max {
			return ents, pages, fmt.Errorf("listing does not terminate (>%d entries)", max)
		}
	}
}

func c19Compare(c *ev.Ctx, f *c19fs, route string, count uint32, ents []p9.Dirent, pages int, err error, dir p9.File, cc string) {
	det := map[string]any{"fs": f.kind, "route": route, "count": count, "dir_entries": len(f.names), "pages": pages}
	sigp := "C19:" + f.kind + ":" + route + ":"
	if err != nil {
		det["err"] = err.Error()
		c.Violation(sigp+"paged-listing-fails", det)
		return
	}
	got := map[string]int{}
	for _, e := range ents {
		got[e.Name]++
	}
	missing, dup := 0, 0
	var ex []string
	for _, n := range f.names {
		if got[n] == 0 {
			missing++
			if len(ex) < 3 {
				ex = append(ex, "missing:"+cutS(n, 20))
			}
		}
		if got[n] > 1 {
			dup++
			if len(ex) < 3 {
				ex = append(ex, "repeated:"+cutS(n, 20))
			}
		}
		delete(got, n)
	}
	if missing > 0 || dup > 0 || len(got) > 0 {
		det["missing"], det["repeated"], det["unknown"], det["examples"] = missing, dup, len(got), ex
		det["returned"] = len(ents)
		what := "entries-lost"
		if missing == 0 && dup > 0 {
			what = "entries-repeated"
		} else if missing == 0 {
			what = "unknown-entries"
		}
		c.Violation(sigp+"paged-listing-"+what, det)
		return
	}
	// QID / type agreement with Walk + GetAttr (sampled for big directories).
	step := 1
	if len(ents) > 64 && !c19CompareAll {
		step = len(ents) / 64
	}
	for i := 0; i < len(ents); i += step {
		e := ents[i]
		qids, wf, werr := dir.Walk([]string{e.Name})
		if werr != nil || len(qids) != 1 {
			c.Violation(sigp+"listed-entry-cannot-be-walked", map[string]any{"name": cutS(e.Name, 30), "err": fmt.Sprint(werr)})
			continue
		}
		gq, _, attr, gerr := wf.GetAttr(p9.AttrMaskAll)
		wf.Close()
		if gerr != nil {
			c.Violation(sigp+"listed-entry-getattr-fails", map[string]any{"name": cutS(e.Name, 30), "err": gerr.Error()})
			continue
		}
		if e.QID != qids[0] || e.QID != gq {
			c.Violation(sigp+"entry-QID-differs-from-Walk/GetAttr", map[string]any{"name": cutS(e.Name, 30), "readdir": e.QID.String(), "walk": qids[0].String(), "getattr": gq.String()})
		}
		if e.Type != e.QID.Type || e.Type != attr.Mode.QIDType() {
			c.Violation(sigp+"entry-type-differs", map[string]any{"name": cutS(e.Name, 30), "entry_type": e.Type, "qid_type": e.QID.Type, "mode": fmt.Sprintf("%o", attr.Mode)})
		}
		c.Count("qid_agreements_checked", 1)
	}
	c.Count("entries_listed", int64(len(ents)))
	c.Case(fmt.Sprintf("%s:%s:d%d:%s", f.kind, route, len(f.names), cc), pages >= 2)
	if c.WantSample() && pages >= 2 {
		c.Sample(map[string]any{"fs": f.kind, "route": route, "count": count, "dir_entries": len(f.names), "pages": pages, "first": cutS(ents[0].Name, 20)})
	}
}

func runC19(c *ev.Ctx) {
	sizes := []int{0, 1, 2, 3, 10, 100}
	if c.Thorough() {
		sizes = append(sizes, 1000, 5000)
	} else {
		sizes = append(sizes, 600)
	}
	nls := []int{1, 8, 255, 0}
	idx := 0
	for _, n := range sizes {
		for _, nl := range nls {
			if n > 1000 && nl == 255 {
				continue
			}
			for _, kind := range []string{"localfs", "staticfs", "composefs", "composefs-nested", "composefs-static-mount", "composefs-replaced", "staticfs-eof", "composefs-eof-mount"} {
				idx++
				if !c.Mine(idx) {
					continue
				}
				if strings.HasPrefix(kind, "composefs") && n > 600 {
					continue
				}
				var f *c19fs
				var err error
				switch kind {
				case "localfs":
					f, err = c19Local(c, n, nl)
				case "staticfs":
					f, err = c19Static(n, nl)
				case "composefs":
					f, err = c19Compose(c, n, nl, false)
				case "composefs-static-mount":
					f, err = c19StaticMount(n, nl)
				case "composefs-replaced":
					f, err = c19Replaced(c, n, nl)
				case "staticfs-eof":
					f, err = c19EOFMount(n, nl, false)
				case "composefs-eof-mount":
					f, err = c19EOFMount(n, nl, true)
				default:
					f, err = c19Compose(c, n, nl, true)
				}
				if err != nil {
					c.Inconclusive("C19 fixture: " + err.Error())
					continue
				}
				c.Begin(fmt.Sprintf("C19 %s n=%d namelen=%d", kind, n, nl))
				c19Direct(c, f, nl)
				c19Served(c, f, nl)
				f.clean()
			}
		}
	}
	c19ConcurrentFirst(c)
	os.RemoveAll(filepath.Join(c.Dir, "..", fmt.Sprintf("c19-%d-%d", os.Getpid(), c.Shard)))
}

func c19Open(att p9.Attacher, path []string) (root, dir p9.File, err error) {
	root, err = att.Attach()
	if err != nil {
		return nil, nil, err
	}
	dir = root
	for _, p := range path {
		_, nf, e := dir.Walk([]string{p})
		if e != nil {
			return nil, nil, e
		}
		dir = nf
	}
	return root, dir, nil
}

func c19Direct(c *ev.Ctx, f *c19fs, nl int) {
	n := len(f.names)
	// File.Readdir's count is "as many as fit in count": the implementations
	// here read it as a number of entries. Small counts are only meaningful
	// under that reading ("as long as one entry fits"): probe it.
	entrySemantics := false
	if n > 0 {
		if _, dir, err := c19Open(f.att, f.path); err == nil {
			if _, _, err := dir.Open(p9.ReadOnly); err == nil {
				if d, err := dir.Readdir(0, 1); err == nil && len(d) == 1 {
					entrySemantics = true
				}
			}
			dir.Close()
		}
	}
	counts := []uint32{300, 301, 4096, uint32(300 * maxI(n, 1)), 1<<32 - 1}
	if entrySemantics {
		counts = append(counts, 1, 2, 7, uint32(maxI(n-1, 1)), uint32(maxI(n, 1)), uint32(n+1))
	}
	for _, cnt := range counts {
		_, dir, err := c19Open(f.att, f.path)
		if err != nil {
			c.Inconclusive("C19 open: " + err.Error())
			return
		}
		// a second, unopened handle for Walk (an open directory is not walked)
		_, wdir, _ := c19Open(f.att, f.path)
		if _, _, err := dir.Open(p9.ReadOnly); err != nil {
			c.Inconclusive("C19 open: " + err.Error())
			return
		}
		ents, pages, perr := c19Page(dir.Readdir, cnt, 3*n+10)
		c19Compare(c, f, "direct", cnt, ents, pages, perr, wdir, fmt.Sprintf("n%d:c%s", nl, dcClass(cnt, n)))
		dir.Close()
		wdir.Close()
	}
}

func dcClass(cnt uint32, n int) string {
	switch {
	case cnt == 1<<32-1:
		return "max"
	case int(cnt) > n:
		return ">n"
	case int(cnt) == n:
		return "=n"
	case int(cnt) == n-1:
		return "n-1"
	}
	return fmt.Sprint(cnt)
}

func maxI(a, b int) int {
	if a > b {
		return a
	}
	return b
}

func c19Served(c *ev.Ctx, f *c19fs, nl int) {
	longest := 0
	for _, nm := range f.names {
		if len(nm) > longest {
			longest = len(nm)
		}
	}
	one := uint32(24 + longest)
	vseq := len(f.names) + nl
	for _, ms := range []uint32{4096, 65536, 1 << 20} {
		counts := []uint32{one, one + 1, 2*one - 1, 100, 4096, ms - 11, ms, 2 * ms, 1<<32 - 1}
		srv := p9.NewServer(f.att)
		cc, sc := net.Pipe()
		hd := make(chan struct{})
		go func() { srv.Handle(sc, sc); close(hd) }()
		var cl *p9.Client
		var err error
		ok := ev.Watch(60*time.Second, func() { cl, err = p9.NewClient(cc, p9.WithMessageSize(ms)) })
		if !ok || err != nil {
			c.Inconclusive(fmt.Sprintf("C19 served: NewClient: %v", err))
			cc.Close()
			continue
		}
		for ci, cnt := range counts {
			if cnt < one {
				continue // the statement requires that one entry fits
			}
			variants := c19Variants(f)
			vseq++
			variant := variants[(vseq+ci)%len(variants)]
			done := make(chan struct{})
			var l c19Listing
			go func() {
				defer close(done)
				l = c19List(cl, f, cnt, one, variant)
			}()
			if out, dump := quiesce.Await(done, 2*wd); out != quiesce.CondMet {
				hang(c, out, dump, "C19:"+f.kind+":served-listing-hangs", map[string]any{"count": cnt, "msize": ms, "history": variant})
				break
			}
			if l.wdir == nil {
				c.Inconclusive(fmt.Sprintf("C19 served setup (%s): %v", variant, l.err))
				continue
			}
			cmp := make(chan struct{})
			go func() {
				defer close(cmp)
				route := "served"
				if variant != "plain" {
					route = "served+" + variant
				}
				if l.other != nil {
					c19Compare(c, f, route+":second-fid", cnt, l.other, l.pages, l.err, l.wdir, fmt.Sprintf("n%d:ms%d:c%s", nl, ms, scClass(cnt, one, ms)))
				}
				c19Compare(c, f, route, cnt, l.ents, l.pages, l.err, l.wdir, fmt.Sprintf("n%d:ms%d:c%s", nl, ms, scClass(cnt, one, ms)))
				l.wdir.Close()
				if l.restore != nil {
					if e := l.restore(); e != nil {
						c.Inconclusive("C19 restore after rename: " + e.Error())
					}
				}
			}()
			if out, dump := quiesce.Await(cmp, 2*wd); out != quiesce.CondMet {
				hang(c, out, dump, "C19:"+f.kind+":served-walk-hangs", nil)
				break
			}
		}
		cc.Close()
		quiesce.Await(hd, wd)
	}
}

// c19Variants: the histories a listing fid may have behind it. None of them
// changes the directory's content.
func c19Variants(f *c19fs) []string {
	v := []string{"plain", "twice", "mixed-counts", "two-fids", "restart"}
	if f.writable {
		v = append(v, "renamed-before", "ancestor-renamed-before", "renamed-mid-listing", "ancestor-renamed-mid-listing")
	}
	return v
}

type c19Listing struct {
	ents, other []p9.Dirent
	pages       int
	err         error
	wdir        p9.File
	restore     func() error
}

// c19List lists f's directory through client cl with byte count cnt after /
// during the history named by variant.
func c19List(cl *p9.Client, f *c19fs, cnt, one uint32, variant string) (l c19Listing) {
	root, e := cl.Attach("")
	if e != nil {
		l.err = e
		return
	}
	open := func() (p9.File, error) {
		_, d, e := root.Walk(f.path)
		if e != nil {
			return nil, e
		}
		if _, _, e := d.Open(p9.ReadOnly); e != nil {
			return nil, e
		}
		return d, nil
	}
	_, wdir, e := root.Walk(f.path)
	if e != nil {
		l.err = e
		return
	}
	dir, e := open()
	if e != nil {
		l.err = e
		wdir.Close()
		return
	}
	defer dir.Close()
	l.wdir = wdir
	max := 3*len(f.names) + 10
	rename := func(anc bool) error {
		if anc {
			if e := root.RenameAt("top", root, "top2"); e != nil {
				return e
			}
			l.restore = func() error { return root.RenameAt("top2", root, "top") }
			return nil
		}
		_, top, e := root.Walk([]string{"top"})
		if e != nil {
			return e
		}
		if e := top.RenameAt("sub", top, "sub2"); e != nil {
			top.Close()
			return e
		}
		l.restore = func() error { defer top.Close(); return top.RenameAt("sub2", top, "sub") }
		return nil
	}
	switch variant {
	case "plain":
		l.ents, l.pages, l.err = c19Page(dir.Readdir, cnt, max)
	case "twice":
		if _, _, e := c19Page(dir.Readdir, cnt, max); e != nil {
			l.err = e
			return
		}
		l.ents, l.pages, l.err = c19Page(dir.Readdir, cnt, max)
	case "restart":
		if _, e := dir.Readdir(0, cnt); e != nil {
			l.err = e
			return
		}
		l.ents, l.pages, l.err = c19Page(dir.Readdir, cnt, max)
	case "mixed-counts":
		alt := []uint32{cnt, one, 2 * one, 4096, 3*one + 7}
		i := 0
		l.ents, l.pages, l.err = c19Page(func(off uint64, _ uint32) (p9.Dirents, error) {
			i++
			k := alt[i%len(alt)]
			if k < one {
				k = one
			}
			return dir.Readdir(off, k)
		}, cnt, max)
	case "two-fids":
		dir2, e := open()
		if e != nil {
			l.err = e
			return
		}
		defer dir2.Close()
		offA, offB := uint64(0), uint64(0)
		doneA, doneB := false, false
		for !doneA || !doneB {
			if !doneA {
				d, e := dir.Readdir(offA, cnt)
				if e != nil {
					l.err = e
					return
				}
				if len(d) == 0 {
					doneA = true
				} else {
					l.pages++
					l.ents = append(l.ents, d...)
					offA = d[len(d)-1].Offset
				}
			}
			if !doneB {
				d, e := dir2.Readdir(offB, cnt)
				if e != nil {
					l.err = e
					return
				}
				if len(d) == 0 {
					doneB = true
				} else {
					l.other = append(l.other, d...)
					offB = d[len(d)-1].Offset
				}
			}
			if len(l.ents) > max || len(l.other) > max {
				l.err = fmt.Errorf("listing does not terminate (>%d entries)", max)
				return
			}
		}
		if l.other == nil {
			l.other = []p9.Dirent{}
		}
	case "renamed-before", "ancestor-renamed-before":
		if e := rename(variant == "ancestor-renamed-before"); e != nil {
			l.err = fmt.Errorf("rename: %v", e)
			return
		}
		l.ents, l.pages, l.err = c19Page(dir.Readdir, cnt, max)
	case "renamed-mid-listing", "ancestor-renamed-mid-listing":
		first, e := dir.Readdir(0, cnt)
		if e != nil {
			l.err = e
			return
		}
		if e := rename(variant == "ancestor-renamed-mid-listing"); e != nil {
			l.err = fmt.Errorf("rename: %v", e)
			return
		}
		if len(first) == 0 {
			return
		}
		l.ents = append(l.ents, first...)
		off := first[len(first)-1].Offset
		rest, pages, e := c19Page(func(o uint64, k uint32) (p9.Dirents, error) {
			if o == 0 {
				o = off
			}
			return dir.Readdir(o, k)
		}, cnt, max)
		l.ents = append(l.ents, rest...)
		l.pages, l.err = pages+1, e
	}
	return
}

func scClass(cnt, one, ms uint32) string {
	switch {
	case cnt == one:
		return "one"
	case cnt == one+1:
		return "one+1"
	case cnt == 2*one-1:
		return "two-1"
	case cnt < ms-11:
		return "small"
	case cnt == ms-11:
		return "=lim"
	case cnt == 1<<32-1:
		return "max"
	}
	return ">lim"
}

var _ = sort.Strings

// c19ConcurrentFirst: a directory below a composefs mount is listed for the
// first time by several connections at once (the QID mapper behind a mount is
// shared by all connections of a server and sees every file for the first
// time). Every lister's entries must carry the QIDs that Walk and GetAttr
// report afterwards, each name exactly once.
func c19ConcurrentFirst(c *ev.Ctx) {
	rounds := c.Sz(160, 4000)
	c19CompareAll = true
	defer func() { c19CompareAll = false }()
	// the shards share the machine's cores; this workload needs its listers to
	// run truly in parallel
	defer runtime.GOMAXPROCS(runtime.GOMAXPROCS(8))
	var l *c19fs
	defer func() {
		if l != nil {
			l.clean()
		}
	}()
	for round := 0; round < rounds; round++ {
		if !c.Mine(round) {
			continue
		}
		if l == nil {
			var err error
			if l, err = c19Local(c, 300, 8); err != nil {
				c.Inconclusive("C19 concurrent fixture: " + err.Error())
				return
			}
		}
		c.Begin(fmt.Sprintf("C19 concurrent first listing round %d", round))
		// fresh attacher objects every round: a fresh mapper that has seen nothing
		cfs, err := composefs.New(composefs.WithMount("m", l.att), composefs.WithFile("sibling", staticfs.ReadOnlyFile("s")))
		if err != nil {
			c.Inconclusive("C19 concurrent composefs: " + err.Error())
			return
		}
		f := &c19fs{kind: "composefs-concurrent", names: l.names, att: cfs, path: append([]string{"m"}, l.path...)}
		srv := p9.NewServer(cfs)
		const K = 4
		type res struct {
			ents  []p9.Dirent
			pages int
			err   error
			cl    *p9.Client
			cc    net.Conn
		}
		rs := make([]res, K)
		okSetup := true
		for k := 0; k < K; k++ {
			cc, sc := net.Pipe()
			go srv.Handle(sc, sc)
			rs[k].cc = cc
			if !ev.Watch(60*time.Second, func() { rs[k].cl, rs[k].err = p9.NewClient(cc, p9.WithMessageSize(4096)) }) || rs[k].err != nil {
				okSetup = false
			}
		}
		if !okSetup {
			c.Inconclusive("C19 concurrent: NewClient")
			for k := range rs {
				rs[k].cc.Close()
			}
			continue
		}
		start := make(chan struct{})
		done := make(chan struct{})
		var wg sync.WaitGroup
		for k := 0; k < K; k++ {
			wg.Add(1)
			go func(k int) {
				defer wg.Done()
				root, e := rs[k].cl.Attach("")
				if e != nil {
					rs[k].err = e
					return
				}
				_, dir, e := root.Walk(f.path)
				if e != nil {
					rs[k].err = e
					return
				}
				if _, _, e := dir.Open(p9.ReadOnly); e != nil {
					rs[k].err = e
					return
				}
				<-start
				rs[k].ents, rs[k].pages, rs[k].err = c19Page(dir.Readdir, 700, 3*len(f.names)+10)
				dir.Close()
			}(k)
		}
		close(start)
		go func() { wg.Wait(); close(done) }()
		if out, dump := quiesce.Await(done, 2*wd); out != quiesce.CondMet {
			hang(c, out, dump, "C19:composefs-concurrent:listing-hangs", nil)
			return
		}
		cmp := make(chan struct{})
		go func() {
			defer close(cmp)
			root, e := rs[0].cl.Attach("")
			if e != nil {
				return
			}
			_, wdir, e := root.Walk(f.path)
			if e != nil {
				return
			}
			for k := 0; k < K; k++ {
				c19Compare(c, f, fmt.Sprintf("served:lister-%d-of-%d", k+1, K), 700, rs[k].ents, rs[k].pages, rs[k].err, wdir, "concurrent-first")
			}
			wdir.Close()
		}()
		if out, dump := quiesce.Await(cmp, 2*wd); out != quiesce.CondMet {
			hang(c, out, dump, "C19:composefs-concurrent:walk-hangs", nil)
			return
		}
		for k := range rs {
			rs[k].cc.Close()
		}
	}
}
