package checks

import (
	"errors"
	"fmt"
	"io/fs"
	"os"
	"strings"
	"syscall"
	"time"

	"github.com/hugelgupf/p9/linux"

	"verif/internal/ev"
	"verif/internal/memfs"
	"verif/internal/wire"
)

func init() {
	ev.Register(&ev.Spec{
		ID: "C15", Level: "fault_enumeration",
		Rule:    "for each base sequence (hand-written ones covering attach-with-path, multi-step walks, fid replacement so that Close runs inside a request, create-rebinding, rename with live fids in the renamed subtree so that Renamed runs, unlink/remove, xattr walk/create/clunk, plus PRNG sequences) a fault-free run counts the backend calls c, then the sequence is re-run c times with the fault at call index 1..c - exhaustive over indices - once as an error (errno kinds rotate: linux.Errno, syscall.Errno, os.Err* sentinels, %w-wrapped, *fs.PathError, errors.Join, opaque) and once as a panic. The faulted request must be answered Rlerror (the error's errno / EFAULT), the session model keeps judging every later reply after an error, the fid table is probed after every step (EBADF iff unbound), a second connection must still be served, and after an error every handle is closed exactly once when the connections end. Hand-written sequences include a rename fanning out over four held Files (after a panic in one Renamed no other File may be left at its old path) and renames onto an entry somebody holds a fid on (a refused rename leaves that fid what it was). Non-trivial: the fault fired inside a request; distinct by (sequence, fault index, kind).",
		Assume:  []string{"faults are applied before any backend mutation, so a faulted call has no backend-side effect", "after a panic: every request gets a reply on this and another connection, no later request is answered EFAULT (the one fault has fired), every bound fid can still be cloned and Tremove unbinds it, a Tclunk / Tremove in which the panic fired has unbound its fid, and when the connections have ended every File has been closed exactly once and none was used after its Close", "faults in Close during connection teardown are not injected (an unrecovered panic there would end the process; outside 'any request')"},
		Shards:  shards(8, 16),
		Timeout: timeout(8*time.Minute, 60*time.Minute),
		Run:     runC15,
	})
}

func c15Errors() []error {
	return []error{
		linux.ENOSPC, syscall.EACCES, os.ErrNotExist, os.ErrPermission, fmt.Errorf("wrapped: %w", linux.EROFS), &fs.PathError{Op: "open", Path: "/x", Err: syscall.ENAMETOOLONG},
		errors.Join(errors.New("first"), linux.EMLINK), errors.New("opaque failure"), os.ErrExist, fmt.Errorf("deep: %w", fmt.Errorf("deeper: %w", syscall.EXDEV)), linux.EIO, os.ErrInvalid,
	}
}

type c15step struct {
	conn int
	a    areq
}

func c15Fixed() [][]c15step {
	nf := u(wire.NOFID)
	s := func(rs ...areq) []c15step {
		var l []c15step
		for _, r := range rs {
			l = append(l, c15step{0, r})
		}
		return l
	}
	return [][]c15step{
		s(R(wire.Tattach, u(0), nf, "u", "a/b", u(wire.NOUID)), R(wire.Twalk, u(0), u(1), []string{"f"}), R(wire.Tlopen, u(1), u(0)), R(wire.Tread, u(1), u(0), u(8)), R(wire.Tclunk, u(1)), R(wire.Tclunk, u(0))),
		s(R(wire.Tattach, u(0), nf, "u", "", u(wire.NOUID)), R(wire.Twalk, u(0), u(1), []string{"a", "b", "f"}), R(wire.Twalk, u(0), u(1), []string{"a", "g"}), R(wire.Twalkgetattr, u(0), u(1), []string{"a", "b"}),
			R(wire.Tlcreate, u(1), "new", u(2), u(0644), u(0)), R(wire.Twrite, u(1), u(0), []byte("abc")), R(wire.Tfsync, u(1)), R(wire.Tclunk, u(1))),
		s(R(wire.Tattach, u(0), nf, "u", "", u(wire.NOUID)), R(wire.Twalk, u(0), u(1), []string{"a"}), R(wire.Twalk, u(0), u(2), []string{"a", "b", "f"}), R(wire.Twalk, u(0), u(3), []string{"a", "b"}),
			R(wire.Trenameat, u(0), "a", u(0), "z"), R(wire.Tgetattr, u(2), u(0x3fff)), R(wire.Trename, u(2), u(0), "moved"), R(wire.Tunlinkat, u(0), "moved", u(0)), R(wire.Twalk, u(3), u(4), []string{}), R(wire.Tclunk, u(2))),
		s(R(wire.Tattach, u(0), nf, "u", "", u(wire.NOUID)), R(wire.Twalk, u(0), u(1), []string{"f"}), R(wire.Txattrwalk, u(1), u(2), "user.x"), R(wire.Tread, u(2), u(0), u(11)), R(wire.Tclunk, u(2)),
			R(wire.Txattrwalk, u(1), u(2), ""), R(wire.Tclunk, u(2)), R(wire.Twalk, u(1), u(3), []string{}), R(wire.Txattrcreate, u(3), "user.n", u(3), u(0)), R(wire.Twrite, u(3), u(0), []byte("abc")), R(wire.Tclunk, u(3)),
			R(wire.Twalk, u(1), u(3), []string{}), R(wire.Txattrcreate, u(3), "user.x", u(0), u(2)), R(wire.Tclunk, u(3))),
		s(R(wire.Tattach, u(0), nf, "u", "", u(wire.NOUID)), R(wire.Twalk, u(0), u(1), []string{"a"}), R(wire.Tmkdir, u(1), "nd", u(0755), u(0)), R(wire.Tsymlink, u(1), "ns", "t", u(0)), R(wire.Tmknod, u(1), "nn", u(0010644), u(0), u(0), u(0)),
			R(wire.Twalk, u(0), u(2), []string{"f"}), R(wire.Tlink, u(1), u(2), "ln"), R(wire.Tremove, u(2)), R(wire.Twalk, u(1), u(3), []string{"g"}), R(wire.Tsetattr, u(3), u(1), u(0600), u(0), u(0), u(0), u(0), u(0), u(0), u(0)),
			R(wire.Tremove, u(3)), R(wire.Treadlink, u(1)), R(wire.Tstatfs, u(1)), R(wire.Tlock, u(1), u(1), u(0), u(0), u(1), u(1), "c")),
		s(R(wire.Tattach, u(0), nf, "u", "", u(wire.NOUID)), R(wire.Twalk, u(0), u(1), []string{"d"}), R(wire.Tlopen, u(1), u(0)), R(wire.Treaddir, u(1), u(0), u(4096)), R(wire.Twalk, u(0), u(2), []string{"l"}), R(wire.Treadlink, u(2)),
			R(wire.Twalk, u(0), u(1), []string{"a", "g"}), R(wire.Tlopen, u(1), u(2)), R(wire.Twrite, u(1), u(1), []byte("q")), R(wire.Tread, u(1), u(0), u(4)), R(wire.Tgetattr, u(1), u(0x3fff))),
		// c15FanOut: four fids below a directory that is then renamed - Renamed
		// is called on each of their Files (and on the intermediate ones). A
		// panic in one of those calls is the rename's; the other Files still
		// learn their new name. Nothing in this sequence unlinks anything: a
		// Tgetattr answered ENOENT afterwards means a File left at its old path.
		s(R(wire.Tattach, u(0), nf, "u", "", u(wire.NOUID)), R(wire.Twalk, u(0), u(1), []string{"a", "b", "f"}), R(wire.Twalk, u(0), u(2), []string{"a", "g"}), R(wire.Twalk, u(0), u(3), []string{"a", "l"}), R(wire.Twalk, u(0), u(4), []string{"a", "b"}),
			R(wire.Trenameat, u(0), "a", u(0), "z"), R(wire.Tgetattr, u(1), u(0x3fff)), R(wire.Tgetattr, u(3), u(0x3fff))),
		// a rename ONTO an entry somebody holds a fid on (and a Trename likewise):
		// if the backend refuses it, that fid is what it was - it can still be
		// opened, walked from, written through
		s(R(wire.Tattach, u(0), nf, "u", "", u(wire.NOUID)), R(wire.Twalk, u(0), u(1), []string{"a", "g"}), R(wire.Twalk, u(0), u(2), []string{"a"}), R(wire.Twalk, u(0), u(3), []string{"d"}), R(wire.Twalk, u(0), u(4), []string{"f"}),
			R(wire.Trenameat, u(0), "f", u(2), "g"), R(wire.Tlopen, u(1), u(2)), R(wire.Twrite, u(1), u(0), []byte("x")),
			R(wire.Trename, u(4), u(0), "d"), R(wire.Twalk, u(3), u(1), []string{}), R(wire.Tmkdir, u(3), "sub", u(0755), u(0))),
	}
}

// c15FanOut is the index of the fan-out sequence in c15Fixed.
const c15FanOut = 6

func c15Random(r *ev.Rand) []c15step {
	fsx := fixture()
	st := newStepper(nil, "gen", fsx, 1)
	defer st.close()
	g := &seqGen{r: r, fs: fsx, w: st.w, nconn: 1, rename: 30, maxfid: 4}
	var seq []c15step
	seq = append(seq, c15step{0, R(wire.Tattach, u(0), u(wire.NOFID), "u", "", u(wire.NOUID))})
	st.quiet = true
	st.step(0, seq[0].a.t, seq[0].a.vals...)
	for len(seq) < 12 && !st.dead {
		conn, a := g.next()
		v := st.w.Judge(conn, wire.Msg{Type: a.t, F: a.vals})
		if v.DontCare || (len(v.Reject) > 0 && r.Chance(80)) {
			continue
		}
		seq = append(seq, c15step{conn, a})
		st.step(conn, a.t, a.vals...)
	}
	return seq
}

// c15Run executes a sequence with an optional fault; returns the number of
// (unpaused) backend calls made.
func c15Run(c *ev.Ctx, seq []c15step, si int, faultAt int, ferr error, kind string) int64 {
	fsx := fixture()
	fsx.AltWalkGetAttr = true
	st := newStepper(c, "C15", fsx, 2)
	defer st.close()
	if st.dead {
		c.Inconclusive("C15 setup")
		return 0
	}
	// second connection: a witness that other connections keep being served
	fsx.PauseFaults(true)
	st.step(1, wire.Tattach, u(0), u(wire.NOFID), "u", "", u(wire.NOUID))
	fsx.PauseFaults(false)
	base := fsx.TotalCalls()
	var fault *memfs.Fault
	if faultAt > 0 {
		fault = fsx.FaultAt(faultAt, "", ferr)
	}
	fired := false
	firedAt := -1
	var firedMethod, firedPath string
	panicSpread := false
	for i, s := range seq {
		if st.dead {
			break
		}
		c.Begin(fmt.Sprintf("C15 seq %d fault@%d kind=%s step %d %s", si, faultAt, kind, i, s.a.String()))
		was := fault != nil && fsx.Hit(fault)
		if st.relax {
			// after a panic: every request must still get some reply - and no
			// other request is affected: the one fault has fired, nothing can
			// panic inside the server any more, so EFAULT must not appear again
			r := st.step(s.conn, s.a.t, s.a.vals...)
			if !r.ok {
				break
			}
			if r.reply.Type == wire.Rlerror && len(r.reply.F) == 1 && r.reply.F[0].(uint64) == EFAULT {
				c.Violation("C15:later-request-answered-EFAULT-after-a-panic-in-"+firedMethod+":"+wire.TypeName(s.a.t), map[string]any{"request": s.a.String(), "panic_was_in": firedMethod, "trace": st.tail()})
				panicSpread = true
			}
			continue
		}
		if st.w.Judge(s.conn, wire.Msg{Type: s.a.t, F: s.a.vals}).DontCare {
			continue
		}
		if fault != nil && !was && ferr == nil {
			// the panic may fire in this step: judge it here
			mark := fsx.NCalls()
			res := st.peers[s.conn].RPC(s.a.t, s.a.vals...)
			st.trace = append(st.trace, fmt.Sprintf("c%d %s -> %s", s.conn, s.a.String(), res.Msg.String()))
			if !res.OK {
				hang(c, res.Out, res.Dump, "C15:request-with-panicking-backend-unanswered", map[string]any{"trace": st.tail()})
				st.dead = true
				break
			}
			if fsx.Hit(fault) {
				fired, firedAt = true, i
				for _, cl := range fsx.Calls(mark) {
					if cl.Fault != "" {
						firedMethod, firedPath = cl.Method, cl.Path
					}
				}
				if res.Msg.Type != wire.Rlerror || res.Errno() != EFAULT {
					c.Violation("C15:panic-not-answered-EFAULT:in-"+firedMethod, map[string]any{"reply": res.Msg.String(), "trace": st.tail()})
				}
				if s.a.t == wire.Tclunk || s.a.t == wire.Tremove {
					// "Tclunk and Tremove always unbind their fid whatever else
					// they report" - EFAULT included
					fsx.PauseFaults(true)
					if g := st.peers[s.conn].RPC(wire.Tgetattr, s.a.vals[0], u(1)); g.OK && g.Errno() != EBADF {
						c.Violation("C15:fid-still-bound-after-"+wire.TypeName(s.a.t)+"-whose-backend-call-panicked:in-"+firedMethod, map[string]any{"request": s.a.String(), "probe": g.Msg.String(), "trace": st.tail()})
					}
					fsx.PauseFaults(false)
				}
				st.relax = true
				continue
			}
			// no panic in this step: judge it normally (replay through the model)
			st.judgeDone(s.conn, wire.Msg{Type: s.a.t, F: s.a.vals}, res, fsx.Calls(mark))
		} else {
			mark := fsx.NCalls()
			r := st.step(s.conn, s.a.t, s.a.vals...)
			if !r.ok {
				break
			}
			if fault != nil && !was && fsx.Hit(fault) {
				fired, firedAt = true, i
				for _, cl := range fsx.Calls(mark) {
					if cl.Fault != "" {
						firedMethod, firedPath = cl.Method, cl.Path
					}
				}
			}
		}
		fsx.PauseFaults(true)
		st.probe(4, false)
		// other connection still served?
		if r := st.step(1, wire.Tgetattr, u(0), u(0x3fff)); r.ok && r.reply.Type != wire.Rgetattr {
			c.Violation("C15:other-connection-not-served-properly", map[string]any{"reply": r.reply.String(), "trace": st.tail()})
		}
		fsx.PauseFaults(false)
	}
	calls := fsx.TotalCalls() - base
	if faultAt > 0 {
		c.Case(fmt.Sprintf("seq%d:fault%d:%s", si, faultAt, kind), fired)
		if fired {
			c.SetAdd("fault_sites", firedMethod+":"+kind)
			c.Count("faults_fired_"+kind, 1)
			_ = firedAt
		}
	}
	// after the fault: this and a fresh connection must be served on the same paths
	fsx.ClearFaults()
	fsx.PauseFaults(true)
	if !st.dead && st.relax && !panicSpread {
		// after a panic: every fid that is still bound can be cloned, and
		// Tremove unbinds it - no request other than the faulted one is affected
		for conn := range st.peers {
			for fid := uint64(0); fid <= 4 && !st.dead; fid++ {
				p := st.peers[conn]
				g := p.RPC(wire.Tgetattr, u(fid), u(1))
				if !g.OK {
					hang(c, g.Out, g.Dump, "C15:connection-not-served-after-fault", map[string]any{"kind": kind, "trace": st.tail()})
					st.dead = true
					break
				}
				if g.Errno() == EBADF {
					continue
				}
				// (the File whose own Renamed panicked never learnt its name, nor
				// did the Files that compute theirs from it: the backend's affair)
				orig := map[uint64]string{1: "/a/b/f", 2: "/a/g", 3: "/a/l", 4: "/a/b"}[fid]
				if si == c15FanOut && g.Errno() == ENOENT && firedPath != "" && orig != firedPath && !strings.HasPrefix(orig, firedPath+"/") {
					c.Violation("C15:another-File-left-at-its-old-path-after-a-panic-in-"+firedMethod, map[string]any{"fid": fid, "panic_was_in": firedMethod, "trace": st.tail()})
					break
				}
				for _, q := range []struct {
					what string
					t    uint8
					vals []any
				}{{"clone", wire.Twalk, []any{u(fid), u(9), []string{}}}, {"clunk-of-clone", wire.Tclunk, []any{u(9)}}, {"Tremove", wire.Tremove, []any{u(fid)}}, {"probe", wire.Tgetattr, []any{u(fid), u(1)}}} {
					if fid == 0 && q.what != "clone" && q.what != "clunk-of-clone" {
						continue // the root fid is kept for the checks below
					}
					r := p.RPC(q.t, q.vals...)
					st.trace = append(st.trace, fmt.Sprintf("c%d epilogue %s fid=%d -> %s", conn, q.what, fid, r.Msg.String()))
					if !r.OK {
						hang(c, r.Out, r.Dump, "C15:connection-not-served-after-fault", map[string]any{"kind": kind, "trace": st.tail()})
						st.dead = true
						break
					}
					if r.Errno() == EFAULT {
						c.Violation("C15:later-request-answered-EFAULT-after-a-panic-in-"+firedMethod+":"+q.what, map[string]any{"fid": fid, "panic_was_in": firedMethod, "trace": st.tail()})
						break
					}
					if q.what == "probe" && r.Errno() != EBADF {
						c.Violation("C15:Tremove-does-not-unbind-after-a-panic-in-"+firedMethod, map[string]any{"fid": fid, "reply": r.Msg.String(), "trace": st.tail()})
					}
				}
			}
		}
	}
	if !st.dead {
		for _, p := range [][]string{{"a"}, {"a", "b"}, {"f"}, {}} {
			r := st.peers[1].RPC(wire.Twalk, u(0), u(9), append([]string{}, p...))
			if !r.OK {
				hang(c, r.Out, r.Dump, "C15:path-not-served-after-fault(lock-leak?)", map[string]any{"path": p, "kind": kind, "trace": st.tail()})
				st.dead = true
				break
			}
		}
		if !st.dead {
			if r := st.peers[0].RPC(wire.Tstatfs, u(0)); !r.OK {
				hang(c, r.Out, r.Dump, "C15:connection-not-served-after-fault", map[string]any{"kind": kind, "trace": st.tail()})
				st.dead = true
			}
		}
	}
	// teardown: lifecycle accounting (after an error; a panic may strand state)
	for _, p := range st.peers {
		out, dump := p.Close()
		hang(c, out, dump, "C15:Handle-does-not-return-after-fault", map[string]any{"kind": kind, "trace": st.tail()})
	}
	if ferr != nil || faultAt == 0 {
		for _, v := range fsx.LifecycleViolations(true) {
			c.Violation("C15:lifecycle-after-backend-error:"+v, map[string]any{"fault_at": faultAt, "kind": kind, "fault_in": firedMethod, "trace": st.tail()})
		}
	} else if fired {
		// after a panic: C15 itself demands service only, but C05 is universal
		// ("every File ... closed exactly once"): a panic in one backend call
		// does not entitle the server to leave other Files open for good, or
		// to use one after its Close
		for _, v := range fsx.LifecycleViolations(true) {
			c.Violation("C15:lifecycle-after-backend-panic-in-"+firedMethod+":"+v, map[string]any{"fault_at": faultAt, "fault_in": firedMethod, "trace": st.tail()})
		}
	}
	return calls
}

func runC15(c *ev.Ctx) {
	r := c.Rand("c15")
	seqs := c15Fixed()
	for i := 0; i < c.Sz(40, 8000); i++ {
		seqs = append(seqs, c15Random(r.Fork(uint64(i))))
	}
	errs := c15Errors()
	idx := 0
	total := 0
	for si, seq := range seqs {
		idx++
		if !c.Mine(idx) {
			continue
		}
		calls := c15Run(c, seq, si, 0, nil, "none")
		c.Case(fmt.Sprintf("seq%d:base", si), true)
		if calls == 0 {
			continue
		}
		for k := 1; k <= int(calls); k++ {
			e := errs[(k+si)%len(errs)]
			c15Run(c, seq, si, k, e, "error")
			c15Run(c, seq, si, k, nil, "panic")
			total += 2
		}
		if c.WantSample() {
			var l []string
			for _, s := range seq {
				l = append(l, s.a.String())
			}
			c.Sample(map[string]any{"sequence": l, "backend_calls": calls, "faulted_runs": 2 * calls})
		}
	}
	c.Exhaustive(true)
	c.Count("faulted_runs", int64(total))
}
