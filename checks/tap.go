package checks

import (
	"encoding/binary"
	"io"
	"net"
	"sync"

	"github.com/hugelgupf/p9/p9"

	"verif/internal/wire"
)

// tapFrame is one frame seen by the tap.
type tapFrame struct {
	toServer bool
	raw      []byte
	msg      wire.Msg
	trailing int
	err      error
}

// tap is a pass-through between a real client and a real server that parses
// both directions with the reference codec. It can rewrite the version string
// of Tversion so that both ends agree on any version N.
type tap struct {
	cEnd net.Conn // handed to the client
	sEnd net.Conn // handed to the server
	mu   sync.Mutex
	fr   []tapFrame
	ver  int // -1: leave Tversion alone
	done chan struct{}
}

func newTap(version int) *tap {
	c1, c2 := net.Pipe() // client <-> tap
	s1, s2 := net.Pipe() // tap <-> server
	t := &tap{cEnd: c1, sEnd: s2, ver: version, done: make(chan struct{}, 2)}
	go t.pump(c2, s1, true)
	go t.pump(s1, c2, false)
	return t
}

func (t *tap) pump(from, to net.Conn, toServer bool) {
	defer func() { to.Close(); t.done <- struct{}{} }()
	for {
		var h [4]byte
		if _, err := io.ReadFull(from, h[:]); err != nil {
			return
		}
		size := binary.LittleEndian.Uint32(h[:])
		if size < 7 || size > 64<<20 {
			return
		}
		raw := make([]byte, size)
		copy(raw, h[:])
		if _, err := io.ReadFull(from, raw[4:]); err != nil {
			return
		}
		m, trailing, err := wire.Decode(raw)
		out := raw
		if toServer && err == nil && m.Type == wire.Tversion && t.ver >= 0 {
			out = wire.Encode(wire.Tversion, m.Tag, m.F[0], wire.VersionString(uint32(t.ver)))
		}
		t.mu.Lock()
		t.fr = append(t.fr, tapFrame{toServer, raw, m, trailing, err})
		t.mu.Unlock()
		if _, err := to.Write(out); err != nil {
			return
		}
	}
}

func (t *tap) n() int {
	t.mu.Lock()
	defer t.mu.Unlock()
	return len(t.fr)
}

func (t *tap) since(from int) []tapFrame {
	t.mu.Lock()
	defer t.mu.Unlock()
	return append([]tapFrame(nil), t.fr[from:]...)
}

func (t *tap) close() {
	t.cEnd.Close()
	t.sEnd.Close()
}

// ---- the harness's own statement of how p9 values appear on the wire ----

func wQID(q p9.QID) wire.QID { return wire.QID{Type: uint8(q.Type), Version: q.Version, Path: q.Path} }

func wQIDs(qs []p9.QID) []wire.QID {
	out := []wire.QID{}
	for _, q := range qs {
		out = append(out, wQID(q))
	}
	return out
}

// Getattr request/valid mask bits (Linux include/net/9p/9p.h P9_GETATTR_*).
func wMask(m p9.AttrMask) uint64 {
	var b uint64
	set := func(c bool, bit uint64) {
		if c {
			b |= bit
		}
	}
	set(m.Mode, 0x1)
	set(m.NLink, 0x2)
	set(m.UID, 0x4)
	set(m.GID, 0x8)
	set(m.RDev, 0x10)
	set(m.ATime, 0x20)
	set(m.MTime, 0x40)
	set(m.CTime, 0x80)
	set(m.INo, 0x100)
	set(m.Size, 0x200)
	set(m.Blocks, 0x400)
	set(m.BTime, 0x800)
	set(m.Gen, 0x1000)
	set(m.DataVersion, 0x2000)
	return b
}

func maskFromBits(b uint64) p9.AttrMask {
	return p9.AttrMask{Mode: b&1 != 0, NLink: b&2 != 0, UID: b&4 != 0, GID: b&8 != 0, RDev: b&16 != 0, ATime: b&32 != 0, MTime: b&64 != 0, CTime: b&128 != 0,
		INo: b&256 != 0, Size: b&512 != 0, Blocks: b&1024 != 0, BTime: b&2048 != 0, Gen: b&4096 != 0, DataVersion: b&8192 != 0}
}

// Setattr valid bits (P9_SETATTR_*).
func wSetMask(m p9.SetAttrMask) uint64 {
	var b uint64
	set := func(c bool, bit uint64) {
		if c {
			b |= bit
		}
	}
	set(m.Permissions, 0x1)
	set(m.UID, 0x2)
	set(m.GID, 0x4)
	set(m.Size, 0x8)
	set(m.ATime, 0x10)
	set(m.MTime, 0x20)
	set(m.CTime, 0x40)
	set(m.ATimeNotSystemTime, 0x80)
	set(m.MTimeNotSystemTime, 0x100)
	return b
}

func setMaskFromBits(b uint64) p9.SetAttrMask {
	return p9.SetAttrMask{Permissions: b&1 != 0, UID: b&2 != 0, GID: b&4 != 0, Size: b&8 != 0, ATime: b&16 != 0, MTime: b&32 != 0, CTime: b&64 != 0,
		ATimeNotSystemTime: b&128 != 0, MTimeNotSystemTime: b&256 != 0}
}

func wAttr(a p9.Attr) []any {
	return []any{uint64(a.Mode), uint64(a.UID), uint64(a.GID), uint64(a.NLink), uint64(a.RDev), a.Size, a.BlockSize, a.Blocks,
		a.ATimeSeconds, a.ATimeNanoSeconds, a.MTimeSeconds, a.MTimeNanoSeconds, a.CTimeSeconds, a.CTimeNanoSeconds, a.BTimeSeconds, a.BTimeNanoSeconds, a.Gen, a.DataVersion}
}

func wStat(s p9.FSStat) []any {
	return []any{uint64(s.Type), uint64(s.BlockSize), s.Blocks, s.BlocksFree, s.BlocksAvailable, s.Files, s.FilesFree, s.FSID, uint64(s.NameLength)}
}

func wDirents(d p9.Dirents) []wire.Dirent {
	var out []wire.Dirent
	for _, e := range d {
		out = append(out, wire.Dirent{QID: wQID(e.QID), Offset: e.Offset, Type: uint8(e.Type), Name: e.Name})
	}
	return out
}
