package checks

import (
	"fmt"
	"strings"
	"time"

	"github.com/hugelgupf/p9/p9"

	"verif/internal/ev"
	"verif/internal/fakesrv"
	"verif/internal/quiesce"
	"verif/internal/rawpeer"
	"verif/internal/wire"
)

func init() {
	ev.Register(&ev.Spec{
		ID: "C12", Level: "exploration",
		Rule:    "server: every (msize, version string) pair of a boundary grid (+PRNG pairs) sent as Tversion on a fresh connection, mid-session and repeatedly; client: every (offered version, offered msize, EAGAIN count) answered by a scripted fake server, then every client method exercised with the request-stream monitor on. Non-trivial: the pair reaches the version parser (msize != 0) or the client accepts the reply; distinct by (msize class, string class) / (offer class).",
		Assume:  []string{"internal/wire ParseVersion is the reference reading of version strings", "net.Pipe transport", "numbers with leading zeros or beyond 2^32-1 are ambiguous in the statement: both readings accepted"},
		Shards:  shards(4, 8),
		Timeout: timeout(5*time.Minute, 30*time.Minute),
		Run:     runC12,
	})
}

// versionClass classifies a version string by the reference reading:
// "valid" (canonical), "ambiguous" (leading zeros / overflow digits), "invalid".
func versionClass(s string) (class string, n uint64) {
	if s == "9P2000.L" {
		return "valid", 0
	}
	const pfx = "9P2000.L.Google."
	if !strings.HasPrefix(s, pfx) || len(s) == len(pfx) {
		return "invalid", 0
	}
	d := s[len(pfx):]
	for _, c := range []byte(d) {
		if c < '0' || c > '9' {
			return "invalid", 0
		}
	}
	var v uint64
	over := false
	for _, c := range []byte(d) {
		v = v*10 + uint64(c-'0')
		if v > 0xFFFFFFFF {
			over = true
			v = 0xFFFFFFFF + 1
		}
	}
	if over {
		return "ambiguous", 7 // min(N,7) reading
	}
	if len(d) > 1 && d[0] == '0' {
		return "ambiguous", v
	}
	return "valid", v
}

type verOutcome struct {
	msize uint64
	ver   string
}

func expectRversion(msize uint32, s string) []verOutcome {
	unknown := verOutcome{0, "unknown"}
	if msize == 0 {
		return []verOutcome{unknown}
	}
	class, n := versionClass(s)
	ms := uint64(msize)
	if ms > mib4 {
		ms = mib4
	}
	if n > 7 {
		n = 7
	}
	good := verOutcome{ms, wire.VersionString(uint32(n))}
	switch class {
	case "valid":
		return []verOutcome{good}
	case "ambiguous":
		return []verOutcome{good, unknown}
	}
	return []verOutcome{unknown}
}

func c12Strings(r *ev.Rand, extra int) []string {
	l := []string{"9P2000.L", "9P2000", "9P2000.u", "9P1000.L", "unknown", "", "9p2000.l", "9P2000.L.", "9P2000.L.Google",
		"9P2000.L.Google.", "9P2000.L.google.1", "9P2000.L.Google.1.", "9P2000.L.Google.1.2", ".9P2000.L.Google.1", "9P2000.L.Google..1",
		"9P2000.L.Google.+7", "9P2000.L.Google.-1", "9P2000.L.Google.1e3", "9P2000.L.Google.0x7", "9P2000.L.Google. 7", "9P2000.L.Google.7 ",
		"9P2000.L.Google.07", "9P2000.L.Google.007", "9P2000.L.Google.00", "9P2000.L.Google.4294967295", "9P2000.L.Google.4294967296",
		"9P2000.L.Google.99999999999999999999", "9P2000.L.Google.18446744073709551616", "9P2000.L\x00", "9P2000.L.Google.7\x00", "9P2000.LL", "9P2000.L.Google.٧",
		"9P2000.u.Google.1", "9P2000.Google.1", "Google.1", "9P2000.L.Google.1/2", strings.Repeat("9", 65535), "9P2000.L.Google." + strings.Repeat("0", 65000) + "7",
		"9P2000.L.Google." + strings.Repeat("1", 300)}
	for n := 0; n <= 12; n++ {
		l = append(l, fmt.Sprintf("9P2000.L.Google.%d", n))
	}
	for _, n := range []uint64{15, 16, 255, 256, 65535, 65536, 1 << 31, 1<<32 - 2} {
		l = append(l, fmt.Sprintf("9P2000.L.Google.%d", n))
	}
	for i := 0; i < extra; i++ {
		switch r.Intn(4) {
		case 0:
			l = append(l, fmt.Sprintf("9P2000.L.Google.%d", r.U64()>>uint(r.Intn(64))))
		case 1:
			l = append(l, string(r.Bytes(r.Intn(40))))
		case 2: // mutate a valid string
			b := []byte(fmt.Sprintf("9P2000.L.Google.%d", r.Intn(12)))
			b[r.Intn(len(b))] ^= byte(1 << uint(r.Intn(8)))
			l = append(l, string(b))
		default:
			l = append(l, "9P2000.L.Google."+string(r.Bytes(1+r.Intn(6))))
		}
	}
	return l
}

func strClass(s string) string {
	c, n := versionClass(s)
	if c == "invalid" {
		if len(s) > 24 {
			return "invalid:long"
		}
		return "invalid:" + s
	}
	if n > 8 {
		n = 8
	}
	return fmt.Sprintf("%s:%d", c, n)
}

func msClass(m uint32) string {
	switch {
	case m == 0:
		return "0"
	case m < 7:
		return "<hdr"
	case m < 24:
		return "<min"
	case m < mib4:
		return "mid"
	case m == mib4:
		return "cap"
	default:
		return ">cap"
	}
}

func runC12(c *ev.Ctx) {
	c12Server(c)
	c12Pipelined(c)
	c12Client(c)
}

func checkRversion(c *ev.Ctx, res rawpeer.Result, msize uint32, s string, where string) {
	key := "srv:" + where + ":" + msClass(msize) + ":" + strClass(s)
	c.Case(key, msize != 0)
	if c.WantSample() {
		c.Sample(map[string]any{"route": "server/" + where, "msize": msize, "version": ev.H(s) % 1000, "version_str": cutS(s, 60), "reply": res.Msg.String()})
	}
	if !res.OK {
		if res.Out == quiesce.CondMet {
			c.Violation("C12:srv:Tversion-not-answered:connection-ended", map[string]any{"msize": msize, "version": cutS(s, 80), "where": where})
		} else {
			hang(c, res.Out, res.Dump, "C12:srv:Tversion-not-answered:hang", map[string]any{"msize": msize, "version": cutS(s, 80)})
		}
		return
	}
	if res.Msg.Type != wire.Rversion {
		c.Violation("C12:srv:Tversion-answered-with-"+wire.TypeName(res.Msg.Type), map[string]any{"msize": msize, "version": cutS(s, 80), "reply": res.Msg.String(), "where": where})
		return
	}
	got := verOutcome{res.Msg.F[0].(uint64), res.Msg.F[1].(string)}
	exp := expectRversion(msize, s)
	ok := false
	for _, e := range exp {
		if e == got {
			ok = true
		}
	}
	if !ok {
		cls, _ := versionClass(s)
		c.Violation(fmt.Sprintf("C12:srv:Rversion-mismatch:%s:%s", msClass(msize), cls), map[string]any{"msize": msize, "version": cutS(s, 80), "got": got.ver, "got_msize": got.msize, "want": fmt.Sprint(exp), "where": where})
		return
	}
	// parses back to the same number
	if got.ver != "unknown" {
		n, ok := wire.ParseVersion(got.ver)
		_, want := versionClass(s)
		if want > 7 {
			want = 7
		}
		if !ok || uint64(n) != want {
			c.Violation("C12:srv:Rversion-does-not-parse-back", map[string]any{"version": cutS(s, 80), "got": got.ver})
		}
	}
}

func cutS(s string, n int) string {
	if len(s) > n {
		return fmt.Sprintf("%q…(%d bytes)", s[:n], len(s))
	}
	return fmt.Sprintf("%q", s)
}

func c12Server(c *ev.Ctx) {
	r := c.Rand("c12srv")
	msizes := []uint32{0, 1, 6, 7, 22, 23, 24, 4095, 4096, 65536, mib4 - 1, mib4, mib4 + 1, 1 << 31, 1<<32 - 1}
	for i := 0; i < c.Sz(3, 40); i++ {
		msizes = append(msizes, uint32(r.U64()>>uint(r.Intn(32)+32)))
	}
	strs := c12Strings(r, c.Sz(600, 60000))
	srv := p9.NewServer(noAttach{})
	idx := 0
	for _, s := range strs {
		for _, ms := range msizes {
			idx++
			if !c.Mine(idx) {
				continue
			}
			c.Begin(fmt.Sprintf("C12 server fresh msize=%d version=%q", ms, cutS(s, 100)))
			p := rawpeer.New(srv, nil)
			res := p.Version(ms, s)
			checkRversion(c, res, ms, s, "fresh")
			for _, m := range p.Monitor() {
				if !strings.HasPrefix(m, "msize-exceeded:Rversion") {
					c.Violation("C12:srv:reply-stream:"+firstWord(m), map[string]any{"monitor": m})
				}
			}
			out, dump := p.Close()
			hang(c, out, dump, "C12:srv:Handle-does-not-return", map[string]any{"msize": ms, "version": cutS(s, 80)})
		}
	}
	// Mid-session and repeated Tversion on one connection.
	seqs := c.Sz(2000, 20000)
	for k := 0; k < seqs; k++ {
		idx++
		if !c.Mine(idx) {
			continue
		}
		rr := r.Fork(uint64(k))
		p := rawpeer.New(srv, nil)
		c.Begin(fmt.Sprintf("C12 server mid-session seq %d", k))
		alive := true
		limit := uint64(mib4) // the msize in force: only an accepted Tversion changes it
		for step := 0; step < 8 && alive; step++ {
			ms := ev.Pick(rr, []uint32{4096, 8192, 65536, mib4, mib4 + 1, 0, 1 << 20, 1, 6, 7, 16, 20, 24, 64, 100})
			s := ev.Pick(rr, strs)
			if len(s) > 4000 {
				s = "9P2000.L"
			}
			if rr.Chance(50) {
				s = fmt.Sprintf("9P2000.L.Google.%d", rr.Intn(10))
			}
			if ms < 200 && rr.Chance(70) {
				// a refused offer with a tiny msize must leave the limit alone
				s = ev.Pick(rr, []string{"9P2000", "9P2000.u", "unknown", "9P2000.L.Google.-1", "junk", ""})
			}
			if uint64(7+4+2+len(s)) > limit {
				break // this Tversion itself would exceed the msize in force
			}
			res := p.Version(ms, s)
			checkRversion(c, res, ms, s, "mid-session")
			if !res.OK {
				alive = false
				break
			}
			if res.Msg.Type == wire.Rversion && res.Msg.F[1].(string) != "unknown" {
				limit = res.Msg.F[0].(uint64)
			}
			// other traffic in between: a request on an unbound fid (19 bytes)
			if rr.Bool() && limit >= 19 {
				g := p.RPC(wire.Tgetattr, uint64(rr.Intn(5)), uint64(0x7ff))
				if !g.OK {
					det := map[string]any{"msize_in_force": limit, "last_offer_msize": ms, "last_offer_version": cutS(s, 40), "last_reply": res.Msg.String()}
					if g.Out == quiesce.CondMet {
						c.Violation("C12:srv:connection-ended-by-a-frame-within-the-msize-in-force", det)
					} else {
						hang(c, g.Out, g.Dump, "C12:srv:request-after-version-unanswered", det)
					}
					alive = false
				}
			}
		}
		p.Monitor()
		p.Close()
	}
}

func firstWord(s string) string {
	if i := strings.IndexByte(s, ' '); i > 0 {
		return s[:i]
	}
	return s
}

// c12Client: NewClient against scripted Rversion replies.
func c12Client(c *ev.Ctx) {
	r := c.Rand("c12cli")
	type offer struct {
		ver    string
		msize  uint32
		eagain int // Rlerror(EAGAIN) this many times first
		req    uint32
		errno  uint64 // if non-zero: answer Tversion with this Rlerror
	}
	var offers []offer
	vers := []string{"9P2000.L", "9P2000.u", "9P2000", "unknown", "", "garbage", "9P2000.L.Google.x", "9P2000.L.Google.", "9P1000.L"}
	for n := 0; n <= 7; n++ {
		vers = append(vers, fmt.Sprintf("9P2000.L.Google.%d", n))
	}
	reqs := []uint32{4096, 8192, 65536, 1 << 20}
	for _, v := range vers {
		for _, rq := range reqs {
			for _, ms := range []uint32{rq, rq / 2, rq - 1, 2048, 1024, 512, 256, 200, 160, 154, 153, 152, 64, 24, 23, 7, 1, 0} {
				offers = append(offers, offer{ver: v, msize: ms, req: rq})
			}
		}
		offers = append(offers, offer{ver: v, msize: 4096, req: 4096, eagain: 1}, offer{ver: v, msize: 4096, req: 4096, eagain: 3})
	}
	offers = append(offers, offer{ver: "9P2000.L", msize: 4096, req: 4096, eagain: 8}, offer{ver: "9P2000.L", msize: 4096, req: 4096, eagain: 9},
		offer{ver: "9P2000.L", msize: 4096, req: 4096, errno: 22}, offer{ver: "9P2000.L", msize: 4096, req: 4096, errno: 5})
	for i := 0; i < c.Sz(100, 3000); i++ {
		offers = append(offers, offer{ver: ev.Pick(r, vers), msize: uint32(r.Intn(70000)), req: ev.Pick(r, reqs), eagain: r.Intn(3) * r.Intn(2)})
	}
	for i, o := range offers {
		if !c.Mine(i) {
			continue
		}
		c.Begin(fmt.Sprintf("C12 client offer %+v", o))
		left := o.eagain
		var sawVersions []string
		fs := fakesrv.New(nil)
		auto := fakesrv.Auto(0, 7)
		fs.Handler = func(s *fakesrv.Server, rq *fakesrv.Req) {
			if rq.Err == nil && rq.Msg.Type == wire.Tversion {
				sawVersions = append(sawVersions, rq.Msg.F[1].(string))
				if o.errno != 0 {
					s.Reply(wire.Rlerror, rq.Msg.Tag, o.errno)
					return
				}
				if left > 0 {
					left--
					s.Reply(wire.Rlerror, rq.Msg.Tag, uint64(11)) // EAGAIN
					return
				}
				if n, ok := wire.ParseVersion(o.ver); ok {
					s.SetNegotiated(minU32(o.msize, uint32(rq.Msg.F[0].(uint64))), n)
				}
				s.Reply(wire.Rversion, rq.Msg.Tag, uint64(o.msize), o.ver)
				return
			}
			auto(s, rq)
		}
		var cl *p9.Client
		var err error
		done := make(chan struct{})
		go func() {
			cl, err = p9.NewClient(fs.C, p9.WithMessageSize(o.req))
			close(done)
		}()
		out, dump := quiesce.Await(done, wd)
		n, isL := wire.ParseVersion(o.ver)
		okOffer := isL && o.errno == 0 && o.eagain <= 7
		key := fmt.Sprintf("cli:%s:ms%s:e%d:err%d", o.ver, offerClass(o.msize, o.req), minI(o.eagain, 2), o.errno)
		c.Case(key, true)
		if c.WantSample() && i%7 == 0 {
			c.Sample(map[string]any{"route": "client", "offer_version": o.ver, "offer_msize": o.msize, "requested_msize": o.req, "eagain": o.eagain, "newclient_err": fmt.Sprint(err)})
		}
		if out != quiesce.CondMet {
			hang(c, out, dump, "C12:cli:NewClient-hangs", fmt.Sprintf("%+v", o))
			fs.Shutdown()
			continue
		}
		switch {
		case !okOffer && err == nil:
			c.Violation("C12:cli:NewClient-accepts-non-9P2000.L-reply", map[string]any{"offer": fmt.Sprintf("%+v", o), "version": cl.Version()})
		case okOffer && o.msize < 154 && err == nil:
			// no room for one payload byte in the announced msize: proceeding
			// would make every I/O request exceed it or loop.
			c12Exercise(c, cl, fs, fmt.Sprintf("%+v", o), true)
		case okOffer && err != nil && o.msize >= 160:
			c.Violation("C12:cli:NewClient-refuses-valid-reply", map[string]any{"offer": fmt.Sprintf("%+v", o), "err": err.Error()})
		case err == nil:
			if cl.Version() != n {
				c.Violation("C12:cli:Version()-differs-from-Rversion", map[string]any{"offer": fmt.Sprintf("%+v", o), "got": cl.Version()})
			}
			c12Exercise(c, cl, fs, fmt.Sprintf("%+v", o), false)
		}
		// each retry must ask for a lower version than before
		for k := 1; k < len(sawVersions); k++ {
			a, _ := wire.ParseVersion(sawVersions[k-1])
			b, okb := wire.ParseVersion(sawVersions[k])
			if !okb || b >= a {
				c.Violation("C12:cli:retry-does-not-lower-version", map[string]any{"saw": sawVersions})
				break
			}
		}
		fs.Shutdown()
	}
}

func offerClass(ms, req uint32) string {
	switch {
	case ms == 0:
		return "0"
	case ms < 154:
		return "<fixed"
	case ms < req:
		return "<req"
	case ms == req:
		return "=req"
	default:
		return ">req"
	}
}

func minU32(a, b uint32) uint32 {
	if a < b {
		return a
	}
	return b
}
func minI(a, b int) int {
	if a < b {
		return a
	}
	return b
}

// c12Exercise drives client methods and reports what the request-stream
// monitor saw (frames above the announced msize, types the version lacks).
func c12Exercise(c *ev.Ctx, cl *p9.Client, fs *fakesrv.Server, what string, tiny bool) {
	done := make(chan struct{})
	go func() {
		defer close(done)
		root, err := cl.Attach("")
		if err != nil {
			return
		}
		root.WalkGetAttr([]string{"a"})
		_, f, err := root.Walk([]string{"f"})
		if err == nil {
			f.Open(p9.ReadWrite)
			buf := make([]byte, 3000)
			f.ReadAt(buf, 0)
			f.WriteAt(buf, 5)
			f.Readdir(0, 2500)
			f.GetXattr("user.x")
			f.GetXattr("user.big") // announced as 3*msize+7 bytes: more than one message
			f.ListXattrs()         // likewise
			f.Close()
		}
		root.Create("n", p9.ReadWrite, 0644, 1, 2)
		root.Mkdir("d", 0755, 1, 2)
		root.Symlink("t", "s", 1, 2)
		root.Mknod("k", 0644, 1, 2, 1, 2)
	}()
	out, dump := quiesce.Await(done, wd)
	if out != quiesce.CondMet {
		hang(c, out, dump, "C12:cli:call-hangs-after-negotiation", what)
		return
	}
	c.Count("client_frames_monitored", int64(fs.NReqs()))
	seen := map[string]bool{}
	for _, m := range fs.Monitor() {
		w := firstWord(m)
		if seen[w] {
			continue
		}
		seen[w] = true
		if strings.HasPrefix(w, "msize-exceeded") || strings.HasPrefix(w, "version:") {
			sig := "C12:cli:" + w
			if tiny {
				sig = "C12:cli:proceeds-with-msize-too-small-for-payload"
			}
			c.Violation(sig, map[string]any{"offer": what, "monitor": m})
		}
	}
}

// c12Pipelined: two Tversions under different tags leave in one write, asking
// for different things. Each is answered for what IT asked, whatever the other
// does to the connection's state meanwhile.
func c12Pipelined(c *ev.Ctx) {
	r := c.Rand("c12pipe")
	rounds := c.Sz(600, 20000)
	strs := []string{"9P2000.L", "9P2000.L.Google.1", "9P2000.L.Google.7", "9P2000.L.Google.9", "9P2000.L.Google.3", "9P2000.u", "9P2000.L.Google.12"}
	sizes := []uint32{8192, 1<<32 - 1, 65536, 4096, mib4, 1 << 20, 700}
	var p *rawpeer.Peer
	for i := 0; i < rounds; i++ {
		if !c.Mine(i) {
			continue
		}
		if p == nil || i%50 == 0 {
			if p != nil {
				p.Close()
			}
			p = rawpeer.New(p9.NewServer(noAttach{}), altTransport())
		}
		c.Begin(fmt.Sprintf("C12 pipelined round %d", i))
		a, b := r.Intn(len(strs)), r.Intn(len(strs))
		ma, mb := sizes[r.Intn(len(sizes))], sizes[r.Intn(len(sizes))]
		from := p.NReplies()
		fa := wire.Encode(wire.Tversion, 1, uint64(ma), strs[a])
		fb := wire.Encode(wire.Tversion, 2, uint64(mb), strs[b])
		p.Expect(fa)
		p.Expect(fb)
		p.SendRaw(append(fa, fb...))
		for k, q := range []struct {
			tag uint16
			ms  uint32
			s   string
		}{{1, ma, strs[a]}, {2, mb, strs[b]}} {
			rep, ok, o, d := p.WaitTag(q.tag, from)
			res := rawpeer.Result{OK: ok, Out: o, Dump: d}
			if ok {
				res.Msg, res.Raw = rep.Msg, rep.Raw
			}
			checkRversion(c, res, q.ms, q.s, fmt.Sprintf("pipelined-%d-of-2", k+1))
			if !ok {
				p.Close()
				p = nil
				break
			}
		}
		if p != nil {
			p.Monitor()
		}
		c.Count("pipelined_tversion_pairs", 1)
	}
	if p != nil {
		p.Close()
	}
}
