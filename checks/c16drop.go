package checks

import (
	"fmt"
	"strings"

	"github.com/hugelgupf/p9/p9"

	"verif/internal/ev"
	"verif/internal/memfs"
	"verif/internal/quiesce"
	"verif/internal/wire"
)

// c16RenamedVsDrop: a directory is renamed while fids exist below it; the
// rename notification (File.Renamed) of one such fid is parked inside the
// backend, and in that window the fid's last table reference is dropped - by
// Tclunk, Tremove, a walk onto its number, or its connection ending. The
// notification then holds the only reference to the File, and (when no fid is
// left on the directories in between) to its parents as well. Everything must
// still be answered, the File closed once and only after Renamed returned.
//
// Found by the concurrent C08 workload (one run in five) as a process-wide
// deadlock; this scenario forces the schedule.
func c16RenamedVsDrop(c *ev.Ctx) {
	droppers := []string{"clunk", "remove", "walk-replace", "disconnect", "clunk-two-fids"}
	idx := 0
	for depth := 1; depth <= 4; depth++ {
		for _, dr := range droppers {
			for _, keepMid := range []bool{false, true} {
				for _, sameConn := range []bool{false, true} {
					idx++
					if !c.Mine(idx) || (dr == "disconnect" && sameConn) {
						continue
					}
					c16DropCase(c, depth, dr, keepMid, sameConn)
					if hungFlag {
						return
					}
				}
			}
		}
	}
}

func c16DropCase(c *ev.Ctx, depth int, dropper string, keepMid, sameConn bool) {
	name := fmt.Sprintf("renamed-vs-drop:depth%d:%s:mid=%v:same-conn=%v", depth, dropper, keepMid, sameConn)
	c.Begin("C16 " + name)
	fs := memfs.New()
	fs.MkPath("/top/a/n1/n2/n3/n4/leaf", p9.ModeRegular|0644, "x")
	fs.MkPath("/other/f", p9.ModeRegular|0644, "y")
	srv := p9.NewServer(fs)
	sA, v1 := newSess(srv, 1<<16, v7) // renames
	sB, v2 := newSess(srv, 1<<16, v7) // owns the fid that is dropped
	defer sA.P.Close()
	defer sB.P.Close()
	if sameConn {
		sB = sA
	}
	sig := "C16:" + name
	if !v1.OK || !v2.OK || sA.attach(0, "").Errno() != 0 || (!sameConn && sB.attach(0, "").Errno() != 0) {
		c.Violation(sig+":setup-refused", map[string]any{})
		return
	}
	below := []string{"top", "a", "n1", "n2", "n3", "n4"}[:2+depth]
	target := "/" + strings.Join(below, "/")
	ok := sA.walk(0, 1, "top").Errno() == 0
	ok = ok && sB.walk(0, 10, below...).Errno() == 0 // the fid to be dropped
	if dropper == "clunk-two-fids" {
		ok = ok && sB.walk(10, 11).Errno() == 0 // a clone: same path node, second File
	}
	if keepMid {
		ok = ok && sB.walk(0, 12, below[:len(below)-1]...).Errno() == 0
	}
	ok = ok && sB.walk(0, 13, "other", "f").Errno() == 0
	if !ok {
		c.Violation(sig+":setup-refused", map[string]any{})
		return
	}
	gate := fs.Hold(memfs.Match{Method: "Renamed", Fn: func(cl *memfs.Call) bool { return cl.Path == target }}, 1)
	defer gate.Release()
	tagR := sA.P.Tag()
	fromR := sA.P.NReplies()
	sA.P.Send(wire.Trenameat, tagR, u(1), "a", u(1), "z")
	if o, d := gate.WaitParked(1); o != quiesce.CondMet {
		if !hang(c, o, d, sig+":rename-notification-never-reaches-the-fid", nil) {
			c.Violation(sig+":rename-notification-never-reaches-the-fid", map[string]any{})
		}
		return
	}
	// drop the table's reference(s) while Renamed is parked
	type pend struct {
		tag  uint16
		from int
		what string
	}
	var pending []pend
	send := func(what string, t uint8, vals ...any) {
		tag := sB.P.Tag()
		pending = append(pending, pend{tag, sB.P.NReplies(), what})
		sB.P.Send(t, tag, vals...)
	}
	switch dropper {
	case "clunk":
		send("Tclunk", wire.Tclunk, u(10))
	case "clunk-two-fids":
		send("Tclunk", wire.Tclunk, u(10))
		send("Tclunk(clone)", wire.Tclunk, u(11))
	case "remove":
		send("Tremove", wire.Tremove, u(10))
	case "walk-replace":
		send("Twalk onto the fid", wire.Twalk, u(0), u(10), []string{"other"})
	case "disconnect":
		sB.P.Close()
	}
	// give the dropper every chance to run while the notification is parked
	// (it may legitimately queue behind the rename instead)
	quiesce.WaitUntil(func() bool {
		for _, p := range pending {
			if sB.P.HasReplyFrom(p.tag, p.from) == nil {
				return false
			}
		}
		return dropper != "disconnect"
	}, wd)
	gate.Release()
	if _, ok, o, d := sA.P.WaitTag(tagR, fromR); !ok {
		hang(c, o, d, sig+":request-never-answered:Trenameat", map[string]any{"dropper": dropper})
		return
	}
	for _, p := range pending {
		if _, ok, o, d := sB.P.WaitTag(p.tag, p.from); !ok {
			hang(c, o, d, sig+":request-never-answered:"+p.what, nil)
			return
		}
	}
	// the server still serves both connections
	if g := sA.getattr(1); !g.OK {
		hang(c, g.Out, g.Dump, sig+":server-stopped-serving", nil)
		return
	}
	if dropper != "disconnect" {
		if g := sB.getattr(13); !g.OK || g.Msg.Type != wire.Rgetattr {
			if !g.OK {
				hang(c, g.Out, g.Dump, sig+":server-stopped-serving", nil)
			} else {
				c.Violation(sig+":unrelated-fid-lost", map[string]any{"reply": g.Msg.String()})
			}
			return
		}
	}
	sA.P.Close()
	sB.P.Close()
	if lv := fs.LifecycleViolations(true); len(lv) > 0 {
		c.Violation(sig+":backend-lifecycle:"+firstWord(lv[0]), map[string]any{"monitor": lv})
	}
	c.Case(name, true)
}
