package checks

import (
	"fmt"
	"strings"
	"time"

	"github.com/hugelgupf/p9/p9"

	"verif/internal/ev"
	"verif/internal/memfs"
	"verif/internal/quiesce"
	"verif/internal/rawpeer"
	"verif/internal/wire"
)

func init() {
	ev.Register(&ev.Spec{
		ID: "C09", Level: "exploration",
		Rule:    "hostile and legal-but-odd name strings placed in every name position of every name-bearing T-message (walk component i of n, create, mkdir, symlink, mknod, link, rename, renameat old/new, unlinkat, attach name), plus walks whose intermediate component is a file/symlink/fifo/device, and walks that start at a fid Tlcreate bound to the regular file it created (or at a clone of it), and Trenameat / Trename whose target-directory fid is bound to a file, symlink, fifo or device; the backend's online name monitor sees every name argument. Non-trivial: request carries >= 1 name; distinct by (message, position, string class).",
		Assume:  []string{"memfs name monitor runs under the backend's event lock", "for attach names with empty/dot components both EINVAL and a cleaned walk are accepted; the hard oracle is what reaches the backend"},
		Shards:  shards(4, 16),
		Timeout: timeout(5*time.Minute, 30*time.Minute),
		Run:     runC09,
	})
}

func hostileStrings(r *ev.Rand, extra int) []string {
	l := []string{"", ".", "..", "/", "a/b", "a/", "/a", "./a", "../a", "a/..", "a/.", "//", "a//b", "\x00/", "/\x00", strings.Repeat("a", 200) + "/", strings.Repeat("/", 300),
		// legal but odd
		"..a", "a..", "...", ". ", " .", ".\x00", "\x00", "a\x00b", "\xff\xfe", "a\\b", "~", "-", "*", strings.Repeat("n", 255), strings.Repeat("m", 256), strings.Repeat("L", 4000), strings.Repeat("x", 65535),
		strings.Repeat("y", 65534) + "/", "new1", "zz"}
	for i := 0; i < extra; i++ {
		n := r.Intn(12)
		b := r.Bytes(n)
		for j := range b {
			switch b[j] % 6 {
			case 0:
				b[j] = '/'
			case 1:
				b[j] = '.'
			case 2:
				b[j] = 'a' + b[j]%3
			}
		}
		l = append(l, string(b))
	}
	return l
}

func nameBad(n string) bool {
	return n == "" || n == "." || n == ".." || strings.Contains(n, "/")
}

func nmClass(n string) string {
	switch {
	case n == "":
		return "empty"
	case n == ".":
		return "dot"
	case n == "..":
		return "dotdot"
	case strings.HasPrefix(n, "/") && strings.Trim(n, "/") == "":
		return "slashes"
	case strings.HasPrefix(n, "/"):
		return "lead-slash"
	case strings.HasSuffix(n, "/"):
		return "trail-slash"
	case strings.Contains(n, "/"):
		return "mid-slash"
	case len(n) > 60000:
		return "legal-huge"
	case len(n) > 255:
		return "legal-long"
	case strings.ContainsAny(n, "\x00\xff\xfe"):
		return "legal-bytes"
	case strings.Contains(n, ".."):
		return "legal-dots"
	}
	return "legal"
}

type c09pos struct {
	name string
	// build returns the request (type, values) with s in the position.
	build func(s string) (uint8, []any)
}

func c09Positions() []c09pos {
	// fids: 0 root, 1 /a (dir), 2 /f (file), 3 /d (dir), 4 /a/g (file, for rename)
	var ps []c09pos
	for n := 1; n <= 4; n++ {
		for i := 0; i < n; i++ {
			n, i := n, i
			legal := []string{"a", "b", "f", "x"}
			mk := func(s string) []string {
				names := make([]string, n)
				copy(names, legal[:n])
				names[i] = s
				return names
			}
			ps = append(ps, c09pos{fmt.Sprintf("Twalk[%d/%d]", i, n), func(s string) (uint8, []any) {
				return wire.Twalk, []any{u(0), u(10), mk(s)}
			}})
			ps = append(ps, c09pos{fmt.Sprintf("Twalkgetattr[%d/%d]", i, n), func(s string) (uint8, []any) {
				return wire.Twalkgetattr, []any{u(0), u(10), mk(s)}
			}})
		}
	}
	ps = append(ps,
		c09pos{"Tlcreate.name", func(s string) (uint8, []any) { return wire.Tlcreate, []any{u(11), s, u(2), u(0644), u(0)} }},
		c09pos{"Tucreate.name", func(s string) (uint8, []any) { return wire.Tucreate, []any{u(11), s, u(2), u(0644), u(0), u(0)} }},
		c09pos{"Tmkdir.name", func(s string) (uint8, []any) { return wire.Tmkdir, []any{u(1), s, u(0755), u(0)} }},
		c09pos{"Tumkdir.name", func(s string) (uint8, []any) { return wire.Tumkdir, []any{u(1), s, u(0755), u(0), u(0)} }},
		c09pos{"Tsymlink.name", func(s string) (uint8, []any) { return wire.Tsymlink, []any{u(1), s, "tgt", u(0)} }},
		c09pos{"Tusymlink.name", func(s string) (uint8, []any) { return wire.Tusymlink, []any{u(1), s, "tgt", u(0), u(0)} }},
		c09pos{"Tmknod.name", func(s string) (uint8, []any) { return wire.Tmknod, []any{u(1), s, u(0010644), u(1), u(2), u(0)} }},
		c09pos{"Tumknod.name", func(s string) (uint8, []any) { return wire.Tumknod, []any{u(1), s, u(0010644), u(1), u(2), u(0), u(0)} }},
		c09pos{"Tlink.name", func(s string) (uint8, []any) { return wire.Tlink, []any{u(1), u(2), s} }},
		c09pos{"Trename.name", func(s string) (uint8, []any) { return wire.Trename, []any{u(4), u(3), s} }},
		c09pos{"Trenameat.oldname", func(s string) (uint8, []any) { return wire.Trenameat, []any{u(1), s, u(3), "tgt"} }},
		c09pos{"Trenameat.newname", func(s string) (uint8, []any) { return wire.Trenameat, []any{u(1), "g", u(3), s} }},
		c09pos{"Tunlinkat.name", func(s string) (uint8, []any) { return wire.Tunlinkat, []any{u(1), s, u(0)} }},
	)
	return ps
}

// c09Setup prepares the fid layout; returns false if setup failed.
func c09Setup(c *ev.Ctx, fs *memfs.FS) (*sess, bool) {
	srv := p9.NewServer(fs)
	s, r := newSess(srv, 1<<20, v7)
	ok := r.OK
	ok = ok && s.attach(0, "").Errno() == 0
	ok = ok && s.walk(0, 1, "a").Errno() == 0
	ok = ok && s.walk(0, 2, "f").Errno() == 0
	ok = ok && s.walk(0, 3, "d").Errno() == 0
	ok = ok && s.walk(0, 4, "a", "g").Errno() == 0
	ok = ok && s.walk(0, 11, "d").Errno() == 0 // for create (rebinding)
	if !ok {
		c.Inconclusive("C09 setup failed")
	}
	return s, ok
}

func runC09(c *ev.Ctx) {
	c09TargetNotADirectory(c)
	r := c.Rand("c09")
	strs := hostileStrings(r, c.Sz(400, 30000))
	ps := c09Positions()
	idx := 0
	for _, pos := range ps {
		idx++
		if !c.Mine(idx) {
			continue
		}
		fs := fixture()
		s, ok := c09Setup(c, fs)
		if !ok {
			continue
		}
		fs.NameViolations()
		for _, str := range strs {
			if len(str) > 60000 && strings.HasPrefix(pos.name, "Twalk") && !strings.Contains(pos.name, "/1]") {
				continue // 4 names of 64 KiB exceed nothing, but keep frames moderate
			}
			c.Begin(fmt.Sprintf("C09 %s name=%s", pos.name, cutS(str, 80)))
			before := fs.Snapshot()
			ncalls := fs.NCalls()
			t, vals := pos.build(str)
			res := s.P.RPC(t, vals...)
			bad := nameBad(str)
			key := pos.name + ":" + nmClass(str)
			c.Case(key, true)
			if c.WantSample() && bad {
				c.Sample(map[string]any{"position": pos.name, "name": cutS(str, 40), "reply": res.Msg.String(), "backend_calls": fs.NCalls() - ncalls})
			}
			if !res.OK {
				if res.Out == quiesce.CondMet {
					c.Violation("C09:connection-ended:"+pos.name, map[string]any{"name": cutS(str, 80)})
				} else {
					hang(c, res.Out, res.Dump, "C09:request-unanswered:"+pos.name, cutS(str, 80))
				}
				break
			}
			nv := fs.NameViolations()
			for _, v := range nv {
				c.Violation("C09:backend-saw:"+v+":via-"+stripIdx(pos.name), map[string]any{"position": pos.name, "name": cutS(str, 80), "reply": res.Msg.String(), "calls": callStrs(fs.Calls(ncalls))})
			}
			if bad {
				if e := res.Errno(); e != EINVAL {
					c.Violation(fmt.Sprintf("C09:bad-name-not-EINVAL:%s:%s", stripIdx(pos.name), nmClass(str)), map[string]any{"position": pos.name, "name": cutS(str, 80), "reply": res.Msg.String()})
				}
				if after := fs.Snapshot(); after != before {
					c.Violation("C09:rejected-request-changed-tree:"+stripIdx(pos.name), map[string]any{"name": cutS(str, 80), "before": before, "after": after})
				}
				c.Count("bad_names_rejected", 1)
			} else {
				c.Count("legal_names_sent", 1)
				if fs.NCalls() > ncalls {
					c.Count("legal_names_reached_backend", 1)
				}
			}
			c.Max("max_name_len_seen_by_backend", int64(maxNameLen(fs.Calls(ncalls))))
			// keep fid 10 free and fid 11 a directory for the next case
			if res.Errno() == 0 {
				switch t {
				case wire.Twalk, wire.Twalkgetattr:
					s.clunk(10)
				case wire.Tlcreate, wire.Tucreate:
					s.clunk(11)
					s.walk(0, 11, "d")
				case wire.Trename:
					// fid 4 moved: move it back
					s.rename(4, 1, "g")
				case wire.Trenameat:
					if strings.HasSuffix(pos.name, "newname") {
						s.renameat(3, str, 1, "g")
					}
				}
			}
		}
		s.P.Close()
	}
	c09Attach(c, strs)
	c09NonDir(c)
	c09Replaced(c)
}

func stripIdx(s string) string {
	if i := strings.IndexByte(s, '['); i > 0 {
		return s[:i]
	}
	return s
}

func callStrs(cs []*memfs.Call) []string {
	var l []string
	for _, x := range cs {
		l = append(l, cutS(x.String(), 200))
		if len(l) > 12 {
			break
		}
	}
	return l
}

func maxNameLen(cs []*memfs.Call) int {
	m := 0
	for _, x := range cs {
		if len(x.Name) > m {
			m = len(x.Name)
		}
		if len(x.Name2) > m {
			m = len(x.Name2)
		}
	}
	return m
}

func c09Attach(c *ev.Ctx, strs []string) {
	names := []string{"", "/", "//", "///", "a", "/a", "a/b", "/a/b", "a/b/f", "/a/b/f", "a//b", "/../x", "..", "../", "a/..", "a/../a", "a/./b", "./a", ".", "/.", "a/", "a/b/", "/a/", "f/x", "l/b", "/l/b", "p/x", "nonexistent", "a/nonexistent", "a/b/f/g", "d",
		strings.Repeat("a/", 100) + "a", "/" + strings.Repeat("x", 65000)}
	for _, s := range strs {
		if len(s) < 300 {
			names = append(names, s, "a/"+s, s+"/b")
		}
	}
	for i, an := range names {
		if !c.Mine(i) {
			continue
		}
		c.Begin("C09 attach " + cutS(an, 80))
		fs := fixture()
		srv := p9.NewServer(fs)
		s, r := newSess(srv, 1<<20, v7)
		if !r.OK {
			c.Inconclusive("C09 attach: version failed")
			continue
		}
		res := s.attach(0, an)
		comps := strings.Split(strings.TrimPrefix(an, "/"), "/")
		if strings.TrimPrefix(an, "/") == "" {
			comps = nil
		}
		anyBad := false
		for _, x := range comps {
			if nameBad(x) {
				anyBad = true
			}
		}
		c.Case("Tattach.aname:"+attachClass(an), len(comps) > 0)
		if c.WantSample() && i%5 == 0 {
			c.Sample(map[string]any{"position": "Tattach.aname", "name": cutS(an, 40), "reply": res.Msg.String()})
		}
		if !res.OK {
			hang(c, res.Out, res.Dump, "C09:attach-unanswered", cutS(an, 80))
			if res.Out == quiesce.CondMet {
				c.Violation("C09:attach:connection-ended", cutS(an, 80))
			}
			s.P.Close()
			continue
		}
		for _, v := range fs.NameViolations() {
			c.Violation("C09:backend-saw:"+v+":via-Tattach", map[string]any{"aname": cutS(an, 80), "reply": res.Msg.String(), "calls": callStrs(fs.Calls(0))})
		}
		if anyBad {
			c.Count("bad_names_rejected", 1)
			// EINVAL, or a walk whose names were all cleaned (monitor silent).
			if e := res.Errno(); e != EINVAL && e != 0 && e != ENOENT && e != ENOTDIR {
				c.Violation("C09:attach-bad-name-unexpected-errno", map[string]any{"aname": cutS(an, 80), "reply": res.Msg.String()})
			}
		} else if len(comps) == 0 {
			if res.Errno() != 0 {
				c.Violation("C09:attach-root-refused", map[string]any{"aname": an, "reply": res.Msg.String()})
			}
		}
		// every backend walk took exactly one component (monitor flags others)
		s.P.Close()
	}
}

func attachClass(an string) string {
	t := strings.TrimPrefix(an, "/")
	cl := "rel"
	if t != an {
		cl = "abs"
	}
	if t == "" {
		return cl + ":root"
	}
	cs := strings.Split(t, "/")
	k := "legal"
	for _, x := range cs {
		if nameBad(x) {
			k = nmClass(x)
		}
	}
	return fmt.Sprintf("%s:%s:n%d", cl, k, minI(len(cs), 5))
}

// c09NonDir: walks whose intermediate components are not directories.
func c09NonDir(c *ev.Ctx) {
	paths := [][]string{{"f", "x"}, {"l", "b"}, {"l", "b", "f"}, {"p", "x"}, {"c", "x"}, {"s", "x"}, {"a", "g", "x"}, {"a", "b", "f", "x"}, {"f", "f", "f"}, {"l"}, {"l", "l"}}
	for i, pth := range paths {
		if !c.Mine(i) {
			continue
		}
		for _, mode := range []string{"walk", "walkgetattr", "attach", "two-step", "created", "created-clone"} {
			for _, wga := range []bool{false, true} {
				if strings.HasPrefix(mode, "created") && len(pth) < 2 {
					continue
				}
				fs := fixture()
				fs.NoWalkGetAttr = wga
				srv := p9.NewServer(fs)
				s, r := newSess(srv, 1<<20, v7)
				if !r.OK || (mode != "attach" && s.attach(0, "").Errno() != 0) {
					c.Inconclusive("C09 nondir setup")
					continue
				}
				c.Begin(fmt.Sprintf("C09 nondir %v %s", pth, mode))
				fs.NameViolations()
				var res rawpeer.Result
				switch mode {
				case "walk":
					res = s.walk(0, 5, pth...)
				case "walkgetattr":
					res = s.walkgetattr(0, 5, pth...)
				case "attach":
					res = s.attach(0, strings.Join(pth, "/"))
				case "two-step":
					res = s.walk(0, 5, pth[0])
					if res.Errno() == 0 && len(pth) > 1 {
						res = s.walk(5, 6, pth[1:]...)
					}
				case "created", "created-clone":
					// the walk starts at a fid that Tlcreate bound to a regular
					// file it has just created (or at a clone of that fid): what
					// the backend reported for it is a file, whatever the fid
					// denoted before
					res = s.walk(0, 4)
					if res.Errno() == 0 {
						res = s.create(4, "new-"+pth[0], 2, 0644)
					}
					from := uint64(4)
					if res.Errno() == 0 && mode == "created-clone" {
						res = s.walk(4, 7)
						from = 7
					}
					if res.Errno() != 0 {
						c.Inconclusive("C09 nondir: setup of the created file failed")
						s.P.Close()
						continue
					}
					fs.NameViolations()
					if wga {
						res = s.walkgetattr(from, 6, pth[1:]...)
					} else {
						res = s.walk(from, 6, pth[1:]...)
					}
				}
				c.Case(fmt.Sprintf("nondir:%s:%s:%v", strings.Join(pth, "/"), mode, wga), true)
				if !res.OK {
					hang(c, res.Out, res.Dump, "C09:nondir-unanswered", pth)
					s.P.Close()
					continue
				}
				for _, v := range fs.NameViolations() {
					c.Violation("C09:backend-saw:"+v+":via-"+mode, map[string]any{"path": pth, "calls": callStrs(fs.Calls(0)), "reply": res.Msg.String()})
				}
				if len(pth) > 1 && res.Errno() == 0 {
					c.Violation("C09:walk-through-non-directory-succeeded:"+mode, map[string]any{"path": pth, "reply": res.Msg.String()})
				}
				s.P.Close()
			}
		}
	}
}

// c09Replaced: a fid was bound to a directory; the directory is then removed
// (through another fid: Tunlinkat, Tremove on a second fid, Trenameat of
// something over it) and a symlink - or a file - takes its name. The old fid
// still says "directory", but what the backend would resolve under that name no
// longer is one: a walk to a child from the old fid must not reach the backend
// (on a path-resolving backend such as localfs it would step through the
// symlink, out of the tree).
func c09Replaced(c *ev.Ctx) {
	idx := 0
	for _, how := range []string{"unlinkat", "tremove-second-fid", "tremove-clone", "rename-over"} {
		for _, with := range []string{"symlink", "file"} {
			for _, mode := range []string{"walk", "walkgetattr", "walk2"} {
				idx++
				if !c.Mine(idx) {
					continue
				}
				name := fmt.Sprintf("replaced:%s:by-%s:%s", how, with, mode)
				c.Begin("C09 " + name)
				fs := fixture() // has the empty directory /d
				fs.MkPath("/outside/secret", p9.ModeRegular|0644, "top secret")
				fs.MkPath("/e", p9.ModeDirectory|0755, "")
				srv := p9.NewServer(fs)
				s, r := newSess(srv, 1<<20, v7)
				ok := r.OK && s.attach(0, "").Errno() == 0
				ok = ok && s.walk(0, 1, "d").Errno() == 0 // the fid that stays
				ok = ok && s.walk(0, 2, "d").Errno() == 0 // a second fid on the same directory
				if !ok {
					c.Inconclusive("C09 replaced setup")
					s.P.Close()
					continue
				}
				var rm rawpeer.Result
				switch how {
				case "unlinkat":
					rm = s.P.RPC(wire.Tunlinkat, u(0), "d", u(0x200))
				case "tremove-second-fid":
					rm = s.remove(2)
				case "tremove-clone":
					s.walk(1, 3)
					rm = s.remove(3)
				case "rename-over":
					rm = s.renameat(0, "e", 0, "d")
				}
				if rm.Errno() != 0 {
					c.Inconclusive(fmt.Sprintf("C09 %s: removal refused: %s", name, rm.Msg.String()))
					s.P.Close()
					continue
				}
				if how != "rename-over" {
					var mk rawpeer.Result
					if with == "symlink" {
						mk = s.P.RPC(wire.Tsymlink, u(0), "d", "outside", u(0))
					} else {
						mk = s.P.RPC(wire.Tmknod, u(0), "d", u(0100644), u(0), u(0), u(0))
					}
					if mk.Errno() != 0 {
						c.Inconclusive(fmt.Sprintf("C09 %s: replacement refused: %s", name, mk.Msg.String()))
						s.P.Close()
						continue
					}
				}
				mark := fs.NCalls()
				var res rawpeer.Result
				switch mode {
				case "walk":
					res = s.walk(1, 5, "secret")
				case "walkgetattr":
					res = s.walkgetattr(1, 5, "secret")
				default:
					res = s.walk(1, 5, "secret", "x")
				}
				c.Case(name, true)
				if !res.OK {
					hang(c, res.Out, res.Dump, "C09:replaced-unanswered", name)
					s.P.Close()
					continue
				}
				var walks []string
				for _, cl := range fs.Calls(mark) {
					if cl.Method == "Walk" || cl.Method == "WalkGetAttr" {
						walks = append(walks, cl.String())
					}
				}
				if len(walks) > 0 || res.Errno() == 0 {
					c.Violation("C09:walk-from-a-fid-whose-directory-was-replaced-reached-the-backend:"+how+":by-"+with, map[string]any{"mode": mode, "reply": res.Msg.String(), "backend_walks": walks})
				}
				s.P.Close()
			}
		}
	}
}

// c09TargetNotADirectory: the requests that name a SECOND directory - the
// target of Trenameat and of Trename - through a fid that is bound to a file, a
// symlink (even one that points to a directory) or a device. The new name
// would reach the backend as a path component below a node it did not report
// as a directory: the request fails before any backend call.
func c09TargetNotADirectory(c *ev.Ctx) {
	for i, tgt := range []string{"f", "l", "p", "c"} {
		for _, how := range []string{"renameat", "rename"} {
			if !c.Mine(i) {
				continue
			}
			c.Begin(fmt.Sprintf("C09 %s into a fid on %q", how, tgt))
			fs := fixture()
			srv := p9.NewServer(fs)
			s, r := newSess(srv, 1<<20, v7)
			if !r.OK || s.attach(0, "").Errno() != 0 || s.walk(0, 5, tgt).Errno() != 0 || s.walk(0, 6, "a", "g").Errno() != 0 {
				c.Inconclusive("C09 target-not-a-directory setup")
				s.P.Close()
				continue
			}
			mark := fs.NCalls()
			var res rawpeer.Result
			if how == "renameat" {
				res = s.renameat(0, "d", 5, "moved")
			} else {
				res = s.rename(6, 5, "moved")
			}
			c.Case(fmt.Sprintf("target-not-a-directory:%s:%s", how, tgt), true)
			if !res.OK {
				hang(c, res.Out, res.Dump, "C09:target-not-a-directory-unanswered", tgt)
				s.P.Close()
				continue
			}
			for _, cl := range fs.Calls(mark) {
				if cl.Method == "RenameAt" {
					c.Violation("C09:backend-saw:RenameAt:target-not-a-directory:"+how, map[string]any{"target": tgt, "call": cl.String(), "reply": res.Msg.String()})
				}
			}
			if res.Errno() == 0 {
				c.Violation("C09:rename-into-a-non-directory-succeeded:"+how, map[string]any{"target": tgt})
			}
			s.P.Close()
		}
	}
}
