package checks

import (
	"fmt"
	"io"
	"net"
	"strconv"
	"strings"
	"time"

	"github.com/hugelgupf/p9/p9"

	"verif/internal/ev"
	"verif/internal/memfs"
	"verif/internal/quiesce"
	"verif/internal/rawpeer"
	"verif/internal/wire"
	"verif/internal/xport"
)

func init() {
	ev.Register(&ev.Spec{
		ID: "C06", Level: "exploration",
		Rule:    "(a) reply storms: 2-256 pipelined requests with 1-3 vector replies (Rread with payload, Rreaddir, Rgetattr, Rlerror), adversarial tags (0, 0xFFFE, dense, immediate re-use of a tag the instant its reply is parsed), 1-4 connections, through a writer that forwards every Write separately and yields between them; the reply-stream monitor parses the byte stream incrementally (frame boundaries, tag accounting, reply types, duplicates) and every request must be answered when the system is parked; gated batches released in every order (k <= 4); Tflush of own/idle/answered/in-flight tags and chains. (b) the rendezvous matrix of C07 with the head-of-line oracle: while A is parked in the backend, every B whose classified backend calls (for a walk: Walk on each directory passed and GetAttr on each file reached) the File contract does not order after A's - whatever the relation of the two paths: same path, parent, child, sibling, unrelated, same or other connection, with or without a rename / refused unlink / rebind behind the fids - and every unclassified B (StatFS, Lock) must complete; being observed parked inside p9 is the violation; 64 requests parked, a 65th must complete. Storms also mix in well-delimited frames the receiver rejects (unknown type, short body), whose error replies are produced on a different path. Flush order: mutual / forward / ring flushes whose frames leave in one write, thousands of rounds. Three parties: a read parked on a directory, a write-class request on it queued behind (7 kinds), a rename queued behind that (Trenameat / Trename), then the release - all three answered. Half-close: on a socket pair the client shuts down its sending side while 5 reads are parked; all 5 are still answered, in 4 release orders. Non-trivial: >= 2 requests in flight at once; distinct by (batch mix, release order) / matrix cell.",
		Assume:  []string{"a request whose tag is already in flight is exempt (none is sent)", "writer-preferring RWMutex queues are only relevant while a global-class request is pending; no such request is pending in the non-blocking assertions"},
		Shards:  shards(8, 16),
		Timeout: timeout(8*time.Minute, 45*time.Minute),
		Run: func(c *ev.Ctx) {
			c06Storms(c)
			c06Gated(c)
			c06Flush(c)
			c06FlushOrder(c)
			c06HalfClose(c)
			c06ThreeParties(c)
			c06Many(c)
			runMatrix(c, "C06")
		},
	})
}

// stormWorld: files r0..r7 opened read-only as fids 20..27, dir dd as fid 30.
func stormWorld(c *ev.Ctx, seed uint64, yield bool) (*memfs.FS, *rawpeer.Peer, bool) {
	fs := memfs.New()
	for k := 0; k < 8; k++ {
		n := fs.MkPath(fmt.Sprintf("/r%d", k), p9.ModeRegular|0644, "")
		n.Synth, n.SynthSz = true, 1<<20
	}
	for i := 0; i < 30; i++ {
		fs.MkPath(fmt.Sprintf("/dd/entry-%02d", i), p9.ModeRegular|0644, "")
	}
	if seed != 0 {
		fs.SetJitter(seed)
	}
	fs.NoLog = true
	srv := p9.NewServer(fs)
	o := &rawpeer.Options{}
	if yield {
		o.WrapWriter = func(w io.WriteCloser) io.WriteCloser { return &xport.YieldWriter{W: w} }
	}
	p := rawpeer.New(srv, o)
	s := &sess{P: p}
	ok := p.Version(1<<16, v7).OK && s.attach(0, "").Errno() == 0
	for k := 0; k < 8 && ok; k++ {
		ok = s.walk(0, uint64(20+k), fmt.Sprintf("r%d", k)).Errno() == 0 && s.open(uint64(20+k), 0).Errno() == 0
	}
	ok = ok && s.walk(0, 30, "dd").Errno() == 0 && s.open(30, 0).Errno() == 0
	return fs, p, ok
}

// stormRejTag is the tag range of the rejected frames mixed into storms; their
// Rlerror replies (carrying that tag or NOTAG) are not matched to requests.
const stormRejTag = 60000

func stormSend(p *rawpeer.Peer, r *ev.Rand, tag uint16) string {
	if r.Intn(7) == 0 {
		// a well-delimited frame the receiver rejects (unknown type, body too
		// short): its error reply is produced on another path than ordinary
		// replies and must not cut into them
		switch r.Intn(3) {
		case 0:
			p.SendRaw(wire.Frame(54, stormRejTag+uint16(r.Intn(1000)), r.Bytes(r.Intn(40)))) // Tgetlock: not served
		case 1:
			p.SendRaw(wire.Frame(wire.Twalk, stormRejTag+uint16(r.Intn(1000)), []byte{1, 0, 0}))
		default:
			p.SendRaw(wire.Frame(wire.Twrite, stormRejTag+uint16(r.Intn(1000)), r.Bytes(r.Intn(16))))
		}
	}
	switch r.Intn(6) {
	case 0, 1:
		p.Send(wire.Tread, tag, u(uint64(20+r.Intn(8))), u(uint64(r.Intn(1000))), u(uint64(r.Intn(9000))))
		return "read"
	case 2:
		p.Send(wire.Treaddir, tag, u(30), u(uint64(r.Intn(30))), u(uint64(100+r.Intn(3000))))
		return "readdir"
	case 3:
		p.Send(wire.Tgetattr, tag, u(uint64(20+r.Intn(8))), u(0x3fff))
		return "getattr"
	case 4:
		p.Send(wire.Tgetattr, tag, u(9999), u(0x3fff)) // unbound: Rlerror
		return "error"
	default:
		p.Send(wire.Tread, tag, u(uint64(20+r.Intn(8))), u(0), u(0))
		return "read0"
	}
}

func c06Storms(c *ev.Ctx) {
	r := c.Rand("c06storm")
	n := c.Sz(160, 30000)
	for i := 0; i < n; i++ {
		if !c.Mine(i) {
			continue
		}
		rr := r.Fork(uint64(i))
		nconn := 1 + rr.Intn(3)
		inflight := []int{2, 3, 8, 32, 64, 256}[rr.Intn(6)]
		total := inflight * (2 + rr.Intn(4))
		c.Begin(fmt.Sprintf("C06 storm %d conns=%d inflight=%d total=%d", i, nconn, inflight, total))
		type conn struct {
			p    *rawpeer.Peer
			fs   *memfs.FS
			sent int
			tags []uint16 // free tags
			cons int
		}
		var conns []*conn
		okAll := true
		for k := 0; k < nconn; k++ {
			fs, p, ok := stormWorld(c, c.Seed+uint64(i*7+k), true)
			if !ok {
				okAll = false
			}
			cn := &conn{p: p, fs: fs}
			// adversarial tag set
			base := []uint16{0, 0xFFFE, 1, 2, 0x7FFF, 0x8000}
			for t := 0; len(cn.tags) < inflight; t++ {
				if t < len(base) {
					cn.tags = append(cn.tags, base[t])
				} else {
					cn.tags = append(cn.tags, uint16(100+t))
				}
			}
			conns = append(conns, cn)
		}
		if !okAll {
			c.Inconclusive("storm setup failed")
			for _, cn := range conns {
				cn.p.Close()
			}
			continue
		}
		mix := map[string]int{}
		bad := false
		for _, cn := range conns {
			from := cn.p.NReplies()
			cn.cons = from
			// prime
			for len(cn.tags) > 0 && cn.sent < total {
				t := cn.tags[len(cn.tags)-1]
				cn.tags = cn.tags[:len(cn.tags)-1]
				mix[stormSend(cn.p, rr, t)]++
				cn.sent++
			}
		}
		// steady state: reuse a tag the instant its reply is parsed
		for !bad {
			progress := false
			alldone := true
			for _, cn := range conns {
				for {
					rep := cn.p.PollFrom(&cn.cons)
					if rep == nil {
						break
					}
					progress = true
					if t := rep.Msg.Tag; t == 0xFFFF || (t >= stormRejTag && t < stormRejTag+1000) {
						continue // answers a rejected frame: no tag of ours came back
					}
					if cn.sent < total {
						mix[stormSend(cn.p, rr, rep.Msg.Tag)]++
						cn.sent++
					}
				}
				if cn.sent < total || len(cn.p.Outstanding()) > 0 {
					alldone = false
				}
			}
			if alldone {
				break
			}
			if !progress {
				// wait for anything to happen on any connection, or for quiet
				st, dump := quiesce.WaitUntil(func() bool {
					for _, cn := range conns {
						if cn.p.NReplies() > cn.cons || cn.p.ReadErr() != nil {
							return true
						}
					}
					return false
				}, 60*time.Second)
				if st != quiesce.CondMet {
					un := 0
					for _, cn := range conns {
						un += len(cn.p.Outstanding())
					}
					hang(c, st, dump, "C06:storm:requests-unanswered", map[string]any{"unanswered": un, "inflight": inflight, "conns": nconn})
					bad = true
				}
				for _, cn := range conns {
					if cn.p.ReadErr() != nil {
						bad = true
					}
				}
			}
		}
		frames := int64(0)
		for _, cn := range conns {
			for _, m := range cn.p.Monitor() {
				if stormRejReply(m) {
					c.Count("rejected_frames_answered", 1)
					continue
				}
				c.Violation("C06:storm:"+firstWord(m), map[string]any{"monitor": m, "inflight": inflight, "conns": nconn})
			}
			if err := cn.p.ReadErr(); err != nil {
				c.Violation("C06:storm:reply-stream-ended", map[string]any{"err": err.Error(), "inflight": inflight})
			}
			frames += cn.p.Frames()
			cn.p.Close()
		}
		c.Count("reply_frames_parsed", frames)
		c.Case(fmt.Sprintf("storm:%d:%d:%v", nconn, inflight, mix), inflight >= 2)
		if c.WantSample() && i%9 == 0 {
			c.Sample(map[string]any{"workload": "storm", "connections": nconn, "in_flight": inflight, "requests": total * nconn, "mix": mix})
		}
	}
}

// stormRejReply recognises the monitor's line for the Rlerror answering one of
// the storm's rejected frames.
func stormRejReply(m string) bool {
	if !strings.HasPrefix(m, "reply-stream:unsolicited-reply type=Rlerror tag=") {
		return false
	}
	t, err := strconv.Atoi(strings.TrimPrefix(m, "reply-stream:unsolicited-reply type=Rlerror tag="))
	return err == nil && (t == 0xFFFF || (t >= stormRejTag && t < stormRejTag+1000))
}

func perms(n int) [][]int {
	if n == 1 {
		return [][]int{{0}}
	}
	var out [][]int
	for _, p := range perms(n - 1) {
		for i := 0; i <= len(p); i++ {
			q := append(append(append([]int(nil), p[:i]...), n-1), p[i:]...)
			out = append(out, q)
		}
	}
	return out
}

// c06Gated: k requests parked in the backend, released in every order.
func c06Gated(c *ev.Ctx) {
	idx := 0
	for k := 2; k <= 4; k++ {
		for _, order := range perms(k) {
			idx++
			if !c.Mine(idx) {
				continue
			}
			c.Begin(fmt.Sprintf("C06 gated k=%d order=%v", k, order))
			fs, p, ok := stormWorld(c, 0, true)
			if !ok {
				c.Inconclusive("gated setup")
				p.Close()
				continue
			}
			var gates []*memfs.Gate
			from := p.NReplies()
			for j := 0; j < k; j++ {
				g := fs.Hold(memfs.Match{Method: "ReadAt", Path: fmt.Sprintf("/r%d", j)}, 1)
				gates = append(gates, g)
				p.Send(wire.Tread, uint16(10+j), u(uint64(20+j)), u(0), u(uint64(10+j)))
			}
			for j := 0; j < k; j++ {
				if o, d := gates[j].WaitParked(1); o != quiesce.CondMet {
					hang(c, o, d, "C06:gated:request-not-served-concurrently", map[string]any{"k": k, "j": j})
				}
			}
			good := true
			for _, j := range order {
				gates[j].Release()
				rep, ok, o, d := p.WaitTag(uint16(10+j), from)
				if !ok {
					hang(c, o, d, "C06:gated:released-request-unanswered", map[string]any{"k": k, "order": order})
					good = false
					break
				}
				if rep.Msg.Type != wire.Rread || len(rep.Msg.F[0].([]byte)) != 10+j {
					c.Violation("C06:gated:reply-belongs-to-another-request", map[string]any{"k": k, "order": order, "tag": 10 + j, "reply": rep.Msg.String()})
				}
				// nobody else may have been answered yet
				if n := p.NReplies() - from; n != indexOf(order, j)+1 {
					c.Violation("C06:gated:reply-for-a-request-still-parked", map[string]any{"k": k, "order": order, "replies": n})
				}
			}
			for _, m := range p.Monitor() {
				c.Violation("C06:gated:"+firstWord(m), map[string]any{"monitor": m})
			}
			c.Case(fmt.Sprintf("gated:%d:%v", k, order), good)
			for _, g := range gates {
				g.Release()
			}
			p.Close()
		}
	}
}

func indexOf(l []int, x int) int {
	for i, v := range l {
		if v == x {
			return i
		}
	}
	return -1
}

// c06Flush: every flavour of Tflush gets exactly one reply.
func c06Flush(c *ev.Ctx) {
	kinds := []string{"own-tag", "idle-tag", "answered-tag", "in-flight-tag", "chain", "two-for-one", "NOTAG"}
	for i, kind := range kinds {
		if !c.Mine(i) {
			continue
		}
		c.Begin("C06 flush " + kind)
		fs, p, ok := stormWorld(c, 0, false)
		if !ok {
			c.Inconclusive("flush setup")
			p.Close()
			continue
		}
		from := p.NReplies()
		expect := map[uint16]uint8{}
		var gate *memfs.Gate
		switch kind {
		case "own-tag":
			p.Send(wire.Tflush, 70, u(70))
			expect[70] = wire.Rflush
		case "idle-tag":
			p.Send(wire.Tflush, 70, u(4242))
			expect[70] = wire.Rflush
		case "NOTAG":
			p.Send(wire.Tflush, 70, u(wire.NOTAG))
			expect[70] = wire.Rflush
		case "answered-tag":
			p.RPCTag(wire.Tgetattr, 60, u(20), u(0x3fff))
			from = p.NReplies()
			p.Send(wire.Tflush, 70, u(60))
			expect[70] = wire.Rflush
		case "in-flight-tag", "chain", "two-for-one":
			gate = fs.Hold(memfs.Match{Method: "ReadAt"}, 1)
			p.Send(wire.Tread, 60, u(20), u(0), u(8))
			gate.WaitParked(1)
			p.Send(wire.Tflush, 70, u(60))
			expect[60], expect[70] = wire.Rread, wire.Rflush
			if kind == "chain" {
				p.Send(wire.Tflush, 71, u(70))
				expect[71] = wire.Rflush
			}
			if kind == "two-for-one" {
				p.Send(wire.Tflush, 71, u(60))
				expect[71] = wire.Rflush
			}
			// flushes wait for the parked request: let things settle, then release
			quiesce.WaitUntil(func() bool { return false }, 5*time.Second)
			gate.Release()
		}
		for tag, want := range expect {
			rep, ok, o, d := p.WaitTag(tag, from)
			if !ok {
				hang(c, o, d, "C06:flush:"+kind+":request-unanswered", map[string]any{"tag": tag, "want": wire.TypeName(want)})
				continue
			}
			if rep.Msg.Type != want {
				c.Violation("C06:flush:"+kind+":wrong-reply", map[string]any{"tag": tag, "reply": rep.Msg.String()})
			}
		}
		if n := p.NReplies() - from; n > len(expect) {
			c.Violation("C06:flush:"+kind+":extra-replies", map[string]any{"replies": n, "expected": len(expect)})
		}
		for _, m := range p.Monitor() {
			c.Violation("C06:flush:"+kind+":"+firstWord(m), map[string]any{"monitor": m})
		}
		c.Case("flush:"+kind, true)
		out, dump := p.Close()
		hang(c, out, dump, "C06:flush:"+kind+":Handle-does-not-return", nil)
	}
}

// c06Many: 64 requests parked at once; a 65th, unrelated one must complete.
func c06Many(c *ev.Ctx) {
	if !c.Mine(3) {
		return
	}
	for _, n := range []int{8, 64, 200} {
		c.Begin(fmt.Sprintf("C06 many parked n=%d", n))
		fs, p, ok := stormWorld(c, 0, false)
		if !ok {
			c.Inconclusive("many setup")
			p.Close()
			continue
		}
		gate := fs.Hold(memfs.Match{Method: "ReadAt"}, 0)
		from := p.NReplies()
		for j := 0; j < n; j++ {
			p.Send(wire.Tread, uint16(1000+j), u(uint64(20+j%8)), u(0), u(4))
		}
		if o, d := gate.WaitParked(n); o != quiesce.CondMet {
			hang(c, o, d, "C06:many:parked-requests-not-all-served-concurrently", map[string]any{"n": n, "parked": len(gate.Parked())})
		}
		p.Send(wire.Tgetattr, 5000, u(30), u(0x3fff))
		rep, ok2, o, d := p.WaitTag(5000, from)
		if !ok2 {
			hang(c, o, d, "C06:many:request-starved-while-others-parked", map[string]any{"parked": n})
		} else if rep.Msg.Type != wire.Rgetattr {
			c.Violation("C06:many:wrong-reply", rep.Msg.String())
		}
		gate.Release()
		for j := 0; j < n; j++ {
			if _, ok, o, d := p.WaitTag(uint16(1000+j), from); !ok {
				hang(c, o, d, "C06:many:released-request-unanswered", n)
				break
			}
		}
		for _, m := range p.Monitor() {
			c.Violation("C06:many:"+firstWord(m), map[string]any{"monitor": m})
		}
		c.Case(fmt.Sprintf("many:%d", n), true)
		c.Max("max_parked_at_once", int64(n))
		p.Close()
	}
}

// c06FlushOrder: flushes judged by the order of the frames on the wire, with
// no pause between them (all frames of a round go out in one write).
//
//	mutual:  Tflush(tag a, oldtag b) then Tflush(tag b, oldtag a). When the first
//	         was sent, b was idle: it is answered at once; the second names a
//	         request sent earlier and may wait for it. Both are answered.
//	forward: Tflush(tag a, oldtag b) then a request with tag b: same reasoning.
//	ring:    three flushes each naming the next one's tag.
//
// A receiver that looks the old tag up only when the flush handler runs can see
// the later frame's tag as in flight and wait for it - forever, in the mutual
// case. Schedule-dependent: many rounds.
func c06FlushOrder(c *ev.Ctx) {
	rounds := c.Sz(3000, 120000)
	shapes := []string{"mutual", "forward", "ring"}
	for si, shape := range shapes {
		_, p, ok := stormWorld(c, 0, false)
		if !ok {
			c.Inconclusive("flush-order setup")
			p.Close()
			continue
		}
		c.Begin("C06 flush order " + shape)
		bad := false
		for i := 0; i < rounds && !bad; i++ {
			if !c.Mine(i*len(shapes) + si) {
				continue
			}
			from := p.NReplies()
			a, b, d := uint16(100+(i%50)*3), uint16(101+(i%50)*3), uint16(102+(i%50)*3)
			var frames []byte
			var tags []uint16
			switch shape {
			case "mutual":
				frames = append(wire.Encode(wire.Tflush, a, u(uint64(b))), wire.Encode(wire.Tflush, b, u(uint64(a)))...)
				tags = []uint16{a, b}
			case "forward":
				frames = append(wire.Encode(wire.Tflush, a, u(uint64(b))), wire.Encode(wire.Tgetattr, b, u(20), u(1))...)
				tags = []uint16{a, b}
			case "ring":
				frames = append(append(wire.Encode(wire.Tflush, a, u(uint64(b))), wire.Encode(wire.Tflush, b, u(uint64(d)))...), wire.Encode(wire.Tflush, d, u(uint64(a)))...)
				tags = []uint16{a, b, d}
			}
			for _, t := range tags {
				p.Expect(wire.Encode(wire.Tflush, t, u(0))) // accounted as outstanding (type checked below)
			}
			p.SendRaw(frames)
			for _, t := range tags {
				rep, ok, o, dump := p.WaitTag(t, from)
				if !ok {
					hang(c, o, dump, "C06:flush-order:"+shape+":request-unanswered", map[string]any{"round": i, "tag": t})
					bad = true
					break
				}
				if rep.Msg.Type == wire.Rlerror {
					c.Violation("C06:flush-order:"+shape+":wrong-reply", map[string]any{"reply": rep.Msg.String()})
					bad = true
				}
			}
			c.Count("flush_order_rounds", 1)
		}
		p.Monitor()
		c.Case("flush-order:"+shape, true)
		if bad {
			return
		}
		out, dump := p.Close()
		hang(c, out, dump, "C06:flush-order:"+shape+":Handle-does-not-return", nil)
	}
}

// c06HalfClose: the client has sent its requests and shuts down its sending
// direction (shutdown(SHUT_WR), as a client that has nothing more to ask may)
// while K requests are still inside the backend. The server reads EOF; every
// request it had received is still owed its reply, over the still open other
// direction, in whatever order the backend lets them finish. Real socket pair,
// one connection object for both directions (as Serve uses it).
func c06HalfClose(c *ev.Ctx) {
	const K = 5
	for oi, order := range [][]int{{0, 1, 2, 3, 4}, {4, 3, 2, 1, 0}, {2, 0, 4, 1, 3}, {1, 3, 0, 2, 4}} {
		if !c.Mine(oi) {
			continue
		}
		c.Begin(fmt.Sprintf("C06 half-close order %v", order))
		fs := memfs.New()
		for k := 0; k < K; k++ {
			n := fs.MkPath(fmt.Sprintf("/r%d", k), p9.ModeRegular|0644, "")
			n.Synth, n.SynthSz = true, 1<<16
		}
		srv := p9.NewServer(fs)
		s, vr := newSessOn(srv, 1<<16, v7, sockOpts())
		uc, isUnix := s.P.C.(*net.UnixConn)
		ok := vr.OK && isUnix && s.attach(0, "").Errno() == 0
		for k := 0; k < K && ok; k++ {
			ok = s.walk(0, uint64(20+k), fmt.Sprintf("r%d", k)).Errno() == 0 && s.open(uint64(20+k), 0).Errno() == 0
		}
		if !ok {
			c.Inconclusive("C06 half-close setup (socket pair unavailable?)")
			s.P.Close()
			continue
		}
		var gates []*memfs.Gate
		for k := 0; k < K; k++ {
			gates = append(gates, fs.Hold(memfs.Match{Method: "ReadAt", Path: fmt.Sprintf("/r%d", k)}, 1))
		}
		from := s.P.NReplies()
		for k := 0; k < K; k++ {
			s.P.Send(wire.Tread, uint16(700+k), u(uint64(20+k)), u(0), u(64))
		}
		parked := true
		for k := 0; k < K; k++ {
			if o, _ := gates[k].WaitParked(1); o != quiesce.CondMet {
				parked = false
			}
		}
		if !parked {
			c.Inconclusive("C06 half-close: reads did not park")
			for _, g := range gates {
				g.Release()
			}
			s.P.Close()
			continue
		}
		s.P.Flush()
		uc.CloseWrite()
		// let the server see the end of the request stream while all K are parked
		quiesce.WaitUntil(func() bool { return false }, 3*time.Second)
		lost := false
		for _, k := range order {
			gates[k].Release()
			rep, got, o, d := s.P.WaitTag(uint16(700+k), from)
			if !got {
				det := map[string]any{"release_order": order, "request": k}
				if o == quiesce.CondMet {
					c.Violation("C06:half-close:request-received-before-the-client-shut-down-its-sending-side-never-answered", det)
				} else {
					hang(c, o, d, "C06:half-close:request-never-answered", det)
				}
				lost = true
				break
			}
			if rep.Msg.Type != wire.Rread {
				c.Violation("C06:half-close:wrong-reply", map[string]any{"reply": rep.Msg.String()})
			}
		}
		for _, g := range gates {
			g.Release()
		}
		if !lost {
			if n := s.P.NReplies() - from; n != K {
				c.Violation("C06:half-close:reply-count", map[string]any{"replies": n, "requests": K})
			}
		}
		for _, m := range s.P.Monitor() {
			c.Violation("C06:half-close:"+firstWord(m), map[string]any{"monitor": m})
		}
		out, dump := s.P.Close()
		hang(c, out, dump, "C06:half-close:Handle-does-not-return", nil)
		c.Case(fmt.Sprintf("half-close:%v", order), true)
	}
}

// c06ThreeParties: A (a read on directory /a) is parked in the backend; W, a
// write-class request on /a, queues behind it; R, a rename elsewhere on the
// server, queues behind W (a rename waits for everything). Then A is released.
// All three are answered: a request that is waiting may hold the rename lock
// for reading once, not twice - a second acquisition behind the queued rename
// would never be granted.
func c06ThreeParties(c *ev.Ctx) {
	ops := concOps()
	byName := map[string]cop{}
	for _, o := range ops {
		byName[o.name] = o
	}
	idx := 0
	for _, wn := range []string{"create", "mkdir", "symlink", "mknod", "link", "unlinkat", "setattr"} {
		for _, rn := range []string{"renameat", "rename"} {
			idx++
			if !c.Mine(idx) {
				continue
			}
			c.Begin(fmt.Sprintf("C06 three parties W=%s R=%s", wn, rn))
			w, ok := newConcWorld(2)
			if !ok {
				c.Inconclusive("three-parties world")
				w.close()
				continue
			}
			ca, cb := w.conns[0], w.conns[1]
			fa, ok1 := ca.fidAt("/a", 'u', true)
			fw, ok2 := ca.fidAt("/a", 'u', true)
			var fr uint64
			var ok3 bool
			if rn == "renameat" {
				fr, ok3 = cb.fidAt("/d", 'u', true)
			} else {
				fr, ok3 = cb.fidAt("/d/x", 'u', false)
			}
			if !ok1 || !ok2 || !ok3 {
				c.Inconclusive("three-parties setup")
				w.close()
				continue
			}
			g := w.fs.Hold(memfs.Match{Method: "GetAttr", Path: "/a"}, 1)
			fromA, fromB := ca.p.NReplies(), cb.p.NReplies()
			byName["getattr"].send(ca.p, 500, fa, 801, "g")
			if o, _ := g.WaitParked(1); o != quiesce.CondMet {
				g.Release()
				c.Case("three-parties:not-parked", false)
				w.close()
				continue
			}
			byName[wn].send(ca.p, 501, fw, 801, "h")
			quiesce.WaitUntil(func() bool { return ca.p.HasReplyFrom(501, fromA) != nil }, wd) // W gets as far as it can
			byName[rn].send(cb.p, 502, fr, 801, "x")
			quiesce.WaitUntil(func() bool { return cb.p.HasReplyFrom(502, fromB) != nil }, wd)
			g.Release()
			det := map[string]any{"W": wn, "R": rn}
			for _, x := range []struct {
				p   *rawpeer.Peer
				tag uint16
				fr  int
				who string
			}{{ca.p, 500, fromA, "A"}, {ca.p, 501, fromA, "W"}, {cb.p, 502, fromB, "R"}} {
				if _, ok, o, d := x.p.WaitTag(x.tag, x.fr); !ok {
					hang(c, o, d, "C06:three-parties:request-never-answered:"+x.who+":"+wn, det)
					break
				}
			}
			c.Case("three-parties:"+wn+":"+rn, true)
			c.Count("three_party_rounds", 1)
			w.close()
		}
	}
}
