package checks

import (
	"fmt"
	"sync"

	"github.com/hugelgupf/p9/p9"

	"verif/internal/ev"
	"verif/internal/memfs"
	"verif/internal/quiesce"
	"verif/internal/wire"
)

// c08CreateVsRename: a Tlcreate is held (verif hook) in the window after the
// new fid has been registered in the server's path tree and before it is in the
// connection's fid table; in that window another connection renames the new
// entry (or its directory), or unlinks it. Afterwards the created fid must
// denote the created object at its current path like any other fid: identity
// probe, clone, and the fence rule if the entry was unlinked.
//
// Without the hook the window is a few instructions wide and was never hit; it
// was pointed out by a sub-agent reading the unmodified code.
func c08CreateVsRename(c *ev.Ctx) {
	idx := 0
	for _, op := range []string{"renameat-entry", "renameat-entry-cross-dir", "renameat-directory", "unlinkat-entry", "none"} {
		for _, other := range []bool{true, false} {
			idx++
			if !c.Mine(idx) {
				continue
			}
			c08CreateCase(c, op, other)
			if hungFlag {
				return
			}
		}
	}
}

func c08CreateCase(c *ev.Ctx, op string, otherConn bool) {
	name := fmt.Sprintf("create-vs-%s:other-conn=%v", op, otherConn)
	sig := "C08:" + name
	c.Begin("C08 " + name)
	fs := memfs.New()
	fs.MkPath("/a/keep", p9.ModeRegular|0644, "x")
	fs.MkPath("/u/v", p9.ModeRegular|0644, "y")
	srv := p9.NewServer(fs)
	sA, v1 := newSess(srv, 1<<16, v7)
	sB, v2 := newSess(srv, 1<<16, v7)
	defer sA.P.Close()
	defer sB.P.Close()
	if !otherConn {
		sB = sA
	}
	ok := v1.OK && v2.OK && sA.attach(0, "").Errno() == 0 && (!otherConn || sB.attach(0, "").Errno() == 0)
	ok = ok && sA.walk(0, 1, "a").Errno() == 0                                      // fid 1: the directory, becomes the created file
	ok = ok && sB.walk(0, 11, "a").Errno() == 0 && sB.walk(0, 12, "u").Errno() == 0 // B's own fids
	if !ok {
		c.Violation(sig+":setup-refused", map[string]any{})
		return
	}
	// hold Tlcreate at the hook
	parked := make(chan struct{})
	release := make(chan struct{})
	var once sync.Once
	p9.VerifSetPoint(func(pt string) {
		if pt == "tlcreate:registered-not-inserted" {
			once.Do(func() { close(parked); <-release })
		}
	})
	defer p9.VerifSetPoint(nil)
	tagC := sA.P.Tag()
	fromC := sA.P.NReplies()
	sA.P.Send(wire.Tlcreate, tagC, u(1), "new", u(2), u(0644), u(0))
	if o, d := quiesce.Await(parked, wd); o != quiesce.CondMet {
		close(release)
		if !hang(c, o, d, sig+":Tlcreate-does-not-reach-the-hook", nil) {
			c.Inconclusive(sig + ": hook not reached")
		}
		return
	}
	// the competing request; it may complete now or queue until the create is done
	var tagO uint16
	fromO := sB.P.NReplies()
	wantPath := "/a/new"
	switch op {
	case "renameat-entry":
		tagO = sB.P.Tag()
		sB.P.Send(wire.Trenameat, tagO, u(11), "new", u(11), "moved")
		wantPath = "/a/moved"
	case "renameat-entry-cross-dir":
		tagO = sB.P.Tag()
		sB.P.Send(wire.Trenameat, tagO, u(11), "new", u(12), "moved")
		wantPath = "/u/moved"
	case "renameat-directory":
		tagO = sB.P.Tag()
		sB.P.Send(wire.Trenameat, tagO, u(0), "a", u(0), "z")
		wantPath = "/z/new"
	case "unlinkat-entry":
		tagO = sB.P.Tag()
		sB.P.Send(wire.Tunlinkat, tagO, u(11), "new", u(0))
		wantPath = ""
	}
	if tagO != 0 {
		quiesce.WaitUntil(func() bool { return sB.P.HasReplyFrom(tagO, fromO) != nil }, wd)
	}
	close(release)
	rc, okC, o, d := sA.P.WaitTag(tagC, fromC)
	if !okC {
		hang(c, o, d, sig+":request-never-answered:Tlcreate", nil)
		return
	}
	if tagO != 0 {
		ro, okO, o, d := sB.P.WaitTag(tagO, fromO)
		if !okO {
			hang(c, o, d, sig+":request-never-answered:"+op, nil)
			return
		}
		if ro.Msg.Type == wire.Rlerror {
			c.Inconclusive(fmt.Sprintf("%s: competing request refused: %s", sig, ro.Msg.String()))
			return
		}
	}
	if rc.Msg.Type != wire.Rlcreate {
		c.Violation(sig+":Tlcreate-refused", map[string]any{"reply": rc.Msg.String()})
		return
	}
	obj := rc.Msg.F[0].(wire.QID).Path
	det := map[string]any{"competing_request": op, "created_object": obj, "tree": fs.Snapshot()}
	if wantPath != "" {
		if n := fs.Lookup(wantPath); n == nil || n.ID != obj {
			c.Inconclusive(fmt.Sprintf("%s: backend tree is not what the scenario expects", sig))
			return
		}
		// identity: the created fid reaches the created object at its current path
		g := sA.getattr(1)
		if ino, ok := getattrIno(g); !g.OK || !ok || ino != obj {
			det["getattr"] = g.Msg.String()
			c.Violation(sig+":created-fid-no-longer-reaches-its-object", det)
			return
		}
		// path-dependent use: setattr goes to the object at its current path
		if r := sA.P.RPC(wire.Tsetattr, u(1), u(1), u(0600), u(0), u(0), u(0), u(0), u(0), u(0), u(0)); !r.OK || r.Msg.Type != wire.Rsetattr {
			det["setattr"] = r.Msg.String()
			c.Violation(sig+":created-fid-cannot-be-used", det)
			return
		}
		if n := fs.Lookup(wantPath); n == nil || n.Mode&0777 != 0600 {
			c.Violation(sig+":operation-through-created-fid-missed-its-object", det)
			return
		}
	} else {
		// unlinked: fenced - a path-dependent operation fails EINVAL without a backend call
		mark := fs.TotalCalls()
		r := sA.P.RPC(wire.Tsetattr, u(1), u(1), u(0600), u(0), u(0), u(0), u(0), u(0), u(0), u(0))
		if !r.OK || r.Errno() != EINVAL || fs.TotalCalls() != mark {
			det["setattr"] = r.Msg.String()
			c.Violation(sig+":created-fid-not-fenced-after-unlink", det)
			return
		}
	}
	// a clone of the created fid works (not EFAULT), whatever happened
	if r := sA.walk(1, 2); !r.OK || r.Errno() != 0 {
		det["clone"] = r.Msg.String()
		c.Violation(sig+":created-fid-cannot-be-cloned", det)
		return
	}
	if msg := verifTree(srv); msg != "" {
		det["hook"] = msg
		c.Violation(sig+":server-path-tree-inconsistent", det)
	}
	sA.P.Close()
	sB.P.Close()
	if lv := fs.LifecycleViolations(true); len(lv) > 0 {
		c.Violation(sig+":backend-lifecycle:"+firstWord(lv[0]), map[string]any{"monitor": lv})
	}
	c.Case(name, op != "none")
}
