package checks

import (
	"bytes"
	"errors"
	"fmt"
	"github.com/hugelgupf/p9/linux"
	"io"
	"runtime"
	"strings"
	"sync"
	"sync/atomic"
	"time"

	"github.com/anishathalye/porcupine"
	"github.com/hugelgupf/p9/p9"

	"verif/internal/ev"
	"verif/internal/fakesrv"
	"verif/internal/quiesce"
	"verif/internal/wire"
)

func init() {
	ev.Register(&ev.Spec{
		ID: "C10", Level: "exploration",
		Rule:            "a real client against a scripted fake server whose request-stream monitor tracks outstanding tags and bound fids: (1) k concurrent calls (GetAttr, ReadAt, Readdir, Readlink, StatFS, FSync, mixed), replies released in every order for k <= 5 (quick k <= 4) and PRNG orders up to k = 128, reply contents a function of the request so each caller checks it got its own; (2) the allocator through a verif hook: every Get/Put sequence up to length 9 over small ranges, and concurrent Get/Put histories checked for linearizability with porcupine against a free-set model; (3) at every reply point of a concurrent session the server instead closes / sends half a frame and closes / breaks only the client's write side / sends size<7, size>msize, an unknown tag, a wrong R-type, an undecodable body: every call pending then (and, after a break, every later call) must return an error, none may hang (quiescence) or return foreign data; (4) PRNG concurrent sessions with clunk/walk churn for fid re-use accounting; (5) fids whose fate the client cannot know: Close / Remove / Walk pending, a non-fatal unacceptable frame, 14 further walks, the request-stream monitor watches fid numbers; (6) late replies: the old requests are answered after all, under their own tags, while new calls are pending - no new call may be handed one. Callers check data and, for calls answered Rlerror, an errno that is a function of the fid. (7) a send that fails after delivery: a transport whose Write reports an error although the peer received the request, another caller waiting with the right to receive, the reply arriving across the withdrawal - nothing crashes, the other call and a later call get their own replies. (7c) a send that fails half way through a frame with 1-3 calls registered and waiting for their turn: all of them fail, none writes behind the half frame, none hangs. (7d) stale completion: the receiver held (verifPoint hook) between taking a request out of the pending table and completing it while its caller withdraws; the next call in the process, on another Client with a silent server, must not return. (8) 6 goroutines on ONE File with pairwise different arguments (Readdir, ReadAt, GetAttr); results are re-examined once the round is over. (9) break under load: one caller receiving, 600 registered and in or behind the send, both directions fail; all fail, and a second Client on a healthy connection afterwards gets its own replies (the response objects are recycled process-wide). (10) the tag space used up by history: 65534 calls fail their wait on a usable connection (each retires its tag), the next ones must fail instead of going out under NOTAG, a retired tag or one in flight. Non-trivial: >= 2 calls outstanding; distinct by (batch mix, order) / (fault kind, point).",
		Assume:          []string{"fake server replies are a deterministic function of the request body", "race detector on the large concurrent part"},
		Shards:          shards(8, 16),
		Race:            raceIn("thorough"),
		RaceIsViolation: true,
		Timeout:         timeout(8*time.Minute, 60*time.Minute),
		Run:             runC10,
	})
}

type c10call struct {
	kind byte
	off  uint64
	n    int
}

// c10Client is a client with nfiles open files on known fids.
type c10Client struct {
	fs    *fakesrv.Server
	cl    *p9.Client
	files []p9.File
	fids  []uint64
	root  p9.File // kept referenced: an unreachable client File is clunked by its finalizer at a random time
}

func c10Setup(c *ev.Ctx, nfiles int, handler func(s *fakesrv.Server, r *fakesrv.Req)) *c10Client {
	cc := &c10Client{fs: fakesrv.New(nil)}
	auto := fakesrv.Auto(0, 7)
	cc.fs.Handler = auto
	var err error
	ok := ev.Watch(60*time.Second, func() {
		cc.cl, err = p9.NewClient(cc.fs.C, p9.WithMessageSize(1<<16))
		if err != nil {
			return
		}
		var root p9.File
		root, err = cc.cl.Attach("")
		if err != nil {
			return
		}
		cc.root = root
		for i := 0; i < nfiles; i++ {
			var f p9.File
			_, f, err = root.Walk([]string{fmt.Sprintf("f%d", i)})
			if err != nil {
				return
			}
			cc.files = append(cc.files, f)
			cc.fids = append(cc.fids, lastNewfid(cc.fs))
		}
	})
	if !ok || err != nil {
		c.Inconclusive(fmt.Sprintf("C10 setup: %v (files walked %d of %d, requests seen %d)", err, len(cc.files), nfiles, cc.fs.NReqs()))
		cc.fs.Shutdown()
		return nil
	}
	cc.fs.Monitor()
	cc.fs.Handler = handler
	return cc
}

// do performs one call and compares the result with the reply derived from
// the caller's own arguments. It returns "" if the call got its own reply,
// "error:..." if it failed, or a description of the mismatch.
func (cc *c10Client) do(i int, call c10call) string {
	f, fid := cc.files[i], cc.fids[i]
	switch call.kind {
	case 'R':
		buf := make([]byte, call.n)
		n, err := f.ReadAt(buf, int64(call.off))
		if err != nil && err != io.EOF {
			return "error:" + err.Error()
		}
		if n != call.n || !bytes.Equal(buf[:n], fakesrv.Pattern(fid, call.off, n)) {
			return fmt.Sprintf("ReadAt(fid %d, off %d, n %d) returned foreign or wrong data (n=%d)", fid, call.off, call.n, n)
		}
	case 'G':
		q, _, a, err := f.GetAttr(p9.AttrMask{Mode: true, Size: true, UID: call.off&1 == 1})
		if err != nil {
			return "error:" + err.Error()
		}
		mask := uint64(1 | 0x200)
		if call.off&1 == 1 {
			mask |= 4
		}
		_, vals := fakesrv.Derived(wire.Msg{Type: wire.Tgetattr, F: []any{fid, mask}}, 1<<16)
		wq := vals[1].(wire.QID)
		if uint64(q.Path) != wq.Path || uint32(q.Version) != wq.Version || uint64(a.Mode) != vals[2].(uint64) || a.Size != vals[7].(uint64) {
			return fmt.Sprintf("GetAttr(fid %d) returned another request's attributes", fid)
		}
	case 'D':
		d, err := f.Readdir(call.off, uint32(call.n))
		if err != nil {
			return "error:" + err.Error()
		}
		_, vals := fakesrv.Derived(wire.Msg{Type: wire.Treaddir, F: []any{fid, call.off, uint64(call.n)}}, 1<<16)
		ents, _ := wire.DecodeDirents(vals[0].([]byte))
		if len(d) != len(ents) {
			return fmt.Sprintf("Readdir(fid %d) returned %d entries, own reply has %d", fid, len(d), len(ents))
		}
		for k := range d {
			if d[k].Name != ents[k].Name || d[k].QID.Path != ents[k].QID.Path || d[k].Offset != ents[k].Offset {
				return fmt.Sprintf("Readdir(fid %d) returned another request's entries", fid)
			}
		}
	case 'L':
		t, err := f.Readlink()
		if err != nil {
			return "error:" + err.Error()
		}
		_, vals := fakesrv.Derived(wire.Msg{Type: wire.Treadlink, F: []any{fid}}, 1<<16)
		if t != vals[0].(string) {
			return fmt.Sprintf("Readlink(fid %d) returned another request's target", fid)
		}
	case 'S':
		st, err := f.StatFS()
		if err != nil {
			return "error:" + err.Error()
		}
		_, vals := fakesrv.Derived(wire.Msg{Type: wire.Tstatfs, F: []any{fid}}, 1<<16)
		if uint64(st.Type) != vals[0].(uint64) || st.Blocks != vals[2].(uint64) || st.FSID != vals[7].(uint64) {
			return fmt.Sprintf("StatFS(fid %d) returned another request's values", fid)
		}
	case 'Y':
		if err := f.FSync(); err != nil {
			return "error:" + err.Error()
		}
	case 'E':
		// a call the server answers with Rlerror(errno = function of the fid):
		// the caller must get exactly that errno, not another call's
		_, _, _, err := f.GetAttr(p9.AttrMask{BTime: true, Gen: true})
		var le linux.Errno
		if err == nil {
			return fmt.Sprintf("GetAttr(fid %d) succeeded although the server answered Rlerror", fid)
		}
		if !errors.As(err, &le) {
			return "error:" + err.Error() // not an errno: the call failed for another reason
		}
		if uint64(le) != fakesrv.ErrnoFor(fid) {
			return fmt.Sprintf("GetAttr(fid %d) returned errno %d, the reply to its own request carried %d: another request's error", fid, uint64(le), fakesrv.ErrnoFor(fid))
		}
	}
	return ""
}

func c10Calls(r *ev.Rand, k int) []c10call {
	kinds := []byte{'R', 'R', 'G', 'D', 'L', 'S', 'Y', 'E', 'E'}
	var l []c10call
	for i := 0; i < k; i++ {
		l = append(l, c10call{kind: ev.Pick(r, kinds), off: uint64(r.Intn(1000)), n: 1 + r.Intn(3000)})
	}
	return l
}

func runC10(c *ev.Ctx) {
	c10Perms(c)
	c10Allocator(c)
	c10Faults(c)
	c10Churn(c)
	c10UnconfirmedFids(c)
	c10RefusedUnbind(c)
	c10LateReplies(c)
	c10SendFailsAfterDelivery(c)
	c10SendFailsLateReply(c)
	c10SendFailsQueuedCalls(c)
	c10StaleCompletion(c)
	c10SharedFile(c)
	c10BreakUnderLoad(c)
	c10TagSpace(c)
}

// (1) reply permutations.
func c10Perms(c *ev.Ctx) {
	r := c.Rand("c10perm")
	idx := 0
	type job struct {
		k     int
		order []int
		mix   int
		late  bool
	}
	var jobs []job
	maxk := c.Sz(5, 5)
	for k := 2; k <= maxk; k++ {
		for _, o := range perms(k) {
			for mix := 0; mix < c.Sz(2, 20); mix++ {
				jobs = append(jobs, job{k, o, mix, false})
			}
		}
	}
	for i := 0; i < c.Sz(300, 16000); i++ {
		k := []int{8, 16, 64, 128}[r.Intn(4)]
		jobs = append(jobs, job{k, r.Perm(k), i, r.Bool()})
	}
	for _, jb := range jobs {
		idx++
		if !c.Mine(idx) {
			continue
		}
		rr := r.Fork(uint64(idx))
		calls := c10Calls(rr, jb.k)
		c.Begin(fmt.Sprintf("C10 perms k=%d order=%v mix=%d", jb.k, jb.order, jb.mix))
		cc := c10Setup(c, jb.k, nil)
		if cc == nil {
			continue
		}
		base := cc.fs.NReqs()
		res := make([]string, jb.k)
		var wg sync.WaitGroup
		hold := jb.k
		if jb.late {
			hold = jb.k / 2 // release the first replies while the other callers have not sent yet
		}
		start := func(lo, hi int) {
			for i := lo; i < hi; i++ {
				wg.Add(1)
				go func(i int) { defer wg.Done(); res[i] = cc.do(i, calls[i]) }(i)
			}
		}
		start(0, hold)
		if o, d := cc.fs.WaitReqs(base + hold); o != quiesce.CondMet {
			hang(c, o, d, "C10:perms:calls-not-sent", jb.k)
			cc.fs.Shutdown()
			continue
		}
		// map request index -> caller by fid
		reply := func(rq *fakesrv.Req) {
			t, vals := fakesrv.Derived(rq.Msg, 1<<16)
			cc.fs.Reply(t, rq.Msg.Tag, vals...)
		}
		byFid := func() map[uint64]*fakesrv.Req {
			m := map[uint64]*fakesrv.Req{}
			for _, rq := range cc.fs.Reqs()[base:] {
				m[rq.Msg.F[0].(uint64)] = rq
			}
			return m
		}
		replied := map[int]bool{}
		m := byFid()
		for _, i := range jb.order {
			if rq, ok := m[cc.fids[i]]; ok && !replied[i] && i < hold {
				reply(rq)
				replied[i] = true
				if jb.late && len(replied) == hold/2 {
					start(hold, jb.k)
					cc.fs.WaitReqs(base + jb.k)
					m = byFid()
					hold = jb.k
				}
			}
		}
		if jb.late {
			start(hold, jb.k)
			cc.fs.WaitReqs(base + jb.k)
			m = byFid()
		}
		for _, i := range jb.order {
			if !replied[i] {
				if rq, ok := m[cc.fids[i]]; ok {
					reply(rq)
					replied[i] = true
				}
			}
		}
		done := make(chan struct{})
		go func() { wg.Wait(); close(done) }()
		if o, d := quiesce.Await(done, wd); o != quiesce.CondMet {
			hang(c, o, d, "C10:perms:call-never-returns", map[string]any{"k": jb.k, "order": jb.order})
			cc.fs.Shutdown()
			continue
		}
		for i, s := range res {
			if s != "" {
				c.Violation("C10:perms:"+resClass(s), map[string]any{"k": jb.k, "order": jb.order, "caller": i, "call": string(calls[i].kind), "what": s})
			}
		}
		for _, mm := range cc.fs.Monitor() {
			c.Violation("C10:request-stream:"+firstWord(mm), map[string]any{"monitor": mm, "k": jb.k})
		}
		var mix []byte
		for _, cl := range calls {
			mix = append(mix, cl.kind)
		}
		key := fmt.Sprintf("perm:%d:%s:%v", jb.k, mix, jb.order)
		if jb.k > 8 {
			key = fmt.Sprintf("perm:%d:%x", jb.k, ev.H(fmt.Sprint(mix, jb.order)))
		}
		c.Case(key, true)
		c.Count("calls_with_own_reply_verified", int64(jb.k))
		if c.WantSample() && idx%13 == 0 {
			c.Sample(map[string]any{"part": "reply-permutation", "k": jb.k, "calls": string(mix), "release_order": jb.order})
		}
		cc.fs.Shutdown()
	}
}

func resClass(s string) string {
	if len(s) > 6 && s[:6] == "error:" {
		return "call-fails-although-its-reply-was-sent"
	}
	return "call-returns-foreign-or-wrong-data"
}

// (2) allocator.
type poolOp struct {
	put bool
	v   uint64
}
type poolOut struct {
	v  uint64
	ok bool
}

func c10Allocator(c *ev.Ctx) {
	if c.Mine(1) {
		// (a) every Get/Put sequence up to a length over small ranges
		maxLen := c.Sz(8, 10)
		n := 0
		for _, rg := range [][2]uint64{{0, 1}, {1, 3}, {5, 8}, {0, 0}, {65533, 65535}} {
			var rec func(p *p9.VerifPool, hist []poolOp, out map[uint64]bool, depth int)
			replay := func(hist []poolOp) (*p9.VerifPool, map[uint64]bool, []uint64) {
				p := p9.VerifNewPool(rg[0], rg[1])
				out := map[uint64]bool{}
				var got []uint64
				for _, op := range hist {
					if op.put {
						p.Put(op.v)
						delete(out, op.v)
					} else {
						v, ok := p.Get()
						if ok {
							out[v] = true
							got = append(got, v)
						}
					}
				}
				return p, out, got
			}
			rec = func(_ *p9.VerifPool, hist []poolOp, _ map[uint64]bool, depth int) {
				if depth == maxLen {
					return
				}
				// Get
				p, out, _ := replay(hist)
				v, ok := p.Get()
				n++
				capN := int(rg[1] - rg[0])
				switch {
				case ok && (out[v] || v < rg[0] || v >= rg[1]):
					c.Violation("C10:allocator:Get-returns-outstanding-or-out-of-range-value", map[string]any{"range": rg, "history": fmt.Sprint(hist), "got": v})
					return
				case !ok && len(out) < capN:
					c.Violation("C10:allocator:Get-fails-although-values-are-free", map[string]any{"range": rg, "history": fmt.Sprint(hist), "outstanding": len(out)})
					return
				}
				c.Case(fmt.Sprintf("alloc:%v:%v:get", rg, hist), len(out) >= 1)
				rec(nil, append(append([]poolOp(nil), hist...), poolOp{}), nil, depth+1)
				// Put of each outstanding value
				for o := range out {
					rec(nil, append(append([]poolOp(nil), hist...), poolOp{true, o}), nil, depth+1)
				}
			}
			rec(nil, nil, nil, 0)
		}
		c.Count("allocator_sequences_enumerated", int64(n))
		c.Sample(map[string]any{"part": "allocator-enumeration", "max_length": maxLen, "ranges": "[0,1) [1,3) [5,8) [0,0) [65533,65535)"})
	}
	if c.Mine(2) {
		// (b) concurrent histories, linearizability against a free-set model
		model := porcupine.Model{
			Init: func() interface{} { return uint64(0) }, // bitmask of outstanding values (range start..start+8)
			Step: func(state, in, out interface{}) (bool, interface{}) {
				st := state.(uint64)
				op := in.(poolOp)
				if op.put {
					bit := uint64(1) << (op.v - 100)
					return st&bit != 0, st &^ bit
				}
				o := out.(poolOut)
				if !o.ok {
					return st == 0x3F, st // fails only when all 6 values are outstanding
				}
				if o.v < 100 || o.v >= 106 {
					return false, st
				}
				bit := uint64(1) << (o.v - 100)
				return st&bit == 0, st | bit
			},
			Equal: func(a, b interface{}) bool { return a.(uint64) == b.(uint64) },
		}
		rounds := c.Sz(600, 24000)
		for round := 0; round < rounds; round++ {
			p := p9.VerifNewPool(100, 106)
			var clock int64
			var mu sync.Mutex
			var ops []porcupine.Operation
			var wg sync.WaitGroup
			for g := 0; g < 8; g++ {
				wg.Add(1)
				go func(g int) {
					defer wg.Done()
					var mine []uint64
					for i := 0; i < 12; i++ {
						if len(mine) > 0 && (i+g)%3 == 0 {
							v := mine[len(mine)-1]
							mine = mine[:len(mine)-1]
							t0 := atomic.AddInt64(&clock, 1)
							p.Put(v)
							t1 := atomic.AddInt64(&clock, 1)
							mu.Lock()
							ops = append(ops, porcupine.Operation{ClientId: g, Input: poolOp{true, v}, Call: t0, Output: poolOut{}, Return: t1})
							mu.Unlock()
						} else {
							t0 := atomic.AddInt64(&clock, 1)
							v, ok := p.Get()
							t1 := atomic.AddInt64(&clock, 1)
							if ok {
								mine = append(mine, v)
							}
							mu.Lock()
							ops = append(ops, porcupine.Operation{ClientId: g, Input: poolOp{}, Call: t0, Output: poolOut{v, ok}, Return: t1})
							mu.Unlock()
						}
					}
				}(g)
			}
			wg.Wait()
			res, _ := porcupine.CheckOperationsVerbose(model, ops, 30*time.Second)
			switch res {
			case porcupine.Illegal:
				c.Violation("C10:allocator:concurrent-history-not-linearizable", map[string]any{"ops": fmt.Sprint(ops)})
			case porcupine.Unknown:
				c.Inconclusive("C10 allocator: porcupine timeout")
			}
			c.Case(fmt.Sprintf("alloc-history:%d", round), true)
			c.Count("allocator_histories_checked", 1)
			c.Count("allocator_history_operations", int64(len(ops)))
		}
		c.Sample(map[string]any{"part": "allocator-linearizability", "goroutines": 8, "ops_per_goroutine": 12, "range": "[100,106)"})
	}
}

// (3) faults at every reply point.
func c10Faults(c *ev.Ctx) {
	r := c.Rand("c10fault")
	kinds := []string{"close", "half-frame-close", "half-broken", "size<7", "size>msize", "unknown-tag", "wrong-R-type", "undecodable-body", "garbage"}
	const K = 6 // concurrent callers
	idx := 0
	for _, kind := range kinds {
		for point := 0; point < K; point++ {
			for rep := 0; rep < c.Sz(8, 30); rep++ {
				idx++
				if !c.Mine(idx) {
					continue
				}
				rr := r.Fork(uint64(idx))
				calls := c10Calls(rr, K)
				c.Begin(fmt.Sprintf("C10 fault kind=%s point=%d rep=%d", kind, point, rep))
				cc := c10Setup(c, K+2, nil)
				if cc == nil {
					continue
				}
				// a second, healthy client in the same process: nothing that
				// happens to the first connection may reach its calls
				healthy := c10Setup(c, 2, fakesrv.Auto(0, 7))
				if healthy == nil {
					cc.fs.Shutdown()
					continue
				}
				base := cc.fs.NReqs()
				res := make([]string, K)
				var wg sync.WaitGroup
				for i := 0; i < K; i++ {
					wg.Add(1)
					go func(i int) { defer wg.Done(); res[i] = cc.do(i, calls[i]) }(i)
				}
				if o, d := cc.fs.WaitReqs(base + K); o != quiesce.CondMet {
					hang(c, o, d, "C10:faults:calls-not-sent", nil)
					healthy.fs.Shutdown()
					cc.fs.Shutdown()
					continue
				}
				reqs := cc.fs.Reqs()[base:]
				order := rr.Perm(K)
				answered := map[uint64]bool{}
				for j := 0; j < point; j++ {
					rq := reqs[order[j]]
					t, vals := fakesrv.Derived(rq.Msg, 1<<16)
					cc.fs.Reply(t, rq.Msg.Tag, vals...)
					answered[rq.Msg.F[0].(uint64)] = true
				}
				cc.fs.Flush()
				// the fault, in place of the next reply
				victim := reqs[order[point]]
				t, vals := fakesrv.Derived(victim.Msg, 1<<16)
				good := wire.Encode(t, victim.Msg.Tag, vals...)
				broken := true // does the connection end?
				switch kind {
				case "close":
					cc.fs.Close()
				case "half-frame-close":
					cc.fs.SendRaw(good[:len(good)/2])
					cc.fs.CloseAfterWrites()
				case "half-broken":
					atomic.StoreInt32(&cc.fs.FailWrites, 1)
				case "size<7":
					broken = false // a frame the client cannot accept: pending calls fail; later calls are not addressed
					cc.fs.SendRaw(hdr(uint32(rr.Intn(7)), t, victim.Msg.Tag))
				case "size>msize":
					broken = false
					cc.fs.SendRaw(hdr(1<<16+1+uint32(rr.Intn(1000)), t, victim.Msg.Tag))
				case "unknown-tag":
					broken = false
					cc.fs.SendRaw(wire.Encode(t, 0xFFF0, vals...))
				case "wrong-R-type":
					broken = false
					cc.fs.SendRaw(wire.Encode(wire.Rlopen, victim.Msg.Tag, wire.QID{}, u(0)))
				case "undecodable-body":
					broken = false
					if len(wire.LayoutOf(t).Fields) == 0 {
						// an empty-bodied reply cannot be made undecodable: it is simply this call's reply
						answered[victim.Msg.F[0].(uint64)] = true
					}
					cc.fs.SendRaw(wire.Frame(t, victim.Msg.Tag, []byte{1}))
				case "garbage":
					cc.fs.SendRaw(rr.Bytes(11 + rr.Intn(30)))
					cc.fs.CloseAfterWrites()
				}
				var laterRes []string
				if kind == "half-broken" {
					// later calls fail to send; then the read side ends too
					for i := 0; i < 2; i++ {
						var s string
						dn := make(chan struct{})
						go func() { s = cc.do(K+i, c10call{kind: 'G'}); close(dn) }()
						if o, _ := quiesce.Await(dn, wd); o == quiesce.Stuck {
							laterRes = append(laterRes, "hang")
							break
						} else if o == quiesce.Timeout {
							c.Inconclusive("C10 later call: watchdog")
							break
						}
						laterRes = append(laterRes, s)
					}
					cc.fs.Close()
				}
				if !broken {
					// the server goes on and closes a little later so nothing is left to the watchdog
					cc.fs.Flush()
					quiesce.WaitUntil(func() bool { return false }, 5*time.Second)
					cc.fs.Close()
				}
				done := make(chan struct{})
				go func() { wg.Wait(); close(done) }()
				det := map[string]any{"kind": kind, "replies_sent_before_fault": point}
				if o, d := quiesce.Await(done, wd); o != quiesce.CondMet {
					hang(c, o, d, "C10:faults:pending-call-hangs:"+kind, det)
					cc.fs.Shutdown()
					continue
				}
				for i, s := range res {
					was := answered[cc.fids[i]]
					switch {
					case was && s != "":
						c.Violation("C10:faults:"+resClass(s)+":"+kind, map[string]any{"caller": i, "what": s, "kind": kind})
					case !was && s == "" && calls[i].kind != 'Y':
						// a pending call "succeeded" with its own data although its reply was never sent
						c.Violation("C10:faults:pending-call-returns-success:"+kind, map[string]any{"caller": i, "kind": kind, "call": string(calls[i].kind)})
					case !was && s == "" && calls[i].kind == 'Y':
						c.Violation("C10:faults:pending-call-returns-success:"+kind, map[string]any{"caller": i, "kind": kind, "call": "FSync"})
					case !was && len(s) > 6 && s[:6] != "error:":
						c.Violation("C10:faults:pending-call-returns-foreign-data:"+kind, map[string]any{"caller": i, "what": s, "kind": kind})
					}
				}
				for _, s := range laterRes {
					if s == "hang" {
						c.Violation("C10:faults:later-call-hangs:"+kind, det)
					} else if s == "" || (len(s) > 6 && s[:6] != "error:") {
						c.Violation("C10:faults:later-call-does-not-fail:"+kind, map[string]any{"what": s})
					}
				}
				// after a break every later call fails
				if broken {
					var s string
					dn := make(chan struct{})
					go func() { s = cc.do(K+1, c10call{kind: 'S'}); close(dn) }()
					if o, d := quiesce.Await(dn, wd); o != quiesce.CondMet {
						hang(c, o, d, "C10:faults:call-after-break-hangs:"+kind, det)
					} else if s == "" || (len(s) > 6 && s[:6] != "error:") {
						c.Violation("C10:faults:call-after-break-does-not-fail:"+kind, map[string]any{"what": s})
					}
				}
				// the healthy client keeps getting its own replies
				hdone := make(chan struct{})
				var hbad string
				go func() {
					defer close(hdone)
					for i := 0; i < 24; i++ {
						if s := healthy.do(i%2, c10call{kind: "RGSL"[i%4], off: uint64(i), n: 10 + i}); s != "" {
							hbad = s
							return
						}
					}
				}()
				if o, d := quiesce.Await(hdone, wd); o != quiesce.CondMet {
					hang(c, o, d, "C10:faults:healthy-client-call-hangs-after-another-connection-failed:"+kind, det)
				} else if hbad != "" {
					c.Violation("C10:faults:healthy-client-disturbed-by-another-connection's-failure:"+kind, map[string]any{"kind": kind, "what": hbad})
				}
				healthy.fs.Shutdown()
				c.Case(fmt.Sprintf("fault:%s:%d:%d", kind, point, rep), true)
				c.SetAdd("fault_points", fmt.Sprintf("%s@%d", kind, point))
				cc.fs.Shutdown()
			}
		}
	}
}

// (4) churn: many goroutines walk/clunk/remove/read concurrently; the
// request-stream monitor accounts tags and fids; some binds are refused.
func c10Churn(c *ev.Ctx) {
	r := c.Rand("c10churn")
	rounds := c.Sz(120, 4000)
	for round := 0; round < rounds; round++ {
		if !c.Mine(round + 3) {
			continue
		}
		c.Begin(fmt.Sprintf("C10 churn %d", round))
		fs := fakesrv.New(nil)
		auto := fakesrv.Auto(0, 7)
		var nreq int64
		fs.Handler = func(s *fakesrv.Server, rq *fakesrv.Req) {
			k := atomic.AddInt64(&nreq, 1)
			if rq.Err == nil && (rq.Msg.Type == wire.Twalk || rq.Msg.Type == wire.Txattrwalk) && k%5 == 0 {
				s.Reply(wire.Rlerror, rq.Msg.Tag, u(2)) // refuse the bind: the fid may be re-used at once
				return
			}
			if rq.Err == nil && rq.Msg.Type == wire.Tclunk && k%7 == 0 {
				s.Reply(wire.Rlerror, rq.Msg.Tag, u(5)) // clunk error: the client must not re-use the fid
				return
			}
			auto(s, rq)
		}
		var cl *p9.Client
		var err error
		var root p9.File
		if !ev.Watch(60*time.Second, func() {
			cl, err = p9.NewClient(fs.C, p9.WithMessageSize(1<<16))
			if err == nil {
				root, err = cl.Attach("")
			}
		}) || err != nil {
			c.Inconclusive("C10 churn setup")
			fs.Shutdown()
			continue
		}
		G := []int{2, 8, 32}[round%3]
		steps := c.Sz(150, 600)
		var wg sync.WaitGroup
		var bad atomic.Value
		for g := 0; g < G; g++ {
			wg.Add(1)
			go func(g int) {
				defer wg.Done()
				rr := r.Fork(uint64(round*1000 + g))
				var files []p9.File
				for i := 0; i < steps; i++ {
					switch rr.Intn(6) {
					case 0, 1:
						if _, f, err := root.Walk([]string{"x"}); err == nil {
							files = append(files, f)
						}
					case 2:
						if len(files) > 0 {
							files[len(files)-1].Close()
							files = files[:len(files)-1]
						}
					case 3:
						if len(files) > 0 {
							f := files[rr.Intn(len(files))]
							buf := make([]byte, 1+rr.Intn(200))
							f.ReadAt(buf, int64(rr.Intn(100)))
						}
					case 4:
						if len(files) > 0 {
							files[0].GetXattr("user.x") // Txattrwalk + Tread + Tclunk on a fresh fid
						}
					default:
						if _, f, _, _, err := root.WalkGetAttr([]string{"y"}); err == nil {
							files = append(files, f)
						}
					}
				}
				for _, f := range files {
					f.Close()
				}
				_ = bad
			}(g)
		}
		done := make(chan struct{})
		go func() { wg.Wait(); close(done) }()
		if o, d := quiesce.Await(done, 2*wd); o != quiesce.CondMet {
			hang(c, o, d, "C10:churn:call-hangs", map[string]any{"goroutines": G})
			fs.Shutdown()
			continue
		}
		for _, mm := range fs.Monitor() {
			c.Violation("C10:request-stream:"+firstWord(mm), map[string]any{"monitor": mm, "goroutines": G})
		}
		c.Count("churn_requests_monitored", int64(fs.NReqs()))
		c.Case(fmt.Sprintf("churn:%d:%d", G, round), G >= 2)
		if c.WantSample() {
			c.Sample(map[string]any{"part": "churn", "goroutines": G, "requests": fs.NReqs(), "fids_still_bound_at_server": fs.BoundFids()})
		}
		fs.Shutdown()
	}
}

// (5) fids whose fate the client cannot know. Calls that unbind (Close,
// Remove) or would bind (Walk) a fid are pending when the server sends a frame
// the client cannot accept but that leaves the connection usable (unknown tag,
// wrong reply type, undecodable body). They return an error; their requests
// stay unanswered for good. The client then goes on walking: no new File may
// get a fid number the server still has bound (unbind never confirmed) or may
// yet bind (bind never refused).
func c10UnconfirmedFids(c *ev.Ctx) {
	r := c.Rand("c10unconf")
	type removable interface{ Remove() error }
	idx := 0
	for _, kind := range []string{"unknown-tag", "wrong-R-type", "undecodable-body"} {
		for _, pend := range []string{"Close", "Remove", "Walk", "mixed"} {
			for rep := 0; rep < c.Sz(2, 40); rep++ {
				idx++
				if !c.Mine(idx) {
					continue
				}
				rr := r.Fork(uint64(idx))
				const K = 4
				c.Begin(fmt.Sprintf("C10 unconfirmed fids fault=%s pending=%s rep=%d", kind, pend, rep))
				cc := c10Setup(c, K+1, nil)
				if cc == nil {
					continue
				}
				base := cc.fs.NReqs()
				errs := make([]error, K)
				var held []p9.File
				var hmu sync.Mutex
				var wg sync.WaitGroup
				kinds := make([]string, K)
				for i := 0; i < K; i++ {
					kinds[i] = pend
					if pend == "mixed" {
						kinds[i] = []string{"Close", "Remove", "Walk"}[rr.Intn(3)]
					}
					wg.Add(1)
					go func(i int) {
						defer wg.Done()
						switch kinds[i] {
						case "Close":
							errs[i] = cc.files[i].Close()
						case "Remove":
							errs[i] = cc.files[i].(removable).Remove()
						default:
							_, f, err := cc.files[i].Walk([]string{"x"})
							errs[i] = err
							if f != nil {
								hmu.Lock()
								held = append(held, f)
								hmu.Unlock()
							}
						}
					}(i)
				}
				if o, d := cc.fs.WaitReqs(base + K); o != quiesce.CondMet {
					hang(c, o, d, "C10:unconfirmed:calls-not-sent", nil)
					cc.fs.Shutdown()
					continue
				}
				victim := cc.fs.Reqs()[base+rr.Intn(K)]
				t, vals := fakesrv.Derived(victim.Msg, 1<<16)
				switch kind {
				case "unknown-tag":
					cc.fs.SendRaw(wire.Encode(wire.Rclunk, 0xFFF0))
				case "wrong-R-type":
					cc.fs.SendRaw(wire.Encode(wire.Rlopen, victim.Msg.Tag, wire.QID{}, u(0)))
				case "undecodable-body":
					if len(wire.LayoutOf(t).Fields) == 0 {
						cc.fs.SendRaw(wire.Encode(wire.Rclunk, 0xFFF0)) // an empty body cannot be made undecodable
					} else {
						cc.fs.SendRaw(wire.Frame(t, victim.Msg.Tag, []byte{1}))
					}
				}
				_ = vals
				done := make(chan struct{})
				go func() { wg.Wait(); close(done) }()
				det := map[string]any{"fault": kind, "pending": kinds}
				if o, d := quiesce.Await(done, wd); o != quiesce.CondMet {
					hang(c, o, d, "C10:unconfirmed:pending-call-hangs:"+kind, det)
					cc.fs.Shutdown()
					continue
				}
				for i, e := range errs {
					if e == nil {
						c.Violation("C10:unconfirmed:pending-call-returns-success:"+kinds[i]+":"+kind, det)
					}
				}
				// the old requests stay unanswered; everything new is served
				cc.fs.Monitor()
				cc.fs.Handler = fakesrv.Auto(0, 7)
				walked := 0
				wdone := make(chan struct{})
				go func() {
					defer close(wdone)
					for i := 0; i < 3*K+2; i++ {
						_, f, err := cc.root.Walk([]string{fmt.Sprintf("n%d", i)})
						if err != nil {
							return
						}
						walked++
						hmu.Lock()
						held = append(held, f)
						hmu.Unlock()
					}
				}()
				if o, d := quiesce.Await(wdone, wd); o != quiesce.CondMet {
					hang(c, o, d, "C10:unconfirmed:later-walk-hangs:"+kind, det)
					cc.fs.Shutdown()
					continue
				}
				for _, m := range cc.fs.Monitor() {
					if strings.HasPrefix(m, "fid:") {
						d2 := map[string]any{"monitor": m, "later_walks": walked}
						for k, v := range det {
							d2[k] = v
						}
						c.Violation("C10:unconfirmed:"+firstWord(m)+":pending-"+pend+":"+kind, d2)
					}
				}
				c.Case(fmt.Sprintf("unconfirmed:%s:%s:walked%d", kind, pend, minI(walked, 1)), walked > 0)
				c.Count("walks_after_unconfirmed_unbind", int64(walked))
				cc.fs.Shutdown()
				runtime.KeepAlive(held)
			}
		}
	}
}

// (5b) an unbind the server answers with Rlerror is not a confirmation either:
// the fid number is not handed out again.
func c10RefusedUnbind(c *ev.Ctx) {
	type removable interface{ Remove() error }
	for i, how := range []string{"Close", "Remove"} {
		if !c.Mine(i) {
			continue
		}
		c.Begin("C10 refused unbind " + how)
		cc := c10Setup(c, 3, nil)
		if cc == nil {
			continue
		}
		auto := fakesrv.Auto(0, 7)
		cc.fs.Handler = func(s *fakesrv.Server, rq *fakesrv.Req) {
			if rq.Err == nil && (rq.Msg.Type == wire.Tclunk || rq.Msg.Type == wire.Tremove) {
				s.Reply(wire.Rlerror, rq.Msg.Tag, u(5))
				return
			}
			auto(s, rq)
		}
		done := make(chan struct{})
		var held []p9.File
		walked := 0
		go func() {
			defer close(done)
			for k := 0; k < 2; k++ {
				if how == "Close" {
					cc.files[k].Close()
				} else {
					cc.files[k].(removable).Remove()
				}
			}
			for k := 0; k < 8; k++ {
				_, f, err := cc.root.Walk([]string{fmt.Sprintf("n%d", k)})
				if err != nil {
					return
				}
				walked++
				held = append(held, f)
			}
		}()
		if o, d := quiesce.Await(done, wd); o != quiesce.CondMet {
			hang(c, o, d, "C10:refused-unbind:call-hangs", how)
			cc.fs.Shutdown()
			continue
		}
		for _, m := range cc.fs.Monitor() {
			if strings.HasPrefix(m, "fid:") {
				c.Violation("C10:refused-unbind:"+firstWord(m)+":"+how, map[string]any{"monitor": m, "later_walks": walked})
			}
		}
		c.Case("refused-unbind:"+how, walked > 0)
		cc.fs.Shutdown()
		runtime.KeepAlive(held)
	}
}

// (6) late replies. K calls are pending when the server sends a frame the
// client cannot accept but that leaves the connection usable; the pending calls
// fail. The server then answers those old requests after all (late, but with
// their own tags - a slow or confused server), while new calls are being made.
// No new call may be handed a reply that was produced for one of the old
// requests: every call returns the reply to its own request or an error.
func c10LateReplies(c *ev.Ctx) {
	r := c.Rand("c10late")
	idx := 0
	for _, kind := range []string{"unknown-tag", "wrong-R-type", "undecodable-body"} {
		for rep := 0; rep < c.Sz(6, 120); rep++ {
			idx++
			if !c.Mine(idx) {
				continue
			}
			rr := r.Fork(uint64(idx))
			const K = 5
			c.Begin(fmt.Sprintf("C10 late replies fault=%s rep=%d", kind, rep))
			cc := c10Setup(c, 2*K, nil)
			if cc == nil {
				continue
			}
			base := cc.fs.NReqs()
			calls := c10Calls(rr, 2*K)
			res := make([]string, 2*K)
			var wg sync.WaitGroup
			for i := 0; i < K; i++ {
				wg.Add(1)
				go func(i int) { defer wg.Done(); res[i] = cc.do(i, calls[i]) }(i)
			}
			if o, d := cc.fs.WaitReqs(base + K); o != quiesce.CondMet {
				hang(c, o, d, "C10:late:calls-not-sent", nil)
				cc.fs.Shutdown()
				continue
			}
			old := cc.fs.Reqs()[base : base+K]
			victim := old[rr.Intn(K)]
			t, _ := fakesrv.Derived(victim.Msg, 1<<16)
			switch kind {
			case "unknown-tag":
				cc.fs.SendRaw(wire.Encode(wire.Rclunk, 0xFFF0))
			case "wrong-R-type":
				cc.fs.SendRaw(wire.Encode(wire.Rlopen, victim.Msg.Tag, wire.QID{}, u(0)))
			case "undecodable-body":
				if len(wire.LayoutOf(t).Fields) == 0 {
					cc.fs.SendRaw(wire.Encode(wire.Rclunk, 0xFFF0))
				} else {
					cc.fs.SendRaw(wire.Frame(t, victim.Msg.Tag, []byte{1}))
				}
			}
			done := make(chan struct{})
			go func() { wg.Wait(); close(done) }()
			det := map[string]any{"fault": kind}
			if o, d := quiesce.Await(done, wd); o != quiesce.CondMet {
				hang(c, o, d, "C10:late:pending-call-hangs:"+kind, det)
				cc.fs.Shutdown()
				continue
			}
			// new calls on other files; the server holds their requests until
			// all of them have arrived, answers the OLD requests first and the
			// new ones afterwards
			base2 := cc.fs.NReqs()
			var wg2 sync.WaitGroup
			for i := K; i < 2*K; i++ {
				wg2.Add(1)
				go func(i int) { defer wg2.Done(); res[i] = cc.do(i, calls[i]) }(i)
			}
			if o, d := cc.fs.WaitReqs(base2 + K); o != quiesce.CondMet {
				hang(c, o, d, "C10:late:new-calls-not-sent", det)
				cc.fs.Shutdown()
				continue
			}
			for _, rq := range old {
				rt, vals := fakesrv.Derived(rq.Msg, 1<<16)
				cc.fs.SendRaw(wire.Encode(rt, rq.Msg.Tag, vals...))
			}
			cc.fs.Flush()
			for _, rq := range cc.fs.Reqs()[base2 : base2+K] {
				rt, vals := fakesrv.Derived(rq.Msg, 1<<16)
				cc.fs.SendRaw(wire.Encode(rt, rq.Msg.Tag, vals...))
			}
			cc.fs.Flush()
			// whatever is still pending now will never be answered: close
			quiesce.WaitUntil(func() bool { return false }, 3*time.Second)
			cc.fs.Close()
			done2 := make(chan struct{})
			go func() { wg2.Wait(); close(done2) }()
			if o, d := quiesce.Await(done2, wd); o != quiesce.CondMet {
				hang(c, o, d, "C10:late:new-call-hangs:"+kind, det)
				cc.fs.Shutdown()
				continue
			}
			reused := 0
			tagsOld := map[uint16]bool{}
			for _, rq := range old {
				tagsOld[rq.Msg.Tag] = true
			}
			for _, rq := range cc.fs.Reqs()[base2 : base2+K] {
				if tagsOld[rq.Msg.Tag] {
					reused++
				}
			}
			for i := K; i < 2*K; i++ {
				if s := res[i]; s != "" && !(len(s) > 6 && s[:6] == "error:") {
					c.Violation("C10:late:new-call-returns-a-reply-made-for-an-earlier-failed-call:"+kind, map[string]any{"fault": kind, "what": s, "tags_reused_while_old_requests_unanswered": reused})
					break
				}
			}
			c.Case(fmt.Sprintf("late:%s:%d:reused%d", kind, rep%4, minI(reused, 1)), true)
			c.Count("late_reply_rounds", 1)
			cc.fs.Shutdown()
		}
	}
}
