package checks

import (
	"fmt"
	"sync/atomic"

	"github.com/hugelgupf/p9/p9"

	"verif/internal/ev"
	"verif/internal/memfs"
	"verif/internal/model"
	"verif/internal/quiesce"
	"verif/internal/rawpeer"
	"verif/internal/wire"
)

// stepper runs requests lock-step against a real server over memfs and
// compares every reply and backend-call delta with the session model.
type stepper struct {
	c     *ev.Ctx
	prop  string
	fs    *memfs.FS
	srv   *p9.Server
	peers []*rawpeer.Peer
	w     *model.World
	trace []string
	dead  bool
	// relax: after an injected panic the model is no longer consulted
	relax bool
	// quiet: generation mode, nothing is reported (c may be nil)
	quiet bool
}

var stepperCounter uint64

func typOf(m p9.FileMode) byte {
	switch {
	case m.IsDir():
		return 'd'
	case m.IsRegular():
		return 'f'
	case m.IsSymlink():
		return 'l'
	case m.IsSocket():
		return 's'
	}
	return 'o'
}

func newStepper(c *ev.Ctx, prop string, fs *memfs.FS, nconn int) *stepper {
	s := &stepper{c: c, prop: prop, fs: fs, srv: p9.NewServer(fs)}
	s.w = model.New(nconn, func(path []string) (byte, uint64, bool) {
		n := fs.Lookup("/" + join2(path))
		if n == nil {
			return 0, 0, false
		}
		return typOf(n.Mode), n.ID, true
	})
	for i := 0; i < nconn; i++ {
		p := rawpeer.New(s.srv, altTransport())
		// the server serves a connection that never negotiated as well (the
		// default limits apply): every 11th stepper leaves Tversion out on its
		// last connection
		if skip := atomic.AddUint64(&stepperCounter, 1)%11 == 0 && i == nconn-1; !skip {
			if r := p.Version(1<<16, v7); !r.OK {
				s.dead = true
			}
		}
		s.peers = append(s.peers, p)
	}
	return s
}

func join2(p []string) string {
	out := ""
	for i, x := range p {
		if i > 0 {
			out += "/"
		}
		out += x
	}
	return out
}

func (s *stepper) close() {
	for _, p := range s.peers {
		p.Close()
	}
}

func lifecycleCall(m string) bool { return m == "Close" || m == "Renamed" }

type stepResult struct {
	reply    wire.Msg
	ok       bool
	dontCare bool
	verdict  model.Verdict
	calls    []*memfs.Call
}

// step executes one request and checks it against the model.
func (s *stepper) step(conn int, t uint8, vals ...any) stepResult {
	req := wire.Msg{Type: t, F: vals}
	desc := fmt.Sprintf("c%d %s", conn, req.String())
	mark := s.fs.NCalls()
	res := s.peers[conn].RPC(t, vals...)
	if !res.OK {
		s.trace = append(s.trace, desc)
		if !s.quiet {
			det := map[string]any{"request": desc, "trace": s.tail()}
			if res.Out == quiesce.CondMet {
				s.c.Violation(s.prop+":connection-ended-by-request:"+wire.TypeName(t), det)
			} else {
				hang(s.c, res.Out, res.Dump, s.prop+":request-never-answered:"+wire.TypeName(t), det)
			}
		}
		s.dead = true
		return stepResult{verdict: s.w.Judge(conn, req)}
	}
	s.trace = append(s.trace, desc+" -> "+res.Msg.String())
	return s.judgeDone(conn, req, res, s.fs.Calls(mark))
}

// judgeDone compares an executed request with the model and applies it.
func (s *stepper) judgeDone(conn int, req wire.Msg, res rawpeer.Result, calls []*memfs.Call) stepResult {
	t := req.Type
	desc := fmt.Sprintf("c%d %s", conn, req.String())
	v := s.w.Judge(conn, req)
	out := stepResult{verdict: v, reply: res.Msg, ok: true, calls: calls}
	if s.relax {
		return out
	}
	var real []*memfs.Call
	var firstErr *memfs.Call
	for _, cl := range calls {
		if lifecycleCall(cl.Method) {
			continue
		}
		real = append(real, cl)
		if firstErr == nil && cl.ErrVal != nil && !isEOF(cl.ErrVal) {
			firstErr = cl
		}
	}
	viol := func(kind string, extra map[string]any) {
		if s.quiet {
			return
		}
		det := map[string]any{"request": desc, "reply": res.Msg.String(), "model": v.Why, "backend_calls": callStrs(calls), "trace": s.tail(), "model_state": s.w.Key()}
		for k, x := range extra {
			det[k] = x
		}
		s.c.Violation(fmt.Sprintf("%s:%s:%s", s.prop, kind, wire.TypeName(t)), det)
	}
	errno := res.Errno()
	// EFAULT is what the server answers when a handler panicked. The backend
	// here never returns it by itself: without an injected panic in one of this
	// request's backend calls, EFAULT means the server panicked on its own.
	if errno == EFAULT {
		injected := false
		for _, cl := range calls {
			if cl.Fault != "" {
				injected = true
			}
		}
		if !injected {
			viol("request-answered-EFAULT-without-a-backend-panic", nil)
		}
	}
	switch {
	case v.DontCare:
		out.dontCare = true
	case len(v.Reject) > 0:
		if res.Msg.Type != wire.Rlerror || (!v.AnyErrno && !inSet(v.Reject, errno)) {
			viol("rejected-request-wrong-reply("+v.Why+")", map[string]any{"acceptable_errnos": v.Reject})
		}
		if len(real) > 0 {
			viol("rejected-request-reached-backend("+v.Why+")", nil)
		}
	case v.Local:
		if res.Msg.Type != v.Success {
			viol("local-request-wrong-reply", map[string]any{"want": wire.TypeName(v.Success)})
		}
		if len(real) > 0 {
			viol("local-request-reached-backend", nil)
		}
	case len(v.ForwardFail) > 0:
		if res.Msg.Type != wire.Rlerror || !(v.AnyErrno || inSet(v.ForwardFail, errno) || (firstErr != nil && inSet(errnoSet(firstErr.ErrVal), errno))) {
			viol("request-must-fail("+v.Why+")", map[string]any{"acceptable_errnos": v.ForwardFail})
		}
	case v.LocalOrForward && t == wire.Tclunk && anyErr(calls):
		// a backend error at any point of a request is that request's answer:
		// a Close that fails while the clunk drops its references - the fid's
		// own File or a parent that goes with it - is reported
		var union []int64
		for _, cl := range calls {
			if cl.ErrVal != nil {
				union = append(union, errnoSet(cl.ErrVal)...)
			}
		}
		if res.Msg.Type != wire.Rlerror || !inSet(union, errno) {
			viol("clunk-does-not-report-the-error-of-a-Close-it-caused", map[string]any{"acceptable_errnos": union})
		}
	case v.LocalOrForward:
		if res.Msg.Type != v.Success && !(res.Msg.Type == wire.Rlerror && anyErr(calls)) {
			viol("wrong-reply", map[string]any{"want": wire.TypeName(v.Success)})
		}
	case v.Forward && t == wire.Tclunk:
		// Tclunk reports the error of the deferred xattr operation or of
		// Close, whichever the server prefers; Close's error may also be ignored.
		var union []int64
		for _, cl := range calls {
			if cl.ErrVal != nil {
				union = append(union, errnoSet(cl.ErrVal)...)
			}
		}
		okc := (res.Msg.Type == v.Success && firstErr == nil) || (res.Msg.Type == wire.Rlerror && inSet(union, errno))
		if !okc {
			viol("clunk-wrong-reply", map[string]any{"acceptable_errnos": union})
		}
	case v.Forward:
		if firstErr != nil {
			want := errnoSet(firstErr.ErrVal)
			if res.Msg.Type != wire.Rlerror || !inSet(want, errno) {
				viol("backend-error-not-reported-as-its-errno", map[string]any{"backend_error": firstErr.String(), "acceptable_errnos": want})
			}
		} else {
			if res.Msg.Type != v.Success {
				viol("accepted-request-wrong-reply", map[string]any{"want": wire.TypeName(v.Success)})
			}
			if len(real) == 0 {
				viol("accepted-request-did-not-reach-backend", nil)
			}
		}
	}
	s.w.Apply(conn, req, res.Msg)
	return out
}

func anyErr(cs []*memfs.Call) bool {
	for _, c := range cs {
		if c.ErrVal != nil {
			return true
		}
	}
	return false
}

func (s *stepper) tail() []string {
	t := s.trace
	if len(t) > 600 {
		t = t[len(t)-600:]
	}
	return append([]string(nil), t...)
}

// probe checks the fid table against the model (EBADF iff unbound) and, for
// live unfenced fids, object identity.
func (s *stepper) probe(maxfid uint64, identity bool) {
	for conn := range s.peers {
		for fid := uint64(0); fid <= maxfid && !s.dead; fid++ {
			f := s.w.Conns[conn][fid]
			mark := s.fs.NCalls()
			res := s.peers[conn].RPC(wire.Tgetattr, fid, u(0x3fff))
			if !res.OK {
				hang(s.c, res.Out, res.Dump, s.prop+":probe-unanswered", map[string]any{"trace": s.tail()})
				s.dead = true
				return
			}
			det := map[string]any{"probe": fmt.Sprintf("c%d Tgetattr fid=%d", conn, fid), "reply": res.Msg.String(), "trace": s.tail(), "model_state": s.w.Key()}
			if s.quiet {
				continue // generation / lifecycle mode: the probe only exercises the fid
			}
			if f == nil {
				if res.Errno() != EBADF {
					s.c.Violation(s.prop+":fid-bound-though-model-says-unbound", det)
				}
				continue
			}
			if res.Errno() == EBADF {
				s.c.Violation(s.prop+":fid-unbound-though-model-says-bound", det)
				continue
			}
			// xattr fids are fids like any other here: Tgetattr through them
			// must reach the object they were bound to, at its current path
			if !identity || f.Fenced {
				continue
			}
			_ = mark
			ino, ok := getattrIno(res)
			want := s.fs.Lookup("/" + join2(f.Path))
			switch {
			case !ok:
				det["model_path"] = "/" + join2(f.Path)
				s.c.Violation(s.prop+":live-fid-getattr-fails", det)
			case f.Obj != 0 && ino != f.Obj:
				det["bound_to_object"], det["now_reaches_object"] = f.Obj, ino
				s.c.Violation(s.prop+":fid-reaches-a-different-object", det)
			case !f.Opened && (want == nil || want.ID != ino):
				det["model_path"] = "/" + join2(f.Path)
				s.c.Violation(s.prop+":fid-path-out-of-date", det)
			}
			s.c.Count("identity_probes", 1)
		}
	}
}

// treeCheck runs the read-only consistency check of the server's path tree
// (verif hook) and returns its complaint, if any.
func treeCheck(s *stepper) string {
	if err := p9.VerifTreeCheck(s.srv); err != nil {
		return err.Error()
	}
	return ""
}
