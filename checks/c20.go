package checks

import (
	"fmt"
	"net"
	"os"
	"path/filepath"
	"sync"
	"syscall"
	"time"

	"github.com/hugelgupf/p9/fsimpl/composefs"
	"github.com/hugelgupf/p9/fsimpl/localfs"
	"github.com/hugelgupf/p9/fsimpl/qids"
	"github.com/hugelgupf/p9/fsimpl/staticfs"
	"github.com/hugelgupf/p9/p9"

	"verif/internal/ev"
	"verif/internal/quiesce"
)

func init() {
	ev.Register(&ev.Spec{
		ID: "C20", Level: "exploration",
		Rule:            "(a) localfs (dev, ino) -> QID path mapping evaluated through a verif hook on pairs of every class (compact, high device bits, large major/minor, ino >= 2^39, field boundaries +-1), each pair looked up repeatedly, sequentially and from 8 goroutines: stability and injectivity via hash maps; real files of every creatable type through localfs for QID type vs mode; (b) qids.Mapper and composefs/staticfs served to concurrent clients under the race detector (walks, GetAttr and repeated listings of the mounted directories: every view of a file must report one QID path, every file its own); (c) FileMode <-> os.FileMode round trip for 7 types x 4096 permission values, both directions (exhaustive). Non-trivial: pair outside the all-zero case / mode with a type; distinct by (class) resp. value.",
		Assume:          []string{"race detector enabled in both tiers for this property", "the verif hook calls the real localToQid"},
		Shards:          shards(4, 8),
		Race:            raceIn("quick", "thorough"),
		RaceIsViolation: true,
		Timeout:         timeout(6*time.Minute, 40*time.Minute),
		Run:             runC20,
	})
}

func runC20(c *ev.Ctx) {
	if c.Mine(0) {
		c20Modes(c)
	}
	if c.Mine(1) {
		c20LocalPairs(c)
	}
	if c.Mine(2) {
		c20RealFiles(c)
		c20Mapper(c)
	}
	if c.Mine(3) {
		c20Served(c)
	}
	if c.NShards > 4 {
		for s := 4; s < c.NShards; s++ {
			if c.Mine(s) {
				c20Served(c)
				c20Mapper(c)
			}
		}
	}
}

// ---- (c) mode round trips ----

func c20Modes(c *ev.Ctx) {
	types := []p9.FileMode{p9.ModeRegular, p9.ModeDirectory, p9.ModeSymlink, p9.ModeSocket, p9.ModeNamedPipe, p9.ModeCharacterDevice, p9.ModeBlockDevice}
	const bits = p9.FileMode(0170000 | 07777)
	n := 0
	for _, t := range types {
		for perm := p9.FileMode(0); perm < 4096; perm++ {
			m := t | perm
			om := m.OSMode()
			back := p9.ModeFromOS(om)
			n++
			c.Case(fmt.Sprintf("mode:%o", uint32(m)), true)
			if back&bits != m&bits {
				c.Violation(fmt.Sprintf("C20:mode:FileMode->os->FileMode-not-identity:type-%o", uint32(t)>>12), map[string]any{"mode": fmt.Sprintf("%o", m), "os": om.String(), "back": fmt.Sprintf("%o", back)})
			}
			// reverse direction, for os modes in the image of the first
			om2 := back.OSMode()
			if om2 != om {
				c.Violation("C20:mode:os->FileMode->os-not-identity", map[string]any{"os": om.String(), "back": om2.String()})
			}
			// QID type agrees with the mode type
			qt := m.QIDType()
			if (qt&p9.TypeDir != 0) != (t == p9.ModeDirectory) || (qt&p9.TypeSymlink != 0) != (t == p9.ModeSymlink) {
				c.Violation("C20:mode:QIDType-disagrees-with-mode-type", map[string]any{"mode": fmt.Sprintf("%o", m), "qidtype": qt})
			}
		}
	}
	c.Exhaustive(true)
	c.Count("mode_values_round_tripped", int64(n))
	c.Sample(map[string]any{"part": "modes", "example": "ModeDirectory|06755 -> " + (p9.ModeDirectory | 06755).OSMode().String()})
}

// ---- (a) localfs pairs ----

type devino struct{ dev, ino uint64 }

func mkdev(major, minor uint64) uint64 {
	// Linux encoding
	return (major&0xfff)<<8 | (major&^0xfff)<<32 | (minor & 0xff) | (minor&^0xff)<<12
}

func c20PairClasses(r *ev.Rand) map[string][]devino {
	m := map[string][]devino{}
	add := func(cl string, d, i uint64) { m[cl] = append(m[cl], devino{d, i}) }
	inoB := []uint64{0, 1, 2, 1<<38 - 1, 1 << 38, 1<<39 - 2, 1<<39 - 1}
	inoBig := []uint64{1 << 39, 1<<39 + 1, 1 << 40, 1 << 62, 1<<63 - 1, 1 << 63, 1<<64 - 1}
	for _, i := range inoB {
		for _, mj := range []uint64{0, 1, 8, 253, 0xffe, 0xfff} {
			for _, mn := range []uint64{0, 1, 255, 256, 0xffe, 0xfff} {
				add("compact", mkdev(mj, mn), i)
			}
		}
	}
	for _, i := range append(inoB, inoBig...) {
		for _, mn := range []uint64{0x1000, 0x1001, 0xfffff, 0xffff0} {
			add("minor-too-large", mkdev(3, mn), i)
		}
		for _, mj := range []uint64{0x1000, 0x1001, 0xfffff} {
			add("major-too-large", mkdev(mj, 5), i)
		}
		for _, hi := range []uint64{1 << 32, 1 << 44, 1 << 63, 0xdeadbeef00000000} {
			add("dev-high-bits", hi|mkdev(1, 1), i)
			add("dev-high-bits", hi, i)
		}
	}
	for _, i := range inoBig {
		for _, d := range []uint64{0, mkdev(8, 1), mkdev(0xfff, 0xfff)} {
			add("ino-too-large", d, i)
		}
	}
	// compact pairs whose encoding has only high bits and a small number: the
	// neighbourhood of wherever a table for the other pairs starts counting
	for _, maj := range []uint64{1, 1024, 2047, 2048, 2049, 4095} {
		for _, min := range []uint64{0, 1, 4095} {
			for i := uint64(0); i <= 600; i++ {
				add("compact-high-major-small-ino", mkdev(maj, min), i)
			}
		}
	}
	for k := 0; k < 4000; k++ {
		add("random-compact", mkdev(uint64(r.Intn(4096)), uint64(r.Intn(4096))), r.U64()&(1<<39-1))
		add("random-any", r.U64(), r.U64())
		add("random-near", r.U64()&0xffffffff, r.U64()&(1<<40-1))
	}
	return m
}

func c20LocalPairs(c *ev.Ctx) {
	r := c.Rand("c20pairs")
	classes := c20PairClasses(r)
	reps := c.Sz(1, 200)
	first := map[devino]uint64{}
	owner := map[uint64]devino{}
	var mu sync.Mutex
	check := func(cl string, p devino, q uint64, err error, how string) {
		if err != nil {
			c.Violation("C20:localfs:mapping-fails:"+cl, map[string]any{"dev": p.dev, "ino": p.ino, "err": err.Error()})
			return
		}
		mu.Lock()
		defer mu.Unlock()
		if prev, ok := first[p]; ok {
			if prev != q {
				c.Violation("C20:localfs:pair-mapped-to-two-paths:"+cl+":"+how, map[string]any{"dev": fmt.Sprintf("%#x", p.dev), "ino": fmt.Sprintf("%#x", p.ino), "first": fmt.Sprintf("%#x", prev), "now": fmt.Sprintf("%#x", q)})
			}
		} else {
			first[p] = q
			if o, ok := owner[q]; ok && o != p {
				c.Violation("C20:localfs:two-pairs-mapped-to-one-path:"+cl, map[string]any{"a": fmt.Sprintf("%#x/%#x", o.dev, o.ino), "b": fmt.Sprintf("%#x/%#x", p.dev, p.ino), "path": fmt.Sprintf("%#x", q)})
			}
			owner[q] = p
		}
	}
	var all []struct {
		cl string
		p  devino
	}
	for cl, ps := range classes {
		for _, p := range ps {
			all = append(all, struct {
				cl string
				p  devino
			}{cl, p})
		}
	}
	// deterministic order
	for rep := 0; rep < 3*reps; rep++ {
		order := r.Perm(len(all))
		for _, i := range order {
			x := all[i]
			q, err := localfs.VerifQIDPath(x.p.dev, x.p.ino)
			check(x.cl, x.p, q, err, "sequential")
			if rep == 0 {
				c.Case(fmt.Sprintf("pair:%s:%x:%x", x.cl, x.p.dev, x.p.ino), x.p != devino{})
			}
		}
	}
	// concurrent lookups of fresh and known pairs
	var fresh []devino
	for k := 0; k < c.Sz(2000, 400000); k++ {
		fresh = append(fresh, devino{r.U64() | 1<<40, r.U64()})
	}
	var wg sync.WaitGroup
	for g := 0; g < 8; g++ {
		wg.Add(1)
		go func(g int) {
			defer wg.Done()
			for k := range fresh {
				p := fresh[(k+g*7)%len(fresh)]
				q, err := localfs.VerifQIDPath(p.dev, p.ino)
				check("concurrent-fresh", p, q, err, "concurrent")
				x := all[(k*13+g)%len(all)]
				q, err = localfs.VerifQIDPath(x.p.dev, x.p.ino)
				check(x.cl, x.p, q, err, "concurrent")
			}
		}(g)
	}
	wg.Wait()
	c.Count("localfs_pairs", int64(len(first)))
	c.Count("localfs_lookups", int64(len(all)*3*reps+len(fresh)*16))
	for cl, ps := range classes {
		p := ps[len(ps)/2]
		q, _ := localfs.VerifQIDPath(p.dev, p.ino)
		if cl != "random-any" && cl != "random-near" {
			c.Sample(map[string]any{"part": "localfs-pairs", "class": cl, "dev": fmt.Sprintf("%#x", p.dev), "ino": fmt.Sprintf("%#x", p.ino), "qid_path": fmt.Sprintf("%#x", q)})
		}
	}
}

// ---- real files of every creatable type ----

func c20RealFiles(c *ev.Ctx) {
	dir, err := os.MkdirTemp(filepath.Join(c.Dir, ".."), "c20-")
	if err != nil {
		c.Inconclusive("C20 tempdir: " + err.Error())
		return
	}
	defer os.RemoveAll(dir)
	os.WriteFile(filepath.Join(dir, "reg"), []byte("x"), 0644)
	os.Mkdir(filepath.Join(dir, "dir"), 0755)
	os.Symlink("reg", filepath.Join(dir, "sym"))
	syscall.Mkfifo(filepath.Join(dir, "fifo"), 0644)
	if l, err := net.Listen("unix", filepath.Join(dir, "sock")); err == nil {
		defer l.Close()
	}
	os.Symlink("/dev/null", filepath.Join(dir, "devnull-link"))
	type exp struct {
		name string
		dir  bool
		sym  bool
	}
	exps := []exp{{"reg", false, false}, {"dir", true, false}, {"sym", false, true}, {"fifo", false, false}, {"sock", false, false}, {"devnull-link", false, true}}
	root, err := localfs.Attacher(dir).Attach()
	if err != nil {
		c.Inconclusive("C20 attach: " + err.Error())
		return
	}
	// /dev/null itself through a second attach point
	if dn, err := localfs.Attacher("/dev").Attach(); err == nil {
		if qs, f, err := dn.Walk([]string{"null"}); err == nil {
			gq, _, attr, _ := f.GetAttr(p9.AttrMaskAll)
			if qs[0] != gq || gq.Type != attr.Mode.QIDType() || gq.Type&(p9.TypeDir|p9.TypeSymlink) != 0 {
				c.Violation("C20:localfs:QID-type-disagrees:chardev", map[string]any{"walk": qs[0].String(), "getattr": gq.String(), "mode": fmt.Sprintf("%o", attr.Mode)})
			}
			c.Case("real:devnull", true)
			f.Close()
		}
	}
	for _, e := range exps {
		for rep := 0; rep < 3; rep++ {
			qs, f, err := root.Walk([]string{e.name})
			if err != nil {
				if rep == 0 {
					c.Note("C20 real file %s not available: %v", e.name, err)
				}
				break
			}
			gq, _, attr, gerr := f.GetAttr(p9.AttrMaskAll)
			f.Close()
			if gerr != nil {
				c.Violation("C20:localfs:GetAttr-fails:"+e.name, gerr.Error())
				break
			}
			c.Case("real:"+e.name, true)
			var st syscall.Stat_t
			syscall.Lstat(filepath.Join(dir, e.name), &st)
			want, _ := localfs.VerifQIDPath(uint64(st.Dev), st.Ino)
			if qs[0].Path != want || gq.Path != want {
				c.Violation("C20:localfs:QID-path-unstable:"+e.name, map[string]any{"walk": qs[0].Path, "getattr": gq.Path, "mapping": want})
			}
			if (gq.Type&p9.TypeDir != 0) != e.dir || (gq.Type&p9.TypeSymlink != 0) != e.sym || gq.Type != qs[0].Type || gq.Type != attr.Mode.QIDType() {
				c.Violation("C20:localfs:QID-type-disagrees-with-mode:"+e.name, map[string]any{"walk": qs[0].String(), "getattr": gq.String(), "mode": fmt.Sprintf("%o", attr.Mode)})
			}
		}
	}
	c.Sample(map[string]any{"part": "real-files", "types": []string{"reg", "dir", "sym", "fifo", "sock", "chardev"}})
}

// ---- (b) mapper ----

func c20Mapper(c *ev.Ctx) {
	rounds := c.Sz(30, 3000)
	for round := 0; round < rounds; round++ {
		g := &qids.PathGenerator{}
		m1 := qids.NewMapper(g)
		m2 := qids.NewMapper(g) // shares the generator, as composefs mounts do
		const G = 8
		const N = 300
		out := make([][]p9.QID, G)
		var wg sync.WaitGroup
		for w := 0; w < G; w++ {
			wg.Add(1)
			go func(w int) {
				defer wg.Done()
				res := make([]p9.QID, 0, 2*N)
				for i := 0; i < N; i++ {
					src := uint64((i*7 + w*3) % 97) // known and fresh sources mixed
					// type and version of one source change between lookups (an
					// inode number reused by a file of another type): the mapper
					// translates the path and nothing else
					typ, ver := c20MapperTypeVer(i)
					res = append(res, m1.QIDFor(p9.QID{Type: typ, Version: ver, Path: src}))
					res = append(res, m2.QIDFor(p9.QID{Type: typ, Version: ver + 1, Path: src}))
				}
				out[w] = res
			}(w)
		}
		wg.Wait()
		// oracle: per mapper a function; across both mappers injective
		f1, f2 := map[uint64]uint64{}, map[uint64]uint64{}
		owner := map[uint64]string{}
		for w := 0; w < G; w++ {
			for i := 0; i < N; i++ {
				src := uint64((i*7 + w*3) % 97)
				for k, fm := range []map[uint64]uint64{f1, f2} {
					q := out[w][2*i+k]
					if typ, ver := c20MapperTypeVer(i); q.Type != typ || q.Version != ver+uint32(k) {
						c.Violation("C20:mapper:type-or-version-changed", map[string]any{"got": q.String(), "want_type": typ, "want_version": ver + uint32(k), "src": src})
					}
					if prev, ok := fm[src]; ok && prev != q.Path {
						c.Violation("C20:mapper:one-source-two-outputs", map[string]any{"src": src, "a": prev, "b": q.Path, "round": round})
					}
					fm[src] = q.Path
					id := fmt.Sprintf("%d:%d", k, src)
					if o, ok := owner[q.Path]; ok && o != id {
						c.Violation("C20:mapper:two-sources-one-output", map[string]any{"a": o, "b": id, "path": q.Path})
					}
					owner[q.Path] = id
				}
			}
		}
		c.Case(fmt.Sprintf("mapper:round%d", round%4), true)
		c.Count("mapper_lookups", int64(2*G*N))
	}
	c.Sample(map[string]any{"part": "mapper", "goroutines": 8, "lookups_per_round": 4800, "sources": 97})
}

func c20MapperTypeVer(i int) (p9.QIDType, uint32) {
	return []p9.QIDType{p9.TypeDir, p9.TypeRegular, p9.TypeSymlink}[(i/97)%3], uint32(3 + i/50)
}

// ---- composefs / staticfs served to concurrent clients ----

func c20Served(c *ev.Ctx) {
	dir, err := os.MkdirTemp(filepath.Join(c.Dir, ".."), "c20s-")
	if err != nil {
		c.Inconclusive("C20 tempdir: " + err.Error())
		return
	}
	defer os.RemoveAll(dir)
	var names []string
	for i := 0; i < 40; i++ {
		n := fmt.Sprintf("f%02d", i)
		names = append(names, n)
		os.WriteFile(filepath.Join(dir, n), []byte(n), 0644)
	}
	st, _ := staticfs.New(staticfs.WithFile("s1", "one"), staticfs.WithFile("s2", "two"))
	rounds := c.Sz(6, 600)
	for round := 0; round < rounds; round++ {
		fs, err := composefs.New(
			composefs.WithMount("local", localfs.Attacher(dir)),
			composefs.WithMount("static", st),
			composefs.WithDir("nest", composefs.WithMount("local2", localfs.Attacher(dir)), composefs.WithFile("nf", staticfs.ReadOnlyFile("nf"))),
			composefs.WithFile("top", staticfs.ReadOnlyFile("top")),
		)
		if err != nil {
			c.Inconclusive("C20 composefs: " + err.Error())
			return
		}
		srv := p9.NewServer(fs)
		const K = 4  // connections
		const G = 16 // client goroutines
		var clients []*p9.Client
		var conns []net.Conn
		var hds []chan struct{}
		for k := 0; k < K; k++ {
			cc, sc := net.Pipe()
			hd := make(chan struct{})
			go func() { srv.Handle(sc, sc); close(hd) }()
			cl, err := p9.NewClient(cc)
			if err != nil {
				c.Inconclusive("C20 NewClient: " + err.Error())
				return
			}
			clients = append(clients, cl)
			conns = append(conns, cc)
			hds = append(hds, hd)
		}
		type obs struct {
			key string
			q   p9.QID
		}
		res := make([][]obs, G)
		done := make(chan struct{})
		go func() {
			defer close(done)
			var wg sync.WaitGroup
			for g := 0; g < G; g++ {
				wg.Add(1)
				go func(g int) {
					defer wg.Done()
					cl := clients[g%K]
					root, err := cl.Attach("")
					if err != nil {
						return
					}
					defer root.Close()
					paths := [][]string{{"local"}, {"static"}, {"nest"}, {"top"}, {"static", "s1"}, {"static", "s2"}, {"nest", "nf"}, {"nest", "local2"}}
					for i := 0; i < 12; i++ {
						n := names[(i*5+g*3+round)%len(names)]
						paths = append(paths, []string{"local", n}, []string{"nest", "local2", n})
					}
					for _, p := range paths {
						qs, f, err := root.Walk(p)
						if err != nil {
							continue
						}
						key := fmt.Sprint(p)
						res[g] = append(res[g], obs{key, qs[len(qs)-1]})
						if gq, _, _, err := f.GetAttr(p9.AttrMaskAll); err == nil {
							res[g] = append(res[g], obs{key, gq})
						}
						f.Close()
					}
					// the same files as a listing reports them - twice: the QID
					// of an entry is the QID of the file, every time
					for _, dp := range [][]string{{"static"}, {"local"}} {
						for rep := 0; rep < 2; rep++ {
							_, d, err := root.Walk(dp)
							if err != nil {
								continue
							}
							if _, _, err := d.Open(p9.ReadOnly); err == nil {
								off := uint64(0)
								for page := 0; page < 100; page++ {
									ents, err := d.Readdir(off, 1<<15)
									if err != nil || len(ents) == 0 {
										break
									}
									for _, e := range ents {
										res[g] = append(res[g], obs{fmt.Sprint(append(append([]string{}, dp...), e.Name)), e.QID})
									}
									off = ents[len(ents)-1].Offset
								}
							}
							d.Close()
						}
					}
				}(g)
			}
			wg.Wait()
		}()
		if out, dump := quiesce.Await(done, 2*wd); out != quiesce.CondMet {
			hang(c, out, dump, "C20:served:concurrent-walks-hang", nil)
			return
		}
		for _, cc := range conns {
			cc.Close()
		}
		for _, hd := range hds {
			quiesce.Await(hd, wd)
		}
		seen := map[string]p9.QID{}
		owner := map[uint64]string{}
		nobs := 0
		for g := range res {
			for _, o := range res[g] {
				nobs++
				if prev, ok := seen[o.key]; ok && prev.Path != o.q.Path {
					c.Violation("C20:served:one-file-two-QID-paths", map[string]any{"file": o.key, "a": prev.Path, "b": o.q.Path})
				}
				seen[o.key] = o.q
				// "local" and "nest/local2" are the same directory on disk, but
				// mounted through different mappers: they are distinct sources.
				if ow, ok := owner[o.q.Path]; ok && ow != o.key {
					c.Violation("C20:served:two-files-one-QID-path", map[string]any{"a": ow, "b": o.key, "path": o.q.Path})
				}
				owner[o.q.Path] = o.key
			}
		}
		c.Case(fmt.Sprintf("served:round%d", round%4), true)
		c.Count("served_qid_observations", int64(nobs))
	}
	c.Sample(map[string]any{"part": "served", "connections": 4, "client_goroutines": 16, "mounts": []string{"local", "static", "nest/local2", "nest/nf", "top"}})
}
