#!/bin/sh
# Builds the framework from files on disk only (offline) and warms the build cache.
cd "$(dirname "$0")" || exit 2
export GOFLAGS=-mod=mod GOPROXY=off GOSUMDB=off GOTOOLCHAIN=local
mkdir -p .bin .scratch evidence replays
go build -tags verif -o .bin/harness ./cmd/harness || exit 1
go build -race -tags verif -o .bin/harness-race ./cmd/harness || exit 1
.bin/harness list >/dev/null
