#!/bin/sh
# usage: ./check.sh <ID> [quick|thorough]
# Rebuilds the harness against /repo's current working tree (build tag verif)
# and runs one property check. Exit 0 held / 1 violation / 2 broken or inconclusive.
cd "$(dirname "$0")" || exit 2
export VERIF_ROOT="$(pwd)"
export GOFLAGS=-mod=mod GOPROXY=off GOSUMDB=off GOTOOLCHAIN=local
ID="$1"
[ -n "$2" ] && export VERIF_TIER="$2"
[ -z "$VERIF_TIER" ] && export VERIF_TIER=quick
mkdir -p .bin .scratch
# Builds read /repo. tools/seed_eval.sh holds this lock while a seeded change is
# applied there, so that a check started by somebody else never compiles it in.
if [ -z "$VERIF_NO_BUILD_LOCK" ] && command -v flock >/dev/null 2>&1; then
  { exec 9>/repo/.git/verif-build.lock; } 2>/dev/null && flock 9
fi
if ! go build -tags verif -o ".bin/h-$ID" ./cmd/harness 2>".scratch/build-$ID.log"; then
  echo "BROKEN-CHECK: harness does not build against /repo (see below)"
  cat ".scratch/build-$ID.log"
  exit 2
fi
exec 9>&- 2>/dev/null
exec ".bin/h-$ID" run "$ID"
